package main

import (
	"fmt"
	"go/constant"
	"go/token"
	"go/types"
	"sort"
	"strings"

	"golang.org/x/tools/go/ssa"
)

// ---------------------------------------------------------------- IDX5

func ruleIDX5(c *Ctx) []Ob {
	o := newObs(c, "IDX5")
	r := c.Roles()
	isMWCall := func(call ssa.CallInstruction) bool { return c.callsMetaWriter(call) }
	for _, fn := range c.LibFuncs {
		if c.pkgRel(fn) != "" {
			continue
		}
		// index creation: a closure adding to an index is fed by a scan in this function
		allCalls(fn, func(call ssa.CallInstruction) {
			if c.calleeEff(call)&EffCursor == 0 {
				return
			}
			for _, a := range call.Common().Args {
				cf := closureFn(a)
				if cf == nil || c.eff(cf)&EffIdxAdd == 0 || c.eff(cf)&EffDestructive != 0 {
					continue
				}
				key := c.fname(fn) + "/index build then catalog write"
				pos := relPath(c, call.Pos())
				ok := false
				bad := ""
				allCalls(fn, func(m ssa.CallInstruction) {
					if isMWCall(m) && instrDominates(call, m) {
						ok = true
					}
				})
				if !ok {
					bad = "the catalog is not written after the index has been built"
				}
				// every success return after the build passes the catalog write
				if bad == "" {
					if cl, isCall := call.(*ssa.Call); isCall {
						if ret := c.successReturnWithout(fn, cl, isMWCall); ret != "" {
							bad = "the return at " + ret + " reports success without the catalog having been written"
						}
					}
				}
				if bad != "" {
					o.add(VIOLATED, key, pos, "%s", bad)
				} else {
					o.add(OK, key, pos, "every document of a criteria-less scan is added to the new index, then the catalog entry is written on every success path")
				}
			}
		})
		// index drop: entries are dropped before the catalog is written
		allCalls(fn, func(call ssa.CallInstruction) {
			if !c.isInvokeOf(call, "index", "Index", "Drop") {
				return
			}
			// the index that is dropped is the one named by the caller: its field comes from a
			// parameter, or from a catalog entry read before the catalog slice is modified
			{
				k2 := c.fname(fn) + "/drops the requested index"
				ctor := c.lookupFunc("index", "CreateIndex")
				verdict, why := OK, "the dropped index is built from the field the caller named"
				// a library helper that hands back what the constructor made (db.indexOf(tx, collection, info))
				wrapsCtor := func(g *ssa.Function) bool {
					if g == nil || !c.IsLib(g) {
						return false
					}
					for _, ret := range returnsOf(g) {
						rv, has := returnedValue(ret, 0)
						if !has {
							continue
						}
						for _, og := range origins(rv) {
							if ic, ok := og.(*ssa.Call); ok && staticCallee(ic) != nil && c.declared(staticCallee(ic)) == ctor {
								return true
							}
						}
					}
					return false
				}
				for _, ro := range origins(call.Common().Value) {
					cc, isCall := ro.(*ssa.Call)
					if !isCall || staticCallee(cc) == nil {
						verdict, why = UNDECIDED, "the dropped index is not built by index.CreateIndex here"
						continue
					}
					var fieldArgs []ssa.Value
					switch {
					case c.declared(staticCallee(cc)) == ctor && len(cc.Common().Args) >= 2:
						fieldArgs = []ssa.Value{cc.Common().Args[1]}
					case wrapsCtor(c.declared(staticCallee(cc))):
						for _, a := range cc.Common().Args {
							if isStringType(a.Type()) || c.libNamedIs(a.Type(), "index", "Info") {
								fieldArgs = append(fieldArgs, a)
							}
						}
					default:
						verdict, why = UNDECIDED, "the dropped index is not built by index.CreateIndex here"
						continue
					}
					for _, fa0 := range fieldArgs {
						for _, fo := range c.paramSources(fa0, 0) {
							switch x := fo.(type) {
							case *ssa.Parameter:
							case *ssa.UnOp:
								// a load from the catalog: no store into catalog entries may precede it
								stale := false
								for _, b2 := range fn.Blocks {
									for _, in2 := range b2.Instrs {
										st, isSt := in2.(*ssa.Store)
										if !isSt {
											continue
										}
										addr := st.Addr
										if fa, isFA := addr.(*ssa.FieldAddr); isFA {
											addr = fa.X
										}
										if _, isIA := addr.(*ssa.IndexAddr); isIA && reachesAfter(st, x) {
											stale = true
										}
									}
								}
								if stale {
									verdict, why = VIOLATED, "the field of the index to drop is read from a catalog slot after the catalog slice has been rearranged (swap-remove): a pointer into the slice now designates another index, whose entries are erased while the dropped index's entries stay behind"
								}
							case *ssa.Alloc, *ssa.Const:
								// a description put together here
							default:
								verdict, why = UNDECIDED, "where the dropped index's field comes from was not established"
							}
						}
					}
				}
				o.add(verdict, k2, relPath(c, call.Pos()), "%s", why)
			}
			key := c.fname(fn) + "/drop entries then catalog write"
			pos := relPath(c, call.Pos())
			ok := false
			allCalls(fn, func(m ssa.CallInstruction) {
				if isMWCall(m) && instrDominates(call, m) {
					ok = true
				}
			})
			if !ok {
				o.add(VIOLATED, key, pos, "the index entries are dropped but the catalog is not rewritten afterwards")
				return
			}
			if cl, isCall := call.(*ssa.Call); isCall {
				if ret := c.successReturnWithout(fn, cl, isMWCall); ret != "" {
					o.add(VIOLATED, key, pos, "the return at %s reports success without the catalog having been written", ret)
					return
				}
			}
			o.add(OK, key, pos, "Index.Drop precedes the catalog write on every success path")
		})
		// a catalog write that removes an index entry must be preceded by Index.Drop
		// collection drop: bulk delete before the catalog key is deleted
		for _, s := range r.model.sinks {
			if s.Fn != fn || s.Op != "Delete" || !sinkHasSkel(s, r.CatalogSkel) {
				continue
			}
			key := c.fname(fn) + "/bulk delete then catalog delete"
			pos := relPath(c, s.Call.Pos())
			ok := false
			allCalls(fn, func(m ssa.CallInstruction) {
				e := c.calleeEff(m)
				if e&EffTxDelete != 0 && e&EffIdxRemove != 0 && e&EffCursor != 0 && instrDominates(m, s.Call) {
					ok = true
				}
			})
			if ok {
				o.add(OK, key, pos, "the catalog key is deleted only after the bulk delete of all documents (which removes their index entries)")
			} else {
				o.add(VIOLATED, key, pos, "the collection's catalog key is deleted without its documents and index entries having been removed first: residue that reappears when the name is re-created")
			}
		}
	}
	return o.list
}

// successReturnWithout: a return of a nil / not provably non-nil error reachable
// after `from` without passing a call satisfying pred. Returns its position or "".
func (c *Ctx) successReturnWithout(fn *ssa.Function, from *ssa.Call, pred func(ssa.CallInstruction) bool) string {
	ei := errResultIndex(fn.Signature)
	if ei < 0 {
		return ""
	}
	blocked := func(b *ssa.BasicBlock, start int) bool {
		for i := start; i < len(b.Instrs); i++ {
			if call, ok := b.Instrs[i].(ssa.CallInstruction); ok && pred(call) {
				return true
			}
		}
		return false
	}
	checkRet := func(b *ssa.BasicBlock) string {
		ret, ok := b.Instrs[len(b.Instrs)-1].(*ssa.Return)
		if !ok {
			return ""
		}
		rv, ok := returnedValue(ret, ei)
		if !ok {
			return ""
		}
		if isNilConst(rv) || !c.provablyNonNil(fn, rv, b) {
			// the result of the predicate call itself (return writer(...)) is fine: handled by blocked()
			return relPath(c, ret.Pos())
		}
		return ""
	}
	start := from.Block()
	if blocked(start, instrIndex(from)+1) {
		return ""
	}
	if s := checkRet(start); s != "" {
		return s
	}
	seen := map[*ssa.BasicBlock]bool{start: true}
	stack := append([]*ssa.BasicBlock{}, start.Succs...)
	for len(stack) > 0 {
		b := stack[len(stack)-1]
		stack = stack[:len(stack)-1]
		if seen[b] {
			continue
		}
		seen[b] = true
		if blocked(b, 0) {
			continue
		}
		if s := checkRet(b); s != "" {
			return s
		}
		stack = append(stack, b.Succs...)
	}
	return ""
}

// ---------------------------------------------------------------- ADP3

func isBackendPath(p string) bool {
	return strings.HasPrefix(p, "go.etcd.io/bbolt") || strings.HasPrefix(p, "github.com/dgraph-io/badger")
}

func ruleADP3(c *Ctx) []Ob {
	o := newObs(c, "ADP3")
	for _, fn := range c.LibFuncs {
		rel := c.pkgRel(fn)
		adapter := strings.HasPrefix(rel, "store/")
		n := 0
		allCalls(fn, func(call ssa.CallInstruction) {
			g := staticCallee(call)
			if g == nil || g.Pkg == nil || !isBackendPath(g.Pkg.Pkg.Path()) || g.Name() == "init" {
				return
			}
			n++
			if !adapter {
				o.add(VIOLATED, c.fname(fn)+"/"+shortName(calleeFullName(call)), relPath(c, call.Pos()), "a backend API is called outside the store adapters: behaviour now depends on which store is plugged in")
			}
		})
		if adapter && n > 0 {
			o.add(OK, c.fname(fn)+"/backend calls", relPath(c, fn.Pos()), "%d backend calls inside the adapter package", n)
		}
		if !adapter {
			for _, b := range fn.Blocks {
				for _, in := range b.Instrs {
					for _, op := range in.Operands(nil) {
						if g, ok := (*op).(*ssa.Global); ok && g.Pkg != nil && isBackendPath(g.Pkg.Pkg.Path()) {
							o.add(INFO, c.fname(fn)+"/reads "+g.Name(), relPath(c, in.Pos()), "a backend package variable is read outside the adapters (unused options value)")
						}
					}
				}
			}
		}
	}
	return o.list
}

// ---------------------------------------------------------------- OPS3

func ruleOPS3(c *Ctx) []Ob {
	o := newObs(c, "OPS3")
	m := c.buildOpsModel()
	if m.constructor == nil {
		o.add(UNDECIDED, "model", "-", "criteria constructor not found")
		return o.list
	}
	type def struct{ name, base string }
	for _, d := range []def{{"Neq", "EqOp"}, {"NotExists", "ExistsOp"}} {
		fn := c.lookupMethod("query", "field", d.name)
		key := "field." + d.name + " = Not(" + d.base + ")"
		if fn == nil {
			o.add(UNDECIDED, key, "-", "builder not found")
			continue
		}
		want, _ := c.opConst(d.base)
		good, why := true, ""
		// resolve a criteria-valued expression to the operator it is constructed with
		var opOf func(v ssa.Value, depth int, argOK func(ssa.Value) bool) (int64, bool)
		opOf = func(v ssa.Value, depth int, argOK func(ssa.Value) bool) (int64, bool) {
			if depth > 3 {
				return 0, false
			}
			for _, og := range origins(v) {
				call, ok := og.(*ssa.Call)
				if !ok {
					return 0, false
				}
				g := staticCallee(call)
				if g == nil {
					return 0, false
				}
				if g == m.constructor {
					k, ok := constInt(call.Common().Args[m.opParam])
					if !ok {
						return 0, false
					}
					if m.valParam >= 0 && !argOK(call.Common().Args[m.valParam]) {
						return 0, false
					}
					return k, true
				}
				// a sibling builder: its parameters must be our parameters, passed through
				if c.pkgRel(g) == "query" && len(g.Blocks) > 0 {
					args := call.Common().Args
					for _, ret := range returnsOf(g) {
						rv, ok := returnedValue(ret, 0)
						if !ok {
							continue
						}
						return opOf(rv, depth+1, func(x ssa.Value) bool {
							x = stripIfaceOnly(x)
							if isNilConst(x) {
								return true
							}
							p, ok := x.(*ssa.Parameter)
							if !ok {
								return false
							}
							pi := paramIndex(g, p)
							return pi >= 0 && pi < len(args) && argOK(args[pi])
						})
					}
				}
				return 0, false
			}
			return 0, false
		}
		for _, ret := range returnsOf(fn) {
			rv, ok := returnedValue(ret, 0)
			if !ok {
				continue
			}
			for _, og := range origins(rv) {
				call, ok := og.(*ssa.Call)
				if !ok || !call.Common().IsInvoke() || call.Common().Method.Name() != "Not" {
					good, why = false, "the builder does not return Not() of a criteria"
					continue
				}
				k, ok := opOf(call.Common().Value, 0, func(x ssa.Value) bool {
					x = stripIfaceOnly(x)
					if isNilConst(x) {
						return true
					}
					_, isParam := x.(*ssa.Parameter)
					return isParam
				})
				if !ok {
					good, why = false, "the negated criteria is not a constructor call on the builder's own arguments"
				} else if k != want {
					good, why = false, "the negated criteria is built with "+c.opName(k)+", not "+d.base
				}
			}
		}
		if good {
			o.add(OK, key, relPath(c, fn.Pos()), "defined as the negation of the sibling operator on the same arguments")
		} else {
			o.add(VIOLATED, key, relPath(c, fn.Pos()), "%s", why)
		}
	}
	return o.list
}

// ---------------------------------------------------------------- IDX6

// IDX6: index maintenance is unconditional per (document, index): inside a loop
// over indexes every iteration reaches the Add/Remove call; inside a
// per-document callback every success return passes it.
func ruleIDX6(c *Ctx) []Ob {
	o := newObs(c, "IDX6")
	for _, fn := range c.LibFuncs {
		if c.pkgRel(fn) != "" {
			continue
		}
		allCalls(fn, func(call ssa.CallInstruction) {
			isAdd := c.isInvokeOf(call, "index", "Index", "Add")
			isRem := c.isInvokeOf(call, "index", "Index", "Remove")
			if !isAdd && !isRem {
				return
			}
			what := "Add"
			if isRem {
				what = "Remove"
			}
			key := c.fname(fn) + "/Index." + what + " unconditional"
			pos := relPath(c, call.Pos())
			ab := call.Block()
			if c.inLoop(ab) {
				h, body := c.innermostLoop(ab)
				if h == nil {
					o.add(UNDECIDED, key, pos, "loop structure not understood")
					return
				}
				// can an iteration complete (reach a back edge to h) without passing ab?
				seen := map[*ssa.BasicBlock]bool{}
				var stack []*ssa.BasicBlock
				for _, s := range h.Succs {
					if body[s] && s != ab {
						stack = append(stack, s)
					}
				}
				skipped := false
				for len(stack) > 0 {
					x := stack[len(stack)-1]
					stack = stack[:len(stack)-1]
					if seen[x] || !body[x] || x == ab {
						continue
					}
					seen[x] = true
					for _, s := range x.Succs {
						if s == h {
							skipped = true
						}
						stack = append(stack, s)
					}
				}
				// can the function return success without entering the loop at all (an early return ahead of
				// it)? Only an emptiness test of a slice or the absence of the document may decide that.
				bypass := ""
				if ei := errResultIndex(fn.Signature); ei >= 0 && !skipped {
					emptyEdges := guardEdges(fn, func(cond ssa.Value, branch bool) bool {
						b, ok := cond.(*ssa.BinOp)
						if !ok {
							return false
						}
						isLen := func(v ssa.Value) bool {
							cl, ok := v.(*ssa.Call)
							if !ok {
								return false
							}
							bi, ok := cl.Call.Value.(*ssa.Builtin)
							return ok && bi.Name() == "len"
						}
						zero := func(v ssa.Value) bool { k, ok := constInt(v); return ok && k == 0 }
						// "there is no such document": nothing to remove entries of
						if c.libNamedIs(b.X.Type(), "document", "Document") && isNilConst(b.Y) {
							return (b.Op == token.EQL && branch) || (b.Op == token.NEQ && !branch)
						}
						if !(isLen(b.X) && zero(b.Y)) {
							return false
						}
						return (b.Op == token.EQL && branch) || (b.Op == token.NEQ && !branch) || (b.Op == token.GTR && !branch) || (b.Op == token.LEQ && branch)
					})
					for _, ret := range returnsOf(fn) {
						if h.Dominates(ret.Block()) {
							continue
						}
						rv, ok := returnedValue(ret, ei)
						if !ok || !(isNilConst(rv) || !c.provablyNonNil(fn, rv, ret.Block())) {
							continue
						}
						// paths on which the returned error is known to be non-nil are failures, not successes
						cutEdges := append(append([]edge{}, emptyEdges...), nonNilEdges(fn, sameValue(rv))...)
						if guardedBy(fn, ret.Block(), cutEdges) {
							continue
						}
						bypass = relPath(c, ret.Pos())
					}
				}
				if bypass != "" {
					o.add(VIOLATED, key, pos, "the function can return success at %s without entering the loop over the indexes: for the documents that take this path no index is maintained (entries are left behind / never written), while scans through an index assume exactly one entry per live document", bypass)
				} else if skipped {
					o.add(VIOLATED, key, pos, "an iteration of the loop over the indexes can complete without calling Index.%s: some (document, index) pairs get no entry / keep a stale one, while scans through that index assume exactly one entry per document (an absent field is indexed as nil)", what)
				} else {
					o.add(OK, key, pos, "every iteration of the loop reaches the call (or leaves the function with an error)")
				}
				return
			}
			if fn.Parent() == nil {
				o.add(OK, key, pos, "straight-line maintenance in a named function")
				return
			}
			// per-document callback: no success return without the call
			ei := errResultIndex(fn.Signature)
			bad := ""
			seen := map[*ssa.BasicBlock]bool{}
			stack := []*ssa.BasicBlock{fn.Blocks[0]}
			for len(stack) > 0 {
				x := stack[len(stack)-1]
				stack = stack[:len(stack)-1]
				if seen[x] || x == ab {
					continue
				}
				seen[x] = true
				if ret, ok := x.Instrs[len(x.Instrs)-1].(*ssa.Return); ok && ei >= 0 {
					if rv, ok := returnedValue(ret, ei); ok && (isNilConst(rv) || !c.provablyNonNil(fn, rv, x)) {
						bad = relPath(c, ret.Pos())
					}
				}
				stack = append(stack, x.Succs...)
			}
			if bad != "" {
				o.add(VIOLATED, key, pos, "the per-document callback can return success at %s without calling Index.%s: documents it skips have no entry in the index, but every scan through the index assumes one entry per document", bad, what)
			} else {
				o.add(OK, key, pos, "every success return of the per-document callback passes the call")
			}
		})
	}
	return o.list
}

// ---------------------------------------------------------------- PLAN7

// PLAN7: the in-memory sort is elided only when the output of the index scan is
// the requested order: exactly one sort option, on the field of the index scanned.
func rulePLAN7(c *Ctx) []Ob {
	o := newObs(c, "PLAN7")
	found := false
	for _, builder := range c.LibFuncs {
		if c.pkgRel(builder) != "" {
			continue
		}
		// the builder creates the sort node: a literal, or a call of a constructor returning one
		var sortAlloc ssa.Instruction
		isSortPtr := func(t types.Type) bool {
			p, ok := t.Underlying().(*types.Pointer)
			if !ok {
				return false
			}
			n, ok := p.Elem().(*types.Named)
			return ok && n.Obj().Pkg() != nil && n.Obj().Pkg().Path() == c.ModPath && c.nodeKind(n) == "sort"
		}
		for _, b := range builder.Blocks {
			for _, in := range b.Instrs {
				switch x := in.(type) {
				case *ssa.Alloc:
					if isSortPtr(x.Type()) {
						sortAlloc = x
					}
				case *ssa.Call:
					if g := staticCallee(x); g != nil && c.IsLib(g) && g.Signature.Results().Len() == 1 && isSortPtr(g.Signature.Results().At(0).Type()) && c.returnsFresh(c.declared(g)) {
						sortAlloc = x
					}
				}
			}
		}
		if sortAlloc == nil {
			continue
		}
		// a constructor itself is not the builder
		if builder.Signature.Results().Len() == 1 && isSortPtr(builder.Signature.Results().At(0).Type()) {
			continue
		}
		// the flag: a bool result of a call, tested on the way to the allocation
		allCalls(builder, func(ci ssa.CallInstruction) {
			call, ok := ci.(*ssa.Call)
			if !ok {
				return
			}
			F := staticCallee(call)
			if F == nil || !c.IsLib(F) {
				return
			}
			res := F.Signature.Results()
			for bi := 0; bi < res.Len(); bi++ {
				if b, ok := res.At(bi).Type().Underlying().(*types.Basic); !ok || b.Kind() != types.Bool {
					continue
				}
				for _, ex := range resultValues(call, bi) {
					// the flag flows (through !, phi, &&/|| joins) into a condition that decides
					// whether the sort node is created
					derived := map[ssa.Value]bool{ex: true}
					for changed := true; changed; {
						changed = false
						for v := range derived {
							for _, r := range realReferrers(v) {
								switch x := r.(type) {
								case *ssa.UnOp:
									if !derived[x] {
										derived[x], changed = true, true
									}
								case *ssa.Phi:
									if !derived[x] {
										derived[x], changed = true, true
									}
								case *ssa.BinOp:
									if !derived[x] {
										derived[x], changed = true, true
									}
								}
							}
						}
					}
					guards := guardEdges(builder, func(cond ssa.Value, branch bool) bool { return derived[cond] })
					decides := false
					for _, g := range guards {
						if guardedBy(builder, sortAlloc.Block(), []edge{g}) {
							decides = true
						}
					}
					if !decides {
						continue
					}
					found = true
					c.checkElision(o, F, bi)
				}
			}
		})
	}
	if !found {
		o.add(UNDECIDED, "elision-flag", "-", "the 'output already sorted' flag guarding the creation of the sort node was not found")
	}
	return o.list
}

func (c *Ctx) checkElision(o *obs, F *ssa.Function, bi int) {
	type site struct {
		b   *ssa.BasicBlock
		pos string
	}
	var sites []site
	undec := ""
	var walk func(v ssa.Value, at *ssa.BasicBlock, seen map[ssa.Value]bool)
	walk = func(v ssa.Value, at *ssa.BasicBlock, seen map[ssa.Value]bool) {
		if seen[v] {
			return
		}
		seen[v] = true
		switch x := v.(type) {
		case *ssa.Const:
			if bv, ok := constBool(x); ok && bv {
				sites = append(sites, site{at, ""})
			}
		case *ssa.Phi:
			for i, e := range x.Edges {
				walk(e, x.Block().Preds[i], seen)
			}
		default:
			undec = "the flag is computed (" + describeValue(c, v) + "), not set to constants"
		}
	}
	for _, ret := range returnsOf(F) {
		rv, ok := returnedValue(ret, bi)
		if !ok {
			continue
		}
		walk(rv, ret.Block(), map[ssa.Value]bool{})
	}
	if undec != "" {
		o.add(UNDECIDED, c.fname(F)+"/sort elision", relPath(c, F.Pos()), "%s", undec)
		return
	}
	sortOpts := c.lookupMethod("query", "Query", "SortOptions")
	isSortOptsCall := func(v ssa.Value) bool {
		for _, og := range origins(v) {
			call, ok := og.(*ssa.Call)
			if !ok {
				return false
			}
			if g := staticCallee(call); g == nil || c.declared(g) != sortOpts {
				return false
			}
		}
		return true
	}
	single := guardEdges(F, func(cond ssa.Value, branch bool) bool {
		b, ok := cond.(*ssa.BinOp)
		if !ok || (b.Op != token.EQL && b.Op != token.NEQ) {
			return false
		}
		k, isK := constInt(b.Y)
		lc, isCall := b.X.(*ssa.Call)
		if !isK || k != 1 || !isCall {
			return false
		}
		bi, isB := lc.Common().Value.(*ssa.Builtin)
		if !isB || bi.Name() != "len" || !isSortOptsCall(lc.Common().Args[0]) {
			return false
		}
		return (b.Op == token.EQL) == branch
	})
	sameField := guardEdges(F, func(cond ssa.Value, branch bool) bool {
		b, ok := cond.(*ssa.BinOp)
		if !ok || (b.Op != token.EQL && b.Op != token.NEQ) {
			return false
		}
		isOptField := func(v ssa.Value) bool {
			_, f, n := fieldLoad(v)
			return f == "Field" && n != nil && c.libNamedIs(n, "query", "SortOption")
		}
		isIdxField := func(v ssa.Value) bool {
			call, ok := v.(*ssa.Call)
			return ok && call.Common().IsInvoke() && call.Common().Method.Name() == "Field" && call.Common().Method.Pkg() != nil && call.Common().Method.Pkg().Path() == c.ModPath+"/index"
		}
		if !((isOptField(b.X) && isIdxField(b.Y)) || (isOptField(b.Y) && isIdxField(b.X))) {
			return false
		}
		return (b.Op == token.EQL) == branch
	})
	for i, s := range sites {
		key := fmt.Sprintf("%s/sort elision #%d", c.fname(F), i+1)
		pos := relPath(c, s.b.Instrs[len(s.b.Instrs)-1].Pos())
		if pos == "-" {
			pos = relPath(c, F.Pos())
		}
		switch {
		case !guardedBy(F, s.b, single):
			o.add(VIOLATED, key, pos, "the in-memory sort is elided on a path where the query is not known to have exactly one sort option: with several sort keys an index scan orders only by the first, ties come out in key order and skip/limit windows are cut from the wrong sequence")
		case !guardedBy(F, s.b, sameField):
			o.add(VIOLATED, key, pos, "the in-memory sort is elided without the sort field having been compared with the field of the index that is scanned")
		default:
			o.add(OK, key, pos, "elided only for a single sort option on the scanned index's own field")
		}
	}
	if len(sites) == 0 {
		o.add(OK, c.fname(F)+"/sort elision", relPath(c, F.Pos()), "the sort is never elided")
	}
}

// ---------------------------------------------------------------- ADP4

// bufferBases walks a []byte value back to the storage it is built on:
// append(a, ...) and a[i:j] share a's storage; conversions from strings, make,
// literals and nil are fresh. Library callees are followed with their
// parameters bound to the caller's arguments (a chain of environments).
type bufEnv struct {
	bind   map[*ssa.Parameter]ssa.Value
	parent *bufEnv
}

func (c *Ctx) bufferBases(v ssa.Value, env *bufEnv, depth int, seen map[ssa.Value]int, out *[]ssa.Value) {
	if v == nil || seen[v] > 3 || depth > 8 {
		return
	}
	seen[v]++
	switch x := v.(type) {
	case *ssa.Phi:
		for _, e := range x.Edges {
			c.bufferBases(e, env, depth, seen, out)
		}
	case *ssa.Slice:
		c.bufferBases(x.X, env, depth, seen, out)
	case *ssa.ChangeType:
		c.bufferBases(x.X, env, depth, seen, out)
	case *ssa.Convert:
		// string -> []byte allocates
	case *ssa.Parameter:
		if env != nil {
			if b, ok := env.bind[x]; ok {
				c.bufferBases(b, env.parent, depth, seen, out)
				return
			}
		}
		// not bound by the chain of calls followed so far: every static call site of the function
		// (context-insensitive). A function nobody calls receives the user's own slice.
		fn := x.Parent()
		for i, p := range fn.Params {
			if p != x {
				continue
			}
			for _, cs := range c.staticCallers(fn) {
				if i < len(cs.Common().Args) {
					c.bufferBases(cs.Common().Args[i], nil, depth+1, seen, out)
				}
			}
		}
	case *ssa.Extract:
		if call, ok := x.Tuple.(*ssa.Call); ok {
			c.bufferBasesCall(call, x.Index, env, depth, seen, out)
		}
	case *ssa.Call:
		c.bufferBasesCall(x, 0, env, depth, seen, out)
	case *ssa.UnOp:
		if x.Op == token.MUL {
			if al, ok := x.X.(*ssa.Alloc); ok {
				for _, s := range storesTo(al) {
					c.bufferBases(s, env, depth, seen, out)
				}
				return
			}
			if fa, ok := x.X.(*ssa.FieldAddr); ok && c.freshObject(fa.X) {
				// a field of an object made for this one encoding (e := &encoder{...}): not storage that
				// outlives the call; the slice is whatever was stored into that field
				for _, sv := range c.storesToField(fa) {
					c.bufferBases(sv, nil, depth+1, seen, out)
				}
				return
			}
			*out = append(*out, v) // load of a field / global / element
		}
	}
}

// freshObject: every origin of the pointer v (through parameters and library results) is an
// allocation made by the library whose address is never stored anywhere.
func (c *Ctx) freshObject(v ssa.Value) bool {
	ogs := c.deepOrigins(v)
	if len(ogs) == 0 {
		return false
	}
	for _, og := range ogs {
		al, ok := og.(*ssa.Alloc)
		if !ok {
			return false
		}
		if refs := al.Referrers(); refs != nil {
			for _, r := range *refs {
				if st, ok := r.(*ssa.Store); ok && st.Val == ssa.Value(al) {
					return false // the address is kept somewhere
				}
				if _, ok := r.(*ssa.MakeInterface); ok {
					return false
				}
			}
		}
	}
	return true
}

// storesToField: the values stored anywhere in the library into the field fa addresses
// (same struct type, same field).
func (c *Ctx) storesToField(fa *ssa.FieldAddr) []ssa.Value {
	var out []ssa.Value
	pt, ok := fa.X.Type().Underlying().(*types.Pointer)
	if !ok {
		return nil
	}
	for _, fn := range c.LibFuncs {
		for _, b := range fn.Blocks {
			for _, in := range b.Instrs {
				st, ok := in.(*ssa.Store)
				if !ok {
					continue
				}
				f2, ok := st.Addr.(*ssa.FieldAddr)
				if !ok || f2.Field != fa.Field {
					continue
				}
				p2, ok := f2.X.Type().Underlying().(*types.Pointer)
				if ok && types.Identical(p2.Elem(), pt.Elem()) {
					out = append(out, st.Val)
				}
			}
		}
	}
	return out
}

func (c *Ctx) bufferBasesCall(call *ssa.Call, idx int, env *bufEnv, depth int, seen map[ssa.Value]int, out *[]ssa.Value) {
	cc := call.Common()
	if b, ok := cc.Value.(*ssa.Builtin); ok {
		if b.Name() == "append" {
			c.bufferBases(cc.Args[0], env, depth, seen, out)
		}
		return
	}
	g := staticCallee(call)
	if g == nil {
		return
	}
	if g.Pkg != nil && g.Pkg.Pkg.Path() == "github.com/google/orderedcode" && g.Name() == "Append" {
		c.bufferBases(cc.Args[0], env, depth, seen, out)
		return
	}
	g = c.declared(g)
	if !c.IsLib(g) || len(g.Blocks) == 0 {
		return
	}
	nenv := &bufEnv{bind: map[*ssa.Parameter]ssa.Value{}, parent: env}
	for i, p := range g.Params {
		if i < len(cc.Args) {
			nenv.bind[p] = cc.Args[i]
		}
	}
	for _, ret := range returnsOf(g) {
		if rv, ok := returnedValue(ret, idx); ok {
			c.bufferBases(rv, nenv, depth+1, seen, out)
		}
	}
}

// ADP4: byte slices handed to Tx.Set/Tx.Delete are not built on storage that
// outlives the call (a struct field or package variable used as scratch buffer).
func ruleADP4(c *Ctx) []Ob {
	o := newObs(c, "ADP4")
	for _, fn := range c.LibFuncs {
		if strings.HasPrefix(c.pkgRel(fn), "store/") {
			continue
		}
		allCalls(fn, func(call ssa.CallInstruction) {
			var args []ssa.Value
			switch {
			case c.isInvokeOf(call, "store", "Tx", "Set"):
				args = call.Common().Args[:2]
			case c.isInvokeOf(call, "store", "Tx", "Delete"):
				args = call.Common().Args[:1]
			default:
				return
			}
			key := c.fname(fn) + "/" + call.Common().Method.Name() + " arguments not reused"
			pos := relPath(c, call.Pos())
			bad := ""
			for _, a := range args {
				var bases []ssa.Value
				c.bufferBases(a, nil, 0, map[ssa.Value]int{}, &bases)
				for _, b := range bases {
					if _, f, n := fieldLoad(b); f != "" {
						if c.libNamedIs(n, "store", "Item") {
							continue // the cursor's current item: owned by the store
						}
						bad = "field " + namedName(n) + "." + f
					} else if g := globalLoad(b); g != nil {
						bad = "package variable " + g.Name()
					}
				}
			}
			if bad != "" {
				o.add(VIOLATED, key, pos, "the byte slice passed to the store is built on %s, storage that the next call overwrites: badger keeps the caller's slice until Commit (bbolt copies it), so earlier writes/deletes of the transaction are silently redirected on one backend only", bad)
			} else {
				o.add(OK, key, pos, "key/value slices are freshly allocated per call")
			}
		})
	}
	return o.list
}

// ---------------------------------------------------------------- KEY6

// KEY6: every value encoded into a key is self-delimiting: orderedcode.Append is
// never given a TrailingString (raw, unterminated), because index keys continue
// with the document id after the value.
func ruleKEY6(c *Ctx) []Ob {
	o := newObs(c, "KEY6")
	for _, fn := range c.LibFuncs {
		allCalls(fn, func(call ssa.CallInstruction) {
			itemsArg := c.appendItemsArg(call)
			if itemsArg == nil {
				return
			}
			key := c.fname(fn) + "/orderedcode.Append items"
			pos := relPath(c, call.Pos())
			bad := ""
			items, ok := c.keys().sprintfArgs(itemsArg)
			if !ok {
				// a forwarder handing on its own variadic parameter: the items are checked at its call sites
				if p, isParam := itemsArg.(*ssa.Parameter); isParam && fn.Signature.Variadic() && len(fn.Params) > 0 && p == fn.Params[len(fn.Params)-1] && len(c.staticCallers(fn)) > 0 {
					o.add(OK, key, pos, "forwards its variadic parameter: the items are checked at the %d call sites of %s", len(c.staticCallers(fn)), c.fname(fn))
					return
				}
				o.add(UNDECIDED, key, pos, "the items passed to orderedcode.Append are not a literal argument list")
				return
			}
			var walk func(v ssa.Value, seen map[ssa.Value]bool)
			walk = func(v ssa.Value, seen map[ssa.Value]bool) {
				if v == nil || seen[v] {
					return
				}
				seen[v] = true
				if n, isNamed := v.Type().(*types.Named); isNamed && n.Obj().Pkg() != nil && n.Obj().Pkg().Path() == "github.com/google/orderedcode" && n.Obj().Name() == "TrailingString" {
					bad = "orderedcode.TrailingString (raw bytes without terminator)"
				}
				switch x := v.(type) {
				case *ssa.Phi:
					for _, e := range x.Edges {
						walk(e, seen)
					}
				case *ssa.MakeInterface:
					walk(x.X, seen)
				case *ssa.ChangeInterface:
					walk(x.X, seen)
				case *ssa.UnOp:
					if al, ok := x.X.(*ssa.Alloc); ok && x.Op == token.MUL {
						for _, sv := range storesTo(al) {
							walk(sv, seen)
						}
					}
				}
			}
			for _, it := range items {
				walk(it, map[ssa.Value]bool{})
			}
			if bad != "" {
				o.add(VIOLATED, key, pos, "a key component is encoded as %s: it is not self-delimiting, yet index keys continue with the document id, so for prefix-related values (\"New York\" / \"New York City\") key order no longer equals value order and one value's entries are a byte-prefix of another's", bad)
			} else {
				o.add(OK, key, pos, "every encoded item is self-delimiting")
			}
		})
	}
	return o.list
}

// ---------------------------------------------------------------- PLAN8

// isFieldRefPredicate: a library function func(interface{}) bool that recognises
// field-reference operands: it (transitively) asks query.IsField / asserts
// *query.field, and tests the "$" prefix of strings.
func (c *Ctx) isFieldRefPredicate(f *ssa.Function) bool {
	if f == nil || !c.IsLib(f) || f.Signature.Params().Len() != 1 || f.Signature.Results().Len() != 1 {
		return false
	}
	if b, ok := f.Signature.Results().At(0).Type().Underlying().(*types.Basic); !ok || b.Kind() != types.Bool {
		return false
	}
	hasField, hasDollar := false, false
	for g := range c.staticReach(f) {
		if g == c.lookupFunc("query", "IsField") {
			hasField = true
		}
		for _, b := range g.Blocks {
			for _, in := range b.Instrs {
				switch x := in.(type) {
				case *ssa.TypeAssert:
					if p, ok := x.AssertedType.(*types.Pointer); ok && c.libNamedIs(p.Elem(), "query", "field") {
						hasField = true
					}
				case *ssa.Call:
					if calleeFullName(x) == "strings.HasPrefix" {
						if s, ok := constString(x.Common().Args[1]); ok && s == "$" {
							hasDollar = true
						}
					}
				}
			}
		}
	}
	return hasField && hasDollar
}

// PLAN8: an index range is derived only from a literal operand. Every call of
// the criteria->range table is guarded by the false edge of a field-reference
// predicate applied to the same criteria's Value.
func rulePLAN8(c *Ctx) []Ob {
	o := newObs(c, "PLAN8")
	n := 0
	for _, fn := range c.LibFuncs {
		if c.pkgRel(fn) != "" {
			continue
		}
		allCalls(fn, func(call ssa.CallInstruction) {
			g := staticCallee(call)
			if g == nil || !c.IsLib(g) || c.pkgRel(g) != "" || g.Signature.Results().Len() != 1 {
				return
			}
			rp, ok := g.Signature.Results().At(0).Type().(*types.Pointer)
			if !ok || !c.libNamedIs(rp.Elem(), "index", "Range") || g.Signature.Params().Len() != 1 {
				return
			}
			pp, ok := g.Signature.Params().At(0).Type().(*types.Pointer)
			if !ok || !c.libNamedIs(pp.Elem(), "query", "UnaryCriteria") {
				return
			}
			n++
			crit := call.Common().Args[0]
			key := c.fname(fn) + "/range from literal operand only"
			pos := relPath(c, call.Pos())
			guards := guardEdges(fn, func(cond ssa.Value, branch bool) bool {
				pc, ok := cond.(*ssa.Call)
				if !ok {
					return false
				}
				pf := staticCallee(pc)
				if pf == nil || !c.isFieldRefPredicate(c.declared(pf)) {
					return false
				}
				for _, og := range origins(pc.Common().Args[0]) {
					base, f, nm := fieldLoad(og)
					if f == "Value" && nm != nil && c.libNamedIs(nm, "query", "UnaryCriteria") && (base == crit || sameOrigin(base, crit)) {
						return !branch
					}
				}
				return false
			})
			// the guard may also sit at the top of the table function itself
			inside := false
			if !guardedBy(fn, call.Block(), guards) {
				tg := guardEdges(g, func(cond ssa.Value, branch bool) bool {
					pc, ok := cond.(*ssa.Call)
					if !ok {
						return false
					}
					pf := staticCallee(pc)
					return pf != nil && c.isFieldRefPredicate(c.declared(pf)) && !branch
				})
				inside = len(tg) > 0
				for _, ret := range returnsOf(g) {
					rv, ok := returnedValue(ret, 0)
					if ok && !isNilConst(rv) && !guardedBy(g, ret.Block(), tg) {
						inside = false
					}
				}
			}
			if guardedBy(fn, call.Block(), guards) || inside {
				o.add(OK, key, pos, "the range table is consulted only when the operand is not a field reference (Field(..) or \"$name\")")
			} else {
				o.add(VIOLATED, key, pos, "an index range is derived from the criteria's operand without excluding field references: for `x > Field(\"y\")` / `x > \"$y\"` the bound is the reference itself, so the indexed query returns nothing, fails in the key encoder, or panics in Range.Intersect, while the un-indexed query is right")
			}
		})
	}
	if n == 0 {
		o.add(UNDECIDED, "range-table", "-", "no call of a criteria->range function found")
	}
	return o.list
}

// ---------------------------------------------------------------- NIL2

// NIL2: a (ptr, error) library function that can return (nil, nil) - "not
// found" - has its pointer result nil-tested before it is dereferenced or
// handed to other code (returning it to the caller is a pass-through).
func ruleNIL2(c *Ctx) []Ob {
	o := newObs(c, "NIL2")
	nilnil := map[*ssa.Function]bool{}
	for _, fn := range c.LibFuncs {
		res := fn.Signature.Results()
		ei := errResultIndex(fn.Signature)
		if res.Len() < 2 || ei < 0 {
			continue
		}
		if _, ok := res.At(0).Type().Underlying().(*types.Pointer); !ok {
			continue
		}
		for _, ret := range returnsOf(fn) {
			pv, ok1 := returnedValue(ret, 0)
			ev, ok2 := returnedValue(ret, ei)
			if !ok1 || !ok2 {
				continue
			}
			isNil := false
			for _, og := range origins(pv) {
				if isNilConst(og) {
					isNil = true
				}
			}
			if isNil && !c.provablyNonNil(fn, ev, ret.Block()) {
				nilnil[fn] = true
			}
		}
	}
	for _, fn := range c.LibFuncs {
		for _, b := range fn.Blocks {
			for _, in := range b.Instrs {
				call, ok := in.(*ssa.Call)
				if !ok {
					continue
				}
				g := staticCallee(call)
				if g == nil || !nilnil[c.declared(g)] {
					continue
				}
				g = c.declared(g)
				ps := resultValues(call, 0)
				if len(ps) == 0 {
					continue
				}
				p := ps[0]
				key := c.fname(fn) + "/" + c.fname(g) + " result nil-tested"
				pos := relPath(c, call.Pos())
				guards := nonNilEdges(fn, sameValue(p))
				bad := ""
				for _, r := range realReferrers(p) {
					switch x := r.(type) {
					case *ssa.Return, *ssa.Store, *ssa.Phi, *ssa.MakeInterface:
						continue
					case *ssa.BinOp:
						continue // the nil test itself
					case ssa.CallInstruction:
						_ = x
					}
					if !guardedBy(fn, r.Block(), guards) {
						bad = relPath(c, r.Pos())
					}
				}
				if bad != "" {
					o.add(VIOLATED, key, pos, "%s returns (nil, nil) for an absent record; its result is used at %s without a nil test: a stale or foreign index entry (or a concurrent delete) makes the operation panic instead of skipping the entry", c.fname(g), bad)
				} else {
					o.add(OK, key, pos, "the possibly-nil result is only returned as is or used behind a nil test")
				}
			}
		}
	}
	return o.list
}

// ---------------------------------------------------------------- IMP1

// IMP1: import builds documents from decoded JSON objects with verbatim keys:
// nothing reachable from ImportCollection routes data-derived keys through
// Document.Set/SetAll, which interpret '.' as a path separator.
func ruleIMP1(c *Ctx) []Ob {
	o := newObs(c, "IMP1")
	imp := c.lookupMethod("", "DB", "ImportCollection")
	if imp == nil {
		o.add(UNDECIDED, "DB.ImportCollection", "-", "not found")
		return o.list
	}
	setM := c.lookupMethod("document", "Document", "Set")
	setAll := c.lookupMethod("document", "Document", "SetAll")
	n := 0
	bad := ""
	// the import and the root-package helpers it calls (not the shared insert path)
	var scope []*ssa.Function
	for f := range c.staticReach(imp) {
		if c.pkgRel(f) == "" && c.eff(f)&(EffTxSet|EffTxGet|EffTxDelete|EffCursor) == 0 {
			scope = append(scope, f)
		}
	}
	scope = append(scope, imp)
	sort.Slice(scope, func(i, j int) bool { return c.fname(scope[i]) < c.fname(scope[j]) })
	for _, sf := range scope {
		if sf == imp {
			continue
		}
		allCalls(sf, func(call ssa.CallInstruction) {
			g := staticCallee(call)
			if g == nil {
				return
			}
			g = c.declared(g)
			if g == setAll {
				bad = relPath(c, call.Pos())
			}
			if g == c.lookupFunc("document", "NewDocumentOf") {
				n++
			}
		})
	}
	allCalls(imp, func(call ssa.CallInstruction) {
		g := staticCallee(call)
		if g == nil {
			return
		}
		g = c.declared(g)
		if g == setAll {
			bad = relPath(c, call.Pos())
		}
		if g == setM {
			if _, isConst := stripConv(call.Common().Args[1]).(*ssa.Const); !isConst {
				bad = relPath(c, call.Pos())
			}
		}
		if g == c.lookupFunc("document", "NewDocumentOf") {
			n++
		}
	})
	for _, cf := range imp.AnonFuncs {
		allCalls(cf, func(call ssa.CallInstruction) {
			if g := staticCallee(call); g != nil && (c.declared(g) == setAll) {
				bad = relPath(c, call.Pos())
			}
		})
	}
	key := "DB.ImportCollection/verbatim field names"
	switch {
	case bad != "":
		o.add(VIOLATED, key, bad, "imported objects are filled through Document.Set/SetAll, which split field names at '.': a top-level field \"example.com\" comes back as {\"example\": {\"com\": ..}}, so the imported field set differs from the exported one")
	case n == 0:
		o.add(UNDECIDED, key, relPath(c, imp.Pos()), "ImportCollection no longer converts decoded objects with document.NewDocumentOf; how keys are treated was not established")
	default:
		o.add(OK, key, relPath(c, imp.Pos()), "decoded objects become documents through NewDocumentOf (keys kept verbatim)")
	}
	return o.list
}

// ---------------------------------------------------------------- BULK1

// BULK1: a bulk mutation evaluates exactly the query it was given: in a
// function that runs a scan and then performs destructive writes, the query
// handed to the scan is the function's own *query.Query parameter (possibly
// through a helper that only replaces the criteria by Where).
func ruleBULK1(c *Ctx) []Ob {
	o := newObs(c, "BULK1")
	isQuery := func(t types.Type) bool {
		p, ok := t.(*types.Pointer)
		return ok && c.libNamedIs(p.Elem(), "query", "Query")
	}
	whereM := c.lookupMethod("query", "Query", "Where")
	var okValue func(fn *ssa.Function, v ssa.Value, depth int) (bool, string)
	okValue = func(fn *ssa.Function, v ssa.Value, depth int) (bool, string) {
		if depth > 4 {
			return false, "too deep"
		}
		for _, og := range origins(v) {
			switch x := og.(type) {
			case *ssa.Parameter:
				continue
			case *ssa.Call, *ssa.Extract:
				var call *ssa.Call
				idx := 0
				if ex, isEx := x.(*ssa.Extract); isEx {
					call, _ = ex.Tuple.(*ssa.Call)
					idx = ex.Index
				} else {
					call = x.(*ssa.Call)
				}
				if call == nil {
					return false, "a value of unknown provenance"
				}
				g := staticCallee(call)
				if g == nil {
					return false, "the result of a dynamic call"
				}
				g = c.declared(g)
				if g == whereM {
					if ok, why := okValue(fn, call.Common().Args[0], depth+1); !ok {
						return false, why
					}
					continue
				}
				if !c.IsLib(g) || c.pkgRel(g) != "" {
					return false, "the result of " + c.calleeName(call)
				}
				// a helper: every query it returns must be its parameter, possibly with Where applied
				for _, ret := range returnsOf(g) {
					rv, ok := returnedValue(ret, idx)
					if !ok || isNilConst(rv) {
						continue
					}
					if ok, why := okValue(g, rv, depth+1); !ok {
						return false, c.fname(g) + " returns " + why
					}
				}
			default:
				return false, "a rebuilt query (" + describeValue(c, og) + ")"
			}
		}
		return true, ""
	}
	for _, fn := range c.LibFuncs {
		if c.pkgRel(fn) != "" || fn.Parent() != nil {
			continue
		}
		if c.localEffOnly(fn)&EffDestructive == 0 && c.eff(fn)&EffUserUpdater == 0 {
			continue
		}
		hasQueryParam := false
		for _, p := range fn.Params {
			if isQuery(p.Type()) {
				hasQueryParam = true
			}
		}
		if !hasQueryParam {
			continue // builds its own "all documents" query (collection drop)
		}
		allCalls(fn, func(call ssa.CallInstruction) {
			if c.calleeEff(call)&EffCursor == 0 {
				return
			}
			for _, a := range call.Common().Args {
				if !isQuery(a.Type()) {
					continue
				}
				key := c.fname(fn) + "/scan evaluates the given query"
				pos := relPath(c, call.Pos())
				if ok, why := okValue(fn, a, 0); ok {
					o.add(OK, key, pos, "the scan is run on the function's own query parameter (criteria replacement by Where only)")
				} else {
					o.add(VIOLATED, key, pos, "the bulk mutation scans %s instead of the query it was given: dropping or changing sort/skip/limit selects other documents than FindAll returns for the same query", why)
				}
			}
		})
	}
	return o.list
}

// localEffOnly: effects of fn's own instructions and of its static library
// callees, but not of closures it merely creates.
func (c *Ctx) localEffOnly(fn *ssa.Function) Eff {
	var e Eff
	allCalls(fn, func(call ssa.CallInstruction) {
		e |= c.calleeEff(call)
	})
	return e
}

// ---------------------------------------------------------------- CNT1

// CNT1: where Count is served from the stored counter, the value compared with
// the query's limit is the counter minus the skip (clamped): the limit caps the
// size of the window that remains after skipping, not the collection size.
func ruleCNT1(c *Ctx) []Ob {
	o := newObs(c, "CNT1")
	getSkip := c.lookupMethod("query", "Query", "GetSkip")
	getLimit := c.lookupMethod("query", "Query", "GetLimit")
	isCallTo := func(v ssa.Value, f *ssa.Function) bool {
		call, ok := v.(*ssa.Call)
		if !ok || f == nil {
			return false
		}
		g := staticCallee(call)
		return g != nil && c.declared(g) == f
	}
	n := 0
	var cntFns []*ssa.Function
	for _, fn := range c.LibFuncs {
		if c.pkgRel(fn) != "" {
			continue
		}
		usesSkip, usesLimit := false, false
		allCalls(fn, func(call ssa.CallInstruction) {
			if g := staticCallee(call); g != nil {
				if c.declared(g) == getSkip {
					usesSkip = true
				}
				if c.declared(g) == getLimit {
					usesLimit = true
				}
			}
		})
		if !usesSkip || !usesLimit || fn.Signature.Results().Len() == 0 || !isIntType(fn.Signature.Results().At(0).Type()) {
			continue
		}
		// only where the number is an answer: the result reaches the int result of an exported operation
		// (a size hint for pre-allocating a buffer is not a count)
		var answers func(f *ssa.Function, depth int) bool
		answers = func(f *ssa.Function, depth int) bool {
			if depth > 4 {
				return false
			}
			if f.Object() != nil && f.Object().Exported() && f.Parent() == nil {
				return true
			}
			for _, site := range c.staticCallers(f) {
				cv, ok := site.(*ssa.Call)
				if !ok {
					continue
				}
				caller := cv.Parent()
				for _, ret := range returnsOf(caller) {
					for i := range ret.Results {
						rv, ok := returnedValue(ret, i)
						if !ok || !isIntType(rv.Type()) {
							continue
						}
						for _, og := range origins(rv) {
							hit := og == ssa.Value(cv)
							if ex, ok := og.(*ssa.Extract); ok && ex.Tuple == ssa.Value(cv) {
								hit = true
							}
							if hit && answers(caller, depth+1) {
								return true
							}
						}
					}
				}
			}
			return false
		}
		if !answers(fn, 0) {
			continue
		}
		cntFns = append(cntFns, fn)
		// every non-constant origin (through phis) of v is `x - GetSkip()`
		var afterSkip func(v ssa.Value, seen map[ssa.Value]bool) bool
		afterSkip = func(v ssa.Value, seen map[ssa.Value]bool) bool {
			if seen[v] {
				return true
			}
			seen[v] = true
			switch x := v.(type) {
			case *ssa.Const:
				return true
			case *ssa.Phi:
				for _, e := range x.Edges {
					if !afterSkip(e, seen) {
						return false
					}
				}
				return true
			case *ssa.BinOp:
				if x.Op == token.SUB && isCallTo(x.Y, getSkip) {
					return true
				}
				return false
			}
			return false
		}
		for _, b := range fn.Blocks {
			for _, in := range b.Instrs {
				bo, ok := in.(*ssa.BinOp)
				if !ok {
					continue
				}
				switch bo.Op {
				case token.LSS, token.LEQ, token.GTR, token.GEQ:
				default:
					continue
				}
				var other ssa.Value
				if isCallTo(bo.X, getLimit) {
					other = bo.Y
				} else if isCallTo(bo.Y, getLimit) {
					other = bo.X
				} else {
					continue
				}
				if _, isConst := other.(*ssa.Const); isConst {
					continue // limit >= 0
				}
				n++
				key := c.fname(fn) + "/limit compared with size minus skip"
				if afterSkip(other, map[ssa.Value]bool{}) {
					o.add(OK, key, relPath(c, bo.Pos()), "the limit is compared with the counter after the skip has been subtracted")
				} else {
					o.add(VIOLATED, key, relPath(c, bo.Pos()), "the limit is compared with the collection size before the skip is subtracted: Count(q) = min(limit, max(size - skip, 0)), so on the last partial page Count exceeds len(FindAll)")
				}
			}
		}
	}
	// second obligation: the number answered is never negative. Every value the function returns
	// as its count is, on the way it takes to the return, a constant that is not negative, a
	// len(), or a value a condition on that way found to be at least zero. A subtraction of the
	// skip AFTER the clamp at zero answers size - skip < 0 for a skip past the end, where FindAll
	// answers nothing.
	for _, fn := range cntFns {
		bad := ""
		for _, ret := range returnsOf(fn) {
			rv, ok := returnedValue(ret, 0)
			if !ok {
				continue
			}
			if !c.nonNegAt(fn, rv, ret.Block(), nil, 0) {
				bad = relPath(c, ret.Pos())
			}
		}
		n++
		key := c.fname(fn) + "/the count answered from the counter is never negative"
		if bad != "" {
			o.add(VIOLATED, key, bad, "the count returned here is not known to be at least zero: it is neither a constant, nor a length, nor a value a condition on the way found non-negative (the clamp at zero must come after the last subtraction: size - skip is negative for a skip past the end, where FindAll returns nothing and Count must answer 0)")
		} else {
			o.add(OK, key, relPath(c, fn.Pos()), "every returned count is a non-negative constant, a length, or a value found non-negative by a condition on the way to the return")
		}
	}
	if n == 0 {
		o.add(INFO, "counter-shortcut", "-", "no function combines GetSkip and GetLimit arithmetically (Count not served from the counter)")
	}
	return o.list
}

// ---------------------------------------------------------------- PANIC2

// PANIC2: no `==`/`!=` between two interface values that may both hold
// document values: if both hold a slice or a map the comparison panics at run
// time ("comparing uncomparable type"). Comparing with a constant, with nil or
// with an error is safe (types differ, or the type is comparable).
func rulePANIC2(c *Ctx) []Ob {
	o := newObs(c, "PANIC2")
	n := 0
	isEmptyIface := func(t types.Type) bool {
		it, ok := t.Underlying().(*types.Interface)
		return ok && it.NumMethods() == 0
	}
	for _, fn := range c.LibFuncs {
		if strings.HasPrefix(c.pkgRel(fn), "store") {
			continue
		}
		for _, b := range fn.Blocks {
			for _, in := range b.Instrs {
				bo, ok := in.(*ssa.BinOp)
				if !ok || (bo.Op != token.EQL && bo.Op != token.NEQ) {
					continue
				}
				if !isEmptyIface(bo.X.Type()) || !isEmptyIface(bo.Y.Type()) {
					continue
				}
				constSide := func(v ssa.Value) bool {
					v = stripIfaceOnly(v)
					if _, isC := v.(*ssa.Const); isC {
						return true
					}
					// a freshly boxed value of a comparable basic type
					if mi, ok := v.(*ssa.MakeInterface); ok {
						_, basic := mi.X.Type().Underlying().(*types.Basic)
						return basic
					}
					if _, isIface := v.Type().Underlying().(*types.Interface); !isIface {
						_, basic := v.Type().Underlying().(*types.Basic)
						return basic
					}
					return false
				}
				n++
				key := c.fname(fn) + "/interface comparison"
				if constSide(bo.X) || constSide(bo.Y) {
					o.add(OK, key+" with a constant", relPath(c, bo.Pos()), "one side is a constant / basic value: the comparison cannot panic")
					continue
				}
				o.add(VIOLATED, key, relPath(c, bo.Pos()), "two interface{} values are compared with %s: when both hold an array or an object (legal document values and criteria operands) Go panics with `comparing uncomparable type`; use internal.Compare", bo.Op)
			}
		}
	}
	if n == 0 {
		o.add(OK, "no interface comparisons", "-", "the library never compares two interface{} values with ==/!=")
	}
	return o.list
}

// ---------------------------------------------------------------- NORM1

// NORM1: the criteria operations filter with is the caller's criteria after
// literal normalisation only. Where(x) in the root package receives the
// asserted result of Accept(<the normalising visitor>) and of nothing else
// (a negation-flattened tree is for planning, it is not equivalent under Satisfy).
func ruleNORM1(c *Ctx) []Ob {
	o := newObs(c, "NORM1")
	whereM := c.lookupMethod("query", "Query", "Where")
	normalize := c.lookupFunc("internal", "Normalize")
	isNormVisitor := func(n *types.Named) bool {
		if n == nil {
			return false
		}
		for _, m := range c.visitorMethods(n) {
			if normalize != nil && c.staticReach(m)[normalize] {
				return true
			}
		}
		return false
	}
	n := 0
	for _, fn := range c.LibFuncs {
		if c.pkgRel(fn) != "" {
			continue
		}
		allCalls(fn, func(call ssa.CallInstruction) {
			g := staticCallee(call)
			if g == nil || whereM == nil || c.declared(g) != whereM {
				return
			}
			n++
			key := c.fname(fn) + "/Where(normalised criteria)"
			pos := relPath(c, call.Pos())
			arg := call.Common().Args[1]
			okAll := true
			why := ""
			for _, og := range c.deepOrigins(arg) {
				if isNilConst(og) {
					continue // the wrapper's error path
				}
				ta, isTA := og.(*ssa.TypeAssert)
				if !isTA {
					okAll, why = false, "not the result of a criteria visitor"
					continue
				}
				_, vis := c.visitCallOf(ta.X)
				if vis == nil {
					okAll, why = false, "not the result of a criteria visitor"
					continue
				}
				vt := c.visitorTypeOf(vis)
				if !isNormVisitor(vt) {
					okAll = false
					why = "the result of " + namedName(vt) + ", which rewrites the criteria"
					continue
				}
				// and the visited criteria is the query's own
				ac, _ := c.visitCallOf(ta.X)
				if ac != nil && ac.Common().IsInvoke() {
					for _, ro := range c.paramSources(ac.Common().Value, 0) {
						rc, isCall := ro.(*ssa.Call)
						if !isCall || staticCallee(rc) == nil || c.declared(staticCallee(rc)) != c.lookupMethod("query", "Query", "Criteria") {
							okAll, why = false, "a criteria that was already rewritten by another visitor"
						}
					}
				}
			}
			if okAll {
				o.add(OK, key, pos, "the filter criteria is the query's own criteria with literals normalised, nothing else")
			} else {
				o.add(VIOLATED, key, pos, "the query's criteria is replaced by %s: a rewritten tree (negation push-down turns Not(Eq) into Lt Or Gt) is not equivalent under Satisfy for absent fields and nil operands, so Not/Neq stop following their truth tables", why)
			}
		})
	}
	if n == 0 {
		o.add(UNDECIDED, "Where", "-", "no Where call in the root package: where literal normalisation happens was not established")
	}
	return o.list
}

// ---------------------------------------------------------------- RNG1

// RNG1: in package index, a value stored into Range.Start / End /
// StartIncluded / EndIncluded is computed only from the *same* field of other
// ranges (through phis, boolean operators and the conditions of short-circuit
// evaluation): the start flag never decides the end flag and vice versa.
func ruleRNG1(c *Ctx) []Ob {
	o := newObs(c, "RNG1")
	isRangeField := func(v ssa.Value) string {
		_, f, n := fieldLoad(v)
		if f != "" && n != nil && c.libNamedIs(n, "index", "Range") {
			return f
		}
		return ""
	}
	for _, fn := range c.LibFuncs {
		if c.pkgRel(fn) != "index" {
			continue
		}
		for _, b := range fn.Blocks {
			for _, in := range b.Instrs {
				st, ok := in.(*ssa.Store)
				if !ok {
					continue
				}
				_, f, n := fieldOfAddr(st.Addr)
				if f == "" || n == nil || !c.libNamedIs(n, "index", "Range") {
					continue
				}
				used := map[string]bool{}
				seen := map[ssa.Value]bool{}
				var walk func(v ssa.Value)
				walk = func(v ssa.Value) {
					if v == nil || seen[v] {
						return
					}
					seen[v] = true
					if rf := isRangeField(v); rf != "" {
						used[rf] = true
						return
					}
					switch x := v.(type) {
					case *ssa.Phi:
						for _, e := range x.Edges {
							walk(e)
						}
						// short-circuit evaluation: the conditions that select the incoming edge
						if isBoolType(x.Type()) {
							for _, p := range x.Block().Preds {
								if len(p.Instrs) > 0 {
									if iff, ok := p.Instrs[len(p.Instrs)-1].(*ssa.If); ok {
										walk(iff.Cond)
									}
								}
							}
						}
					case *ssa.BinOp:
						if isBoolType(x.Type()) && (x.Op == token.AND || x.Op == token.OR || x.Op == token.LAND || x.Op == token.LOR) {
							walk(x.X)
							walk(x.Y)
						}
					case *ssa.UnOp:
						if x.Op == token.NOT {
							walk(x.X)
						}
					case *ssa.MakeInterface:
						walk(x.X)
					}
				}
				walk(st.Val)
				key := c.fname(fn) + "/store Range." + f
				bad := ""
				for u := range used {
					if u != f {
						bad = u
					}
				}
				if bad != "" {
					o.add(VIOLATED, key, relPath(c, st.Pos()), "Range.%s is computed from Range.%s of another range: the inclusivity/bound of one end leaks into the other, so an intersection can exclude a value contained in both ranges", f, bad)
				} else {
					o.add(OK, key, relPath(c, st.Pos()), "computed from constants and the same field of other ranges only")
				}
			}
		}
	}
	return o.list
}

func isBoolType(t types.Type) bool {
	b, ok := t.Underlying().(*types.Basic)
	return ok && b.Kind() == types.Bool
}

// ---------------------------------------------------------------- ADP5

// ADP5: a scan that deletes the item its cursor is on (Index.Drop) is the first
// write of its transaction. bbolt tolerates delete-during-iteration only while
// the leaf pages under the cursor are still the read-only mapped ones; once an
// earlier write of the same transaction has turned a leaf into an in-memory
// node, each delete shifts the entries under the cursor and every second key
// survives. badger iterates a snapshot and is unaffected - so the two backends
// diverge.
func ruleADP5(c *Ctx) []Ob {
	o := newObs(c, "ADP5")
	// functions that delete inside a cursor loop
	deletesWhileIterating := map[*ssa.Function]bool{}
	for _, fn := range c.LibFuncs {
		if c.localEff(fn)&EffCursor == 0 {
			continue
		}
		allCalls(fn, func(call ssa.CallInstruction) {
			if c.isInvokeOf(call, "store", "Tx", "Delete") && c.inLoop(call.Block()) {
				deletesWhileIterating[fn] = true
			}
		})
	}
	n := 0
	for _, fn := range c.LibFuncs {
		allCalls(fn, func(call ssa.CallInstruction) {
			hit := false
			cc := call.Common()
			if cc.IsInvoke() {
				for _, impl := range c.libImpls(cc.Method) {
					if deletesWhileIterating[impl] {
						hit = true
					}
				}
			} else if g := staticCallee(call); g != nil && deletesWhileIterating[c.declared(g)] {
				hit = true
			}
			if !hit {
				return
			}
			n++
			key := c.fname(fn) + "/" + c.calleeName(call) + " is the transaction's first write"
			bad := ""
			allCalls(fn, func(w ssa.CallInstruction) {
				if w == call {
					return
				}
				if _, isDefer := w.(*ssa.Defer); isDefer {
					return
				}
				if c.callEff(w)&EffWrites != 0 && reachesAfter(w, call) {
					bad = c.calleeName(w) + " at " + relPath(c, w.Pos())
				}
			})
			if bad != "" {
				o.add(VIOLATED, key, relPath(c, call.Pos()), "%s writes to the store before the delete-while-iterating scan runs in the same transaction: on bbolt the scan then skips every second entry (residue), on badger it does not - the backends diverge", bad)
			} else {
				o.add(OK, key, relPath(c, call.Pos()), "no store write precedes the delete-while-iterating scan in this function")
			}
		})
	}
	if n == 0 {
		o.add(OK, "no delete-while-iterating scan", "-", "no function deletes inside a cursor loop")
	}
	return o.list
}

// ---------------------------------------------------------------- RNG2

// RNG2: in a range scan with a direction flag, the conditions under which the
// emission loop is left depend on the far bound only: specialised on
// reverse = true they read Range.Start/StartIncluded and never End/EndIncluded,
// specialised on reverse = false the other way round.
func ruleRNG2(c *Ctx) []Ob {
	o := newObs(c, "RNG2")
	n := 0
	for _, fn := range c.LibFuncs {
		if c.pkgRel(fn) != "index" || fn.Parent() != nil {
			continue
		}
		var rev *ssa.Parameter
		allCalls(fn, func(call ssa.CallInstruction) {
			if c.isInvokeOf(call, "store", "Tx", "Cursor") {
				if u, ok := call.Common().Args[0].(*ssa.UnOp); ok && u.Op == token.NOT {
					if p, ok := u.X.(*ssa.Parameter); ok {
						rev = p
					}
				}
			}
		})
		hasRange := false
		for _, p := range fn.Params {
			if pt, ok := p.Type().(*types.Pointer); ok && c.libNamedIs(pt.Elem(), "index", "Range") {
				hasRange = true
			}
		}
		if rev == nil || !hasRange {
			continue
		}
		// the emission loop: the innermost loop around the per-element callback
		var body map[*ssa.BasicBlock]bool
		for _, b := range fn.Blocks {
			for _, in := range b.Instrs {
				if call, ok := in.(*ssa.Call); ok && c.isElementCallback(call) && c.inLoop(b) {
					_, body = c.innermostLoop(b)
				}
			}
		}
		if body == nil {
			// the emission loop lives in a helper (or its stop test in a function literal): the
			// truth table of the stop condition (RNG4), which follows both, decides the same clause
			table := VIOLATED
			for _, ob := range ruleRNG4(c) {
				if ob.Status == OK && strings.HasPrefix(ob.Key, "RNG4/"+c.fname(fn)+"/") {
					table = OK
				}
			}
			if table == OK {
				for _, dname := range []string{"reverse", "forward"} {
					n++
					o.add(OK, c.fname(fn)+"/"+dname+" scan stops on the far bound", relPath(c, fn.Pos()), "the emission loop is not in the scan function itself; the truth table of the stop condition (RNG4), evaluated through the helpers, shows the scan stops on the far bound only")
				}
			}
			continue
		}
		for _, dir := range []bool{true, false} {
			live := liveBlocksUnder(fn, map[*ssa.Parameter]bool{rev: dir})
			phiLive := specialise(fn, rev, dir)
			used := map[string]string{}
			seen := map[ssa.Value]bool{}
			var walk func(v ssa.Value)
			walk = func(v ssa.Value) {
				if v == nil || seen[v] {
					return
				}
				seen[v] = true
				if _, f, nm := fieldLoad(v); f != "" && nm != nil && c.libNamedIs(nm, "index", "Range") {
					used[f] = relPath(c, v.Pos())
					return
				}
				switch x := v.(type) {
				case *ssa.Phi:
					for i, e := range x.Edges {
						if !phiLive(x, i) {
							continue
						}
						walk(e)
						p := x.Block().Preds[i]
						if live[p] && len(p.Instrs) > 0 {
							if iff, ok := p.Instrs[len(p.Instrs)-1].(*ssa.If); ok {
								walk(iff.Cond)
							}
						}
					}
				case *ssa.BinOp:
					walk(x.X)
					walk(x.Y)
				case *ssa.UnOp:
					walk(x.X)
				}
			}
			for b := range body {
				if !live[b] || len(b.Instrs) == 0 {
					continue
				}
				iff, ok := b.Instrs[len(b.Instrs)-1].(*ssa.If)
				if !ok {
					continue
				}
				exits := false
				for _, s := range b.Succs {
					if !body[s] {
						exits = true
					}
				}
				// conditions feeding an exit through a chain of short-circuit blocks count too:
				// take every conditional of the live loop body that is not the loop header test
				_ = exits
				walk(iff.Cond)
			}
			n++
			dname := "forward"
			wrong := []string{"Start", "StartIncluded"}
			if dir {
				dname = "reverse"
				wrong = []string{"End", "EndIncluded"}
			}
			key := c.fname(fn) + "/" + dname + " scan stops on the far bound"
			bad := ""
			for _, w := range wrong {
				if at, ok := used[w]; ok {
					bad = w + " (read at " + at + ")"
				}
			}
			if bad != "" {
				o.add(VIOLATED, key, relPath(c, fn.Pos()), "in the %s direction the emission loop's conditions depend on Range.%s, the bound the scan started from: entries on the far bound are dropped or kept by the wrong inclusivity flag", dname, bad)
			} else {
				o.add(OK, key, relPath(c, fn.Pos()), "conditions inside the emission loop read only the far bound's fields")
			}
		}
	}
	if n == 0 {
		o.add(UNDECIDED, "range-scan", "-", "no range scan function with a direction flag found")
	}
	return o.list
}

// ---------------------------------------------------------------- ADP6 / ADP7

// ADP6: every store.Tx.Commit implementation returns the result of the backend's
// synchronous commit. An asynchronous / callback commit, or a constant nil,
// acknowledges an operation before the store has decided it.
func ruleADP6(c *Ctx) []Ob {
	o := newObs(c, "ADP6")
	syncCommit := map[string]bool{
		"(*go.etcd.io/bbolt.Tx).Commit":                true,
		"(*github.com/dgraph-io/badger/v4.Txn).Commit": true,
	}
	for _, fn := range c.storeImpls("Tx", "Commit") {
		key := c.fname(fn) + "/returns the backend's synchronous Commit"
		pos := relPath(c, fn.Pos())
		bad := ""
		n := 0
		for _, ret := range returnsOf(fn) {
			rv, ok := returnedValue(ret, 0)
			if !ok {
				continue
			}
			for _, og := range origins(rv) {
				n++
				call, isCall := og.(*ssa.Call)
				if !isCall || !syncCommit[calleeFullName(call)] {
					bad = "returns " + describeValue(c, og)
				}
			}
		}
		allCalls(fn, func(call ssa.CallInstruction) {
			if strings.HasSuffix(calleeFullName(call), ".CommitWith") {
				bad = "commits asynchronously (CommitWith)"
			}
		})
		if bad != "" || n == 0 {
			o.add(VIOLATED, key, pos, "%s: the caller is told the transaction committed before the backend has accepted and logged it - a conflict or a crash right after loses an acknowledged operation", bad)
		} else {
			o.add(OK, key, pos, "the adapter's Commit is the backend's synchronous Commit")
		}
	}
	return o.list
}

// ADP7: the adapters do not switch off the backend guarantees clover relies on:
// badger conflict detection (WithDetectConflicts(false), managed transactions),
// bbolt fsync on commit (NoSync / NoFreelistSync / NoGrowSync).
func ruleADP7(c *Ctx) []Ob {
	o := newObs(c, "ADP7")
	n := 0
	for _, fn := range c.LibFuncs {
		if !strings.HasPrefix(c.pkgRel(fn), "store/") {
			continue
		}
		allCalls(fn, func(call ssa.CallInstruction) {
			full := calleeFullName(call)
			if !strings.HasPrefix(full, "(github.com/dgraph-io/badger/v4.Options).With") {
				return
			}
			n++
			name := full[strings.LastIndex(full, ".")+1:]
			key := c.fname(fn) + "/badger option " + name
			args := call.Common().Args
			switch name {
			case "WithDetectConflicts":
				if bv, ok := constBool(args[len(args)-1]); !ok || !bv {
					o.add(VIOLATED, key, relPath(c, call.Pos()), "badger conflict detection is switched off: two overlapping write transactions both commit, the later one overwriting the earlier from a stale snapshot (lost updates, stale collection size)")
					return
				}
			case "WithManagedTxns":
				o.add(VIOLATED, key, relPath(c, call.Pos()), "managed transactions bypass badger's own timestamping and conflict handling")
				return
			}
			o.add(OK, key, relPath(c, call.Pos()), "does not weaken transaction semantics")
		})
		for _, b := range fn.Blocks {
			for _, in := range b.Instrs {
				st, ok := in.(*ssa.Store)
				if !ok {
					continue
				}
				_, f, nm := fieldOfAddr(st.Addr)
				if nm == nil || namedPkgPath(nm) != "go.etcd.io/bbolt" {
					continue
				}
				switch f {
				case "NoSync", "NoFreelistSync", "NoGrowSync":
					n++
					if bv, ok := constBool(st.Val); !ok || bv {
						o.add(VIOLATED, c.fname(fn)+"/bbolt "+f, relPath(c, st.Pos()), "bbolt is configured with %s: commits are acknowledged without being synced", f)
					}
				}
			}
		}
	}
	o.add(OK, "adapter configuration", "-", "%d backend configuration sites inspected; defaults otherwise (badger detects conflicts, bbolt syncs on commit)", n)
	return o.list
}

// ---------------------------------------------------------------- IDX7

// IDX7: the catalog record written back is the one read in this transaction. A
// function that has read the collection's record and then writes a freshly
// built one resets every field it does not copy (the document counter, the
// index list).
func ruleIDX7(c *Ctx) []Ob {
	o := newObs(c, "IDX7")
	r := c.Roles()
	for _, fn := range c.LibFuncs {
		if c.pkgRel(fn) != "" {
			continue
		}
		readsRecord := false
		allCalls(fn, func(call ssa.CallInstruction) {
			g := staticCallee(call)
			if g == nil {
				return
			}
			g = c.declared(g)
			if r.isMetaReader(g) && g.Signature.Results().Len() > 0 && c.isMetaPtr(g.Signature.Results().At(0).Type()) {
				readsRecord = true
			}
		})
		allCalls(fn, func(call ssa.CallInstruction) {
			if !c.callsMetaWriter(call) {
				return
			}
			var metaArg ssa.Value
			for _, a := range call.Common().Args {
				if c.isMetaPtr(a.Type()) {
					metaArg = a
				}
			}
			if metaArg == nil {
				return
			}
			key := c.fname(fn) + "/writes back the record it read"
			pos := relPath(c, call.Pos())
			fresh := false
			for _, og := range c.paramSources(metaArg, 0) {
				if _, isAlloc := og.(*ssa.Alloc); isAlloc {
					fresh = true
				}
			}
			switch {
			case fresh && readsRecord:
				o.add(VIOLATED, key, pos, "the collection's catalog record is read in this function but a freshly built record is written back: fields that are not copied (the document counter, other indexes) are reset, so Count no longer matches the stored documents")
			case fresh:
				o.add(OK, key, pos, "a new record is written where none was read (collection creation)")
			default:
				o.add(OK, key, pos, "the record written is the one obtained from the catalog")
			}
		})
	}
	return o.list
}

// ---------------------------------------------------------------- SKIP1

// SKIP1: a negative skip is ignored: abstractly evaluating Query.Skip with a
// negative argument stores nothing into the query's skip field (the query is
// returned unchanged); zero and positive values are stored as given.
func ruleSKIP1(c *Ctx) []Ob {
	o := newObs(c, "SKIP1")
	skip := c.lookupMethod("query", "Query", "Skip")
	getSkip := c.lookupMethod("query", "Query", "GetSkip")
	if skip == nil || getSkip == nil {
		o.add(UNDECIDED, "Query.Skip", "-", "not found")
		return o.list
	}
	// the field GetSkip returns
	field := ""
	for _, ret := range returnsOf(getSkip) {
		if rv, ok := returnedValue(ret, 0); ok {
			if _, f, _ := fieldLoad(rv); f != "" {
				field = f
			}
		}
	}
	if field == "" {
		o.add(UNDECIDED, "Query.Skip", relPath(c, getSkip.Pos()), "skip field not identified")
		return softenUndecided(o.list)
	}
	for _, n := range []int64{-1, 0, 1} {
		n := n
		te := c.newTagEval()
		var stored []string
		te.storeObs = func(st *ssa.Store, v aval, _ func(ssa.Value) aval) {
			if _, f, nm := fieldOfAddr(st.Addr); f == field && nm != nil && c.libNamedIs(nm, "query", "Query") {
				stored = append(stored, v.String())
			}
		}
		// evaluate Skip and the copy helper it calls
		te.Eval(skip, []aval{{K: aConst}, {K: aConst, C: constant.MakeInt64(n)}}, 0)
		key := fmt.Sprintf("Query.Skip(%d)", n)
		neg := false
		pos := false
		for _, sv := range stored {
			if sv == fmt.Sprintf("const %d", n) {
				pos = true
				if n < 0 {
					neg = true
				}
			}
		}
		switch {
		case n < 0 && neg:
			o.add(VIOLATED, key, relPath(c, skip.Pos()), "a negative skip is stored into the query instead of being ignored: it cancels an earlier Skip when chained and makes the counter shortcut of Count add documents (size - skip)")
		case n < 0:
			o.add(OK, key, relPath(c, skip.Pos()), "ignored: nothing negative is stored")
		case !pos:
			o.add(UNDECIDED, key, relPath(c, skip.Pos()), "the value is not stored as given (stores seen: %v)", stored)
		default:
			o.add(OK, key, relPath(c, skip.Pos()), "stored as given")
		}
	}
	return softenUndecided(o.list)
}

// ---------------------------------------------------------------- PLAN9

// PLAN9: no range is derived from an ordering comparison with a nil operand. In
// index.Range a nil bound means "unbounded", so Gt(nil) and Lt(nil) would both
// become {nil, nil, false, false}: indistinguishable, reported empty, and when
// intersected a nil end is read as a value below every other end. Every row of
// the criteria->range table for an operator other than Eq is reached only when
// the operand is known non-nil (or the operator is known to be Eq).
func rulePLAN9(c *Ctx) []Ob {
	o := newObs(c, "PLAN9")
	eqK, okEq := c.opConst("EqOp")
	n := 0
	for _, fn := range c.LibFuncs {
		if c.pkgRel(fn) != "" || fn.Signature.Results().Len() != 1 || fn.Parent() != nil {
			continue
		}
		rp, ok := fn.Signature.Results().At(0).Type().(*types.Pointer)
		if !ok || !c.libNamedIs(rp.Elem(), "index", "Range") {
			continue
		}
		cases := c.opCases(fn, "UnaryCriteria", "OpType")
		if len(cases) < 3 || !okEq {
			continue
		}
		isOperand := func(x ssa.Value) bool {
			for _, og := range origins(x) {
				if c.isFieldLoadOf(og, "query", "UnaryCriteria", "Value") {
					return true
				}
			}
			return false
		}
		guards := nonNilEdges(fn, isOperand)
		guards = append(guards, cases[eqK]...)
		// the guard may also be at the (single) call site
		callGuarded := true
		sites := c.staticCallers(fn)
		if len(sites) == 0 {
			callGuarded = false
		}
		for _, s := range sites {
			caller := s.Parent()
			cg := nonNilEdges(caller, isOperand)
			if !guardedBy(caller, s.Block(), cg) {
				callGuarded = false
			}
		}
		for k, es := range cases {
			if k == eqK || len(es) == 0 {
				continue
			}
			for _, ret := range returnsOf(fn) {
				hit := false
				for _, e := range es {
					if e.to() == ret.Block() || e.to().Dominates(ret.Block()) {
						hit = true
					}
				}
				if !hit {
					continue
				}
				rv, ok := returnedValue(ret, 0)
				if !ok || isNilConst(rv) {
					continue
				}
				n++
				key := c.fname(fn) + "/row " + c.opName(k) + " needs a non-nil operand"
				if callGuarded || guardedBy(fn, ret.Block(), guards) {
					o.add(OK, key, relPath(c, ret.Pos()), "the row is reached only for a non-nil operand")
				} else {
					o.add(VIOLATED, key, relPath(c, ret.Pos()), "a range is derived for %s with a nil operand: a nil bound means unbounded, so `x > nil` becomes the range {nil, nil, exclusive, exclusive}, which is reported empty (the indexed query returns nothing while the un-indexed one returns every non-nil value), and intersections read the nil end as the smallest value", c.opName(k))
				}
			}
		}
	}
	if n == 0 {
		o.add(UNDECIDED, "range-table", "-", "criteria->range table not found")
	}
	return o.list
}

// ---------------------------------------------------------------- ADP8

// ADP8: what a store.Cursor implementation hands out in store.Item stays valid
// after the cursor moves. badger's Item.Key() is only valid until the next
// iteration step (the buffer is recycled), bbolt's keys live as long as the
// transaction: the adapter must copy (KeyCopy), otherwise callers that keep a
// key across Next - or hand it to Tx.Delete, which keeps the slice until commit
// - act on the wrong key on badger only.
func ruleADP8(c *Ctx) []Ob {
	o := newObs(c, "ADP8")
	for _, fn := range c.storeImpls("Cursor", "Item") {
		key := c.fname(fn) + "/returned key outlives the cursor position"
		bad := ""
		info := ""
		for _, b := range fn.Blocks {
			for _, in := range b.Instrs {
				call, ok := in.(*ssa.Call)
				if !ok {
					continue
				}
				switch calleeFullName(call) {
				case "(*github.com/dgraph-io/badger/v4.Item).Key":
					// does it flow into the returned item's Key?
					for _, r := range realReferrers(call) {
						switch x := r.(type) {
						case *ssa.Store:
							if _, f, n := fieldOfAddr(x.Addr); f == "Key" && n != nil && c.libNamedIs(n, "store", "Item") {
								bad = relPath(c, call.Pos())
							}
						case *ssa.Return:
							bad = relPath(c, call.Pos())
						}
					}
				case "(*github.com/dgraph-io/badger/v4.Item).Value":
					info = relPath(c, call.Pos())
				}
			}
		}
		// the key handed out must be a fresh slice per call: not a buffer kept in the cursor (or
		// any other longer-lived place), which the next Item() call overwrites
		reused := ""
		for _, ret := range returnsOf(fn) {
			rv, ok := returnedValue(ret, 0)
			if !ok {
				continue
			}
			var keyVals []ssa.Value
			for _, og := range origins(rv) {
				if l, ok := og.(*ssa.UnOp); ok && l.Op == token.MUL {
					if al, ok := l.X.(*ssa.Alloc); ok {
						for _, r := range realReferrers(al) {
							if fa, ok := r.(*ssa.FieldAddr); ok {
								if _, f, n := fieldOfAddr(fa); f == "Key" && n != nil && c.libNamedIs(n, "store", "Item") {
									for _, rr := range realReferrers(fa) {
										if st, ok := rr.(*ssa.Store); ok && st.Addr == ssa.Value(fa) {
											keyVals = append(keyVals, st.Val)
										}
									}
								}
							}
						}
					}
				}
			}
			for _, kv := range keyVals {
				if d, shared := c.sharedSlice(kv, 0, map[ssa.Value]bool{}); shared {
					reused = d
				}
				for _, og := range origins(kv) {
					if cl, ok := og.(*ssa.Call); ok && strings.HasSuffix(calleeFullName(cl), ".Item).KeyCopy") && len(cl.Common().Args) == 2 {
						if d, shared := c.sharedSlice(cl.Common().Args[1], 0, map[ssa.Value]bool{}); shared {
							reused = d + " (passed to KeyCopy as the destination buffer)"
						}
					}
				}
			}
		}
		if bad == "" && reused != "" {
			o.add(VIOLATED, key, relPath(c, fn.Pos()), "the key handed out lives in %s, which the next call overwrites: a key kept across Next, or passed to Tx.Delete (badger keeps the slice until Commit), later designates another entry", reused)
			continue
		}
		if bad != "" {
			o.add(VIOLATED, key, bad, "the adapter returns badger's Item.Key(), which is only valid until the iterator advances: a key kept across Next, or passed to Tx.Delete (badger keeps the slice until Commit), later designates another entry - DropIndex on badger leaves most of the index behind while bbolt removes it")
		} else {
			o.add(OK, key, relPath(c, fn.Pos()), "keys handed out by the cursor are copies / live as long as the transaction")
		}
		if info != "" {
			o.add(INFO, c.fname(fn)+"/value obtained through Item.Value(fn)", info, "the value slice escapes the callback it is documented to be valid in (no failing input known)")
		}
	}
	return o.list
}

// ---------------------------------------------------------------- ALIAS1

// sharedSlice reports whether v may be - without a copy and with its spare
// capacity - a slice that lives in a struct field or a package variable.
func (c *Ctx) sharedSlice(v ssa.Value, depth int, seen map[ssa.Value]bool) (string, bool) {
	if depth > 4 {
		return "", false
	}
	for _, og := range c.paramSources(v, 0) {
		if seen[og] {
			continue
		}
		seen[og] = true
		switch x := og.(type) {
		case *ssa.UnOp:
			if x.Op != token.MUL {
				continue
			}
			if _, f, n := fieldOfAddr(x.X); n != nil {
				return "field " + namedName(n) + "." + f, true
			}
			if g, ok := x.X.(*ssa.Global); ok {
				return "package variable " + g.Name(), true
			}
		case *ssa.Slice:
			if x.Max != nil {
				continue // capacity clipped: an append reallocates
			}
			if _, ok := x.X.Type().Underlying().(*types.Slice); ok {
				if d, ok := c.sharedSlice(x.X, depth+1, seen); ok {
					return d, true
				}
			}
		case *ssa.Lookup, *ssa.Extract:
			// an entry of a map that is kept in a field or package variable (a cache of prefixes)
			var lk *ssa.Lookup
			switch y := x.(type) {
			case *ssa.Lookup:
				lk = y
			case *ssa.Extract:
				lk, _ = y.Tuple.(*ssa.Lookup)
			}
			if lk == nil {
				continue
			}
			for _, mo := range origins(lk.X) {
				if u, ok := mo.(*ssa.UnOp); ok && u.Op == token.MUL {
					if _, f, n := fieldOfAddr(u.X); n != nil {
						return "an entry of the map in field " + namedName(n) + "." + f, true
					}
					if g, ok := u.X.(*ssa.Global); ok {
						return "an entry of the package-level map " + g.Name(), true
					}
				}
			}
		case *ssa.Call:
			if b, ok := x.Common().Value.(*ssa.Builtin); ok {
				if b.Name() == "append" {
					if d, ok := c.sharedSlice(x.Common().Args[0], depth+1, seen); ok {
						return d, true
					}
				}
				continue
			}
			g := staticCallee(x)
			if g == nil || !c.IsLib(g) || len(g.Blocks) == 0 {
				continue
			}
			for _, ret := range returnsOf(g) {
				if rv, ok := returnedValue(ret, 0); ok {
					if _, isSl := rv.Type().Underlying().(*types.Slice); !isSl {
						continue
					}
					if d, ok := c.sharedSlice(rv, depth+1, seen); ok {
						return d + " (returned by " + c.fname(g) + ")", true
					}
				}
			}
		}
	}
	return "", false
}

// appendTarget: when call appends to one of its arguments and hands back the extended slice
// (the builtin append, orderedcode.Append, strconv.Append*, or a library function that returns
// such an append on its own parameter), the index of that argument; -1 otherwise.
func (c *Ctx) appendTarget(call *ssa.Call, depth int) int {
	if depth > 3 {
		return -1
	}
	cc := call.Common()
	if b, ok := cc.Value.(*ssa.Builtin); ok {
		if b.Name() == "append" && len(cc.Args) >= 1 {
			return 0
		}
		return -1
	}
	g := staticCallee(call)
	if g == nil {
		return -1
	}
	if g.Pkg != nil && g.Pkg.Pkg.Path() == "github.com/google/orderedcode" && g.Name() == "Append" {
		return 0
	}
	if g.Pkg != nil && g.Pkg.Pkg.Path() == "strconv" && strings.HasPrefix(g.Name(), "Append") {
		return 0
	}
	g = c.declared(g)
	if !c.IsLib(g) || len(g.Blocks) == 0 || g.Signature.Results().Len() == 0 {
		return -1
	}
	if _, isSl := g.Signature.Results().At(0).Type().Underlying().(*types.Slice); !isSl {
		return -1
	}
	for _, ret := range returnsOf(g) {
		rv, ok := returnedValue(ret, 0)
		if !ok {
			continue
		}
		for _, og := range origins(rv) {
			var inner *ssa.Call
			switch x := og.(type) {
			case *ssa.Call:
				inner = x
			case *ssa.Extract:
				inner, _ = x.Tuple.(*ssa.Call)
			}
			if inner == nil || inner == call {
				continue
			}
			ti := c.appendTarget(inner, depth+1)
			if ti < 0 || ti >= len(inner.Common().Args) {
				continue
			}
			for _, ao := range origins(inner.Common().Args[ti]) {
				if p, ok := ao.(*ssa.Parameter); ok {
					if pi := paramIndex(g, p); pi >= 0 {
						return pi
					}
				}
			}
		}
	}
	return -1
}

// ALIAS1: no append writes into the spare capacity of a slice that lives in a
// struct field or package variable unless the result replaces that slice. Two
// keys (or bounds) built by appending to the same cached prefix share one
// backing array, and the second append overwrites the first: the range scan
// then runs between the wrong bounds.
func ruleALIAS1(c *Ctx) []Ob {
	o := newObs(c, "ALIAS1")
	for _, fn := range c.LibFuncs {
		n := 0
		allCalls(fn, func(ci ssa.CallInstruction) {
			call, ok := ci.(*ssa.Call)
			if !ok {
				return
			}
			ai := c.appendTarget(call, 0)
			if ai < 0 || ai >= len(call.Common().Args) {
				return
			}
			n++
			key := fmt.Sprintf("%s/append #%d", c.fname(fn), n)
			desc, shared := c.sharedSlice(call.Common().Args[ai], 0, map[ssa.Value]bool{})
			if !shared {
				o.add(OK, key, relPath(c, call.Pos()), "appends to a slice that is local, fresh, or clipped")
				return
			}
			// the result replaces the stored slice?
			stored := false
			seen := map[ssa.Value]bool{}
			var fwd func(v ssa.Value)
			fwd = func(v ssa.Value) {
				if seen[v] || stored {
					return
				}
				seen[v] = true
				for _, r := range realReferrers(v) {
					switch x := r.(type) {
					case *ssa.Store:
						if x.Val == v {
							if _, _, nn := fieldOfAddr(x.Addr); nn != nil {
								stored = true
							}
							if _, ok := x.Addr.(*ssa.Global); ok {
								stored = true
							}
							if al, ok := x.Addr.(*ssa.Alloc); ok {
								for _, rr := range realReferrers(al) {
									if l, ok := rr.(*ssa.UnOp); ok && l.Op == token.MUL {
										fwd(l)
									}
								}
							}
						}
					case *ssa.Phi:
						fwd(x)
					case *ssa.Call:
						if ti := c.appendTarget(x, 0); ti >= 0 && ti < len(x.Common().Args) && x.Common().Args[ti] == v {
							fwd(x)
						}
					case *ssa.Extract:
						fwd(x)
					}
				}
			}
			fwd(call)
			if stored {
				o.add(OK, key, relPath(c, call.Pos()), "the result of the append replaces the stored slice (%s)", desc)
				return
			}
			o.add(VIOLATED, key, relPath(c, call.Pos()), "appends into the spare capacity of %s without storing the result back: another append on the same slice overwrites these bytes (two keys or bounds built on one cached prefix alias each other)", desc)
		})
	}
	return o.list
}

// ---------------------------------------------------------------- WRITE1

// edgeNonNil: on the CFG edge p -> succ, v is known to be non-nil because p ends
// in a nil test of v and succ is its non-nil branch.
func edgeNonNil(p, succ *ssa.BasicBlock, v ssa.Value) bool {
	if len(p.Instrs) == 0 || len(p.Succs) != 2 || p.Succs[0] == p.Succs[1] {
		return false
	}
	i, ok := p.Instrs[len(p.Instrs)-1].(*ssa.If)
	if !ok {
		return false
	}
	x, trueMeansNil, ok := nilTest(i.Cond)
	if !ok || !sameValue(v)(x) {
		return false
	}
	onTrue := succ == p.Succs[0]
	return onTrue != trueMeansNil
}

// successWithoutCut walks fn's CFG from the given edges, never entering a block
// of cut, and reports the first way of finishing successfully it finds: a return
// whose error result may be nil on the path taken (the phi edge of the
// predecessor is used), or reaching block again. "" when there is none.
func (c *Ctx) successWithoutCut(fn *ssa.Function, from []edge2, cut map[*ssa.BasicBlock]bool, again *ssa.BasicBlock) string {
	errIdx := errResultIndex(fn.Signature)
	type st struct{ p, b *ssa.BasicBlock }
	seen := map[st]bool{}
	var stack []st
	for _, e := range from {
		stack = append(stack, st{e.from, e.to})
	}
	for len(stack) > 0 {
		x := stack[len(stack)-1]
		stack = stack[:len(stack)-1]
		if again != nil && x.b == again {
			return "the next iteration of the loop"
		}
		if seen[x] || cut[x.b] {
			continue
		}
		seen[x] = true
		if ret, ok := x.b.Instrs[len(x.b.Instrs)-1].(*ssa.Return); ok {
			if errIdx < 0 {
				return "the return at " + relPath(c, ret.Pos())
			}
			ev, has := returnedValue(ret, errIdx)
			if !has {
				return "the return at " + relPath(c, ret.Pos())
			}
			if phi, ok := ev.(*ssa.Phi); ok && phi.Block() == x.b && x.p != nil {
				for k, pr := range x.b.Preds {
					if pr == x.p {
						ev = phi.Edges[k]
					}
				}
			}
			nonNil := c.provablyNonNil(fn, ev, x.b)
			if !nonNil && x.p != nil {
				nonNil = edgeNonNil(x.p, x.b, ev) || c.provablyNonNil(fn, ev, x.p)
			}
			if !nonNil {
				return "the success return at " + relPath(c, ret.Pos())
			}
			continue
		}
		for _, s := range x.b.Succs {
			stack = append(stack, st{x.b, s})
		}
	}
	return ""
}

type edge2 struct{ from, to *ssa.BasicBlock }

// mustWriteDoc: every path of g from entry to a return whose error may be nil
// passes through Tx.Set or a call to a function for which the same holds.
func (c *Ctx) mustWriteDoc(g *ssa.Function, busy map[*ssa.Function]bool) bool {
	if g == nil || len(g.Blocks) == 0 || busy[g] {
		return false
	}
	busy[g] = true
	defer delete(busy, g)
	cut := c.writeCutBlocks(g, busy, false)
	return c.successWithoutCut(g, []edge2{{nil, g.Blocks[0]}}, cut, nil) == ""
}

// writeCutBlocks: blocks of fn containing a call that certainly writes a
// document record on success (or, with deletes, removes one).
func (c *Ctx) writeCutBlocks(fn *ssa.Function, busy map[*ssa.Function]bool, deletes bool) map[*ssa.BasicBlock]bool {
	cut := map[*ssa.BasicBlock]bool{}
	for _, b := range fn.Blocks {
		for _, in := range b.Instrs {
			call, ok := in.(*ssa.Call)
			if !ok {
				continue
			}
			if c.isInvokeOf(call, "store", "Tx", "Set") || (deletes && c.isInvokeOf(call, "store", "Tx", "Delete")) {
				cut[b] = true
				continue
			}
			if g := staticCallee(call); g != nil && c.IsLib(c.declared(g)) && c.eff(c.declared(g))&EffDocWrite != 0 {
				if c.mustWriteDoc(c.declared(g), busy) {
					cut[b] = true
				}
			}
		}
	}
	return cut
}

// WRITE1: once the caller's updater has produced the new document, every path
// that goes on to report success (or to the next document of a bulk update)
// writes that document's record or deletes it: no shortcut decides from the
// document's content that the write can be skipped. (Skipping "unchanged"
// documents needs an identity test; the comparison the library has is the
// query ordering, under which int64 3, uint64 3 and float64 3, or one instant
// in two zones, are equal - the stored types and zone would silently stay.)
func ruleWRITE1(c *Ctx) []Ob {
	o := newObs(c, "WRITE1")
	// check: from `call` (the updater call, or a call to a helper that runs the updater and hands back
	// the new document) in block b of fn, every successful path writes or deletes the record
	check := func(fn *ssa.Function, b *ssa.BasicBlock, i int, call *ssa.Call, key string) {
		pos := relPath(c, call.Pos())
		cut := c.writeCutBlocks(fn, map[*ssa.Function]bool{}, true)
		// a write later in the updater's own block
		sameBlock := false
		for _, in2 := range b.Instrs[i+1:] {
			if c2, ok := in2.(*ssa.Call); ok {
				if c.isInvokeOf(c2, "store", "Tx", "Set") || c.isInvokeOf(c2, "store", "Tx", "Delete") {
					sameBlock = true
				}
				if g := staticCallee(c2); g != nil && c.IsLib(c.declared(g)) && c.eff(c.declared(g))&EffDocWrite != 0 && c.mustWriteDoc(c.declared(g), map[*ssa.Function]bool{}) {
					sameBlock = true
				}
			}
		}
		if sameBlock {
			o.add(OK, key, pos, "the record is written in the same block as the updater call")
			return
		}
		var from []edge2
		for _, sc := range b.Succs {
			from = append(from, edge2{b, sc})
		}
		bad := c.successWithoutCut(fn, from, cut, b)
		if bad == "" {
			o.add(OK, key, pos, "every path from the updater call to a success return or to the next document passes through a call that certainly writes (or deletes) the record")
		} else {
			o.add(VIOLATED, key, pos, "a path leads from the updater call to %s without the document record being written or deleted: the update is acknowledged but what is stored keeps its old value, type or zone", bad)
		}
	}
	// handsBack: fn writes nothing itself and returns what the updater produced: its callers write it
	handsBack := func(fn *ssa.Function, call *ssa.Call) bool {
		if fn.Parent() != nil || c.eff(fn)&(EffDocWrite|EffTxSet|EffTxDelete) != 0 {
			return false
		}
		for _, ret := range returnsOf(fn) {
			for k := range ret.Results {
				if rv, ok := returnedValue(ret, k); ok {
					for _, og := range origins(rv) {
						if og == ssa.Value(call) {
							return true
						}
					}
				}
			}
		}
		return false
	}
	for _, fn := range c.LibFuncs {
		if c.pkgRel(fn) != "" {
			continue
		}
		n := 0
		for _, b := range fn.Blocks {
			for i, in := range b.Instrs {
				call, ok := in.(*ssa.Call)
				if !ok || !c.isUpdaterCallback(call) {
					continue
				}
				n++
				key := c.fname(fn) + "/updated document is written"
				if n > 1 {
					key = fmt.Sprintf("%s #%d", key, n)
				}
				if handsBack(fn, call) {
					sites := c.staticCallers(fn)
					if len(sites) > 0 {
						for k, cs := range sites {
							hc, ok := cs.(*ssa.Call)
							if !ok {
								continue
							}
							hkey := c.fname(hc.Parent()) + "/updated document is written"
							if k > 0 {
								hkey = fmt.Sprintf("%s #%d", hkey, k+1)
							}
							check(hc.Parent(), hc.Block(), instrIndex(hc), hc, hkey)
						}
						continue
					}
				}
				check(fn, b, i, call, key)
			}
		}
	}
	return o.list
}

// ---------------------------------------------------------------- OVF1

// OVF1: two caller-supplied integers (the skip and the limit of a query and
// whatever is computed from them) are never added or multiplied: either can be
// math.MaxInt ("no limit"), and a wrapped sum turns the end of the window
// negative, so the first document past the skip already "exceeds" it.
func ruleOVF1(c *Ctx) []Ob {
	o := newObs(c, "OVF1")
	tFields := map[string]bool{} // "Type.field" holding a caller-supplied int
	tFuncs := map[*ssa.Function]bool{}
	tainted := map[ssa.Value]bool{}
	isInt := func(v ssa.Value) bool { return isIntType(v.Type()) }
	fieldKey := func(n *types.Named, f string) string { return namedName(n) + "." + f }
	var libs []*ssa.Function
	for _, fn := range c.LibFuncs {
		if rel := c.pkgRel(fn); rel == "" || rel == "query" {
			libs = append(libs, fn)
		}
	}
	for changed := true; changed; {
		changed = false
		mark := func(v ssa.Value) {
			if !tainted[v] {
				tainted[v] = true
				changed = true
			}
		}
		for _, fn := range libs {
			// int parameters of exported methods of the query builder
			if fn.Parent() == nil && fn.Object() != nil && fn.Object().Exported() && c.pkgRel(fn) == "query" {
				for i, p := range fn.Params {
					if i == 0 && fn.Signature.Recv() != nil {
						continue
					}
					if isInt(p) {
						mark(p)
					}
				}
			}
			for _, b := range fn.Blocks {
				for _, in := range b.Instrs {
					switch x := in.(type) {
					case *ssa.UnOp:
						if x.Op == token.MUL && isInt(x) {
							if _, f, n := fieldOfAddr(x.X); n != nil && tFields[fieldKey(n, f)] {
								mark(x)
							}
							if al, ok := x.X.(*ssa.Alloc); ok {
								for _, s := range storesTo(al) {
									if tainted[s] {
										mark(x)
									}
								}
							}
							// a variable captured by a function literal
							if fv, ok := x.X.(*ssa.FreeVar); ok {
								if al, ok := freeVarBinding(fv).(*ssa.Alloc); ok {
									for _, s := range storesTo(al) {
										if tainted[s] {
											mark(x)
										}
									}
								}
							}
						}
						if x.Op == token.SUB && tainted[x.X] {
							mark(x)
						}
					case *ssa.Field:
						if isInt(x) {
							if n, ok := x.X.Type().(*types.Named); ok {
								if st, ok := n.Underlying().(*types.Struct); ok && tFields[fieldKey(n, st.Field(x.Field).Name())] {
									mark(x)
								}
							}
						}
					case *ssa.Store:
						if tainted[x.Val] {
							if _, f, n := fieldOfAddr(x.Addr); n != nil && !tFields[fieldKey(n, f)] {
								tFields[fieldKey(n, f)] = true
								changed = true
							}
						}
					case *ssa.Phi:
						for _, e := range x.Edges {
							if tainted[e] {
								mark(x)
							}
						}
					case *ssa.BinOp:
						if isInt(x) && (tainted[x.X] || tainted[x.Y]) {
							switch x.Op {
							case token.ADD, token.SUB, token.MUL:
								mark(x)
							}
						}
					case *ssa.Convert:
						if tainted[x.X] && isInt(x) {
							mark(x)
						}
					case *ssa.Call:
						if g := staticCallee(x); g != nil && tFuncs[c.declared(g)] && isInt(x) {
							mark(x)
						}
						// arguments flow into parameters of static library callees
						if g := staticCallee(x); g != nil && c.IsLib(c.declared(g)) {
							g = c.declared(g)
							for i, a := range x.Common().Args {
								if tainted[a] && i < len(g.Params) {
									mark(g.Params[i])
								}
							}
						}
					case *ssa.Return:
						for _, r := range x.Results {
							if tainted[r] && !tFuncs[fn] {
								tFuncs[fn] = true
								changed = true
							}
						}
					}
				}
			}
		}
	}
	n := 0
	for _, fn := range libs {
		k := 0
		for _, b := range fn.Blocks {
			for _, in := range b.Instrs {
				bo, ok := in.(*ssa.BinOp)
				if !ok || !isInt(bo) || (bo.Op != token.ADD && bo.Op != token.MUL) {
					continue
				}
				_, cx := bo.X.(*ssa.Const)
				_, cy := bo.Y.(*ssa.Const)
				if cx || cy || !(tainted[bo.X] || tainted[bo.Y]) {
					continue
				}
				n++
				k++
				key := fmt.Sprintf("%s/%s #%d", c.fname(fn), bo.Op, k)
				if tainted[bo.X] && tainted[bo.Y] {
					o.add(VIOLATED, key, relPath(c, bo.Pos()), "two caller-supplied integers (%s, %s) are combined with %s: with a limit or skip near math.MaxInt the result wraps around and the window test inverts", describeValue(c, bo.X), describeValue(c, bo.Y), bo.Op)
				} else {
					o.add(OK, key, relPath(c, bo.Pos()), "only one operand is caller-supplied")
				}
			}
		}
	}
	var fs []string
	for f := range tFields {
		fs = append(fs, f)
	}
	sort.Strings(fs)
	if len(fs) == 0 {
		o.add(UNDECIDED, "sources", "-", "no field holding a caller-supplied integer found (Query.Skip/Limit)")
	} else {
		o.add(OK, "sources", "-", "caller-supplied integers live in %s; %d additions/multiplications involve them, none combines two", strings.Join(fs, ", "), n)
	}
	return o.list
}

// ---------------------------------------------------------------- NORM2

// NORM2: the visitor that normalises the literals of a criteria tree rebuilds
// the same tree: each node it returns has the operator (and field) of the node
// it was given, and its children are the results of visiting the corresponding
// children. Only the operand value may differ. (Rewriting In(x) to Eq(x),
// say, is not an equivalence: the operators disagree on absent fields.)
func ruleNORM2(c *Ctx) []Ob {
	o := newObs(c, "NORM2")
	normalize := c.lookupFunc("internal", "Normalize")
	var visitors []*types.Named
	var allV []*types.Named
	if vi := c.visitorIface(); vi != nil {
		for _, sp := range c.LibPkgs {
			for _, mem := range sp.Members {
				if tn, ok := mem.(*ssa.Type); ok {
					if n, ok := tn.Type().(*types.Named); ok && types.Implements(types.NewPointer(n), vi) {
						if _, isI := n.Underlying().(*types.Interface); !isI {
							allV = append(allV, n)
						}
					}
				}
			}
		}
	}
	sort.Slice(allV, func(i, j int) bool { return allV[i].Obj().Name() < allV[j].Obj().Name() })
	for _, n := range allV {
		for _, m := range c.visitorMethods(n) {
			if normalize != nil && c.staticReach(m)[normalize] {
				visitors = append(visitors, n)
				break
			}
		}
	}
	if len(visitors) == 0 {
		o.add(UNDECIDED, "visitor", "-", "no criteria visitor calling internal.Normalize found")
		return softenUndecided(o.list)
	}
	for _, V := range visitors {
		for _, m := range c.visitorMethods(V) {
			var node *ssa.Parameter
			for _, p := range m.Params {
				if pt, ok := p.Type().(*types.Pointer); ok {
					if nn, ok := pt.Elem().(*types.Named); ok && namedPkgPath(nn) == c.ModPath+"/query" {
						node = p
					}
				}
			}
			if node == nil {
				continue
			}
			nodeT := node.Type().(*types.Pointer).Elem().(*types.Named)
			st, _ := nodeT.Underlying().(*types.Struct)
			fromNode := func(v ssa.Value, field string) bool {
				ogs := origins(stripIfaceOnly(v))
				if len(ogs) == 0 {
					return false
				}
				for _, og := range ogs {
					base, f, nn := fieldLoad(og)
					if f != field || nn == nil || !types.Identical(nn, nodeT) {
						return false
					}
					okb := false
					for _, bo := range origins(base) {
						if bo == ssa.Value(node) {
							okb = true
						}
					}
					if !okb {
						return false
					}
				}
				return true
			}
			nret := 0
			for _, ret := range returnsOf(m) {
				rv, ok := returnedValue(ret, 0)
				if !ok {
					continue
				}
				for _, og := range origins(rv) {
					if isNilConst(og) || isNilConst(stripIfaceOnly(og)) {
						continue // the error path
					}
					nret++
					key := fmt.Sprintf("%s.%s/rebuilds the same node", V.Obj().Name(), m.Name())
					if nret > 1 {
						key = fmt.Sprintf("%s #%d", key, nret)
					}
					pos := relPath(c, ret.Pos())
					al, isAl := stripIfaceOnly(og).(*ssa.Alloc)
					if !isAl {
						if stripIfaceOnly(og) == ssa.Value(node) {
							hasChild := false
							for i := 0; st != nil && i < st.NumFields(); i++ {
								if c.isCriteriaType(st.Field(i).Type()) {
									hasChild = true
								}
							}
							if hasChild {
								o.add(VIOLATED, key, pos, "visiting a %s returns the node it was given although the node has children: what the visit of the children produced (their operands in canonical form) is dropped - the operands below this node reach the planner raw, and a range derived from them (Not(x > 5) on an indexed field becomes x <= int(5)) panics in the key encoder or in the comparison of two bounds", nodeT.Obj().Name())
								continue
							}
							o.add(OK, key, pos, "returns the node it was given")
							continue
						}
						o.add(UNDECIDED, key, pos, "the returned value is not a node literal")
						continue
					}
					an, _ := al.Type().Underlying().(*types.Pointer).Elem().(*types.Named)
					if an == nil || !types.Identical(an, nodeT) {
						o.add(VIOLATED, key, pos, "visiting a %s returns a %s", nodeT.Obj().Name(), typeString(al.Type()))
						continue
					}
					bad := ""
					stored := map[string]ssa.Value{}
					for _, r := range realReferrers(al) {
						fa, ok := r.(*ssa.FieldAddr)
						if !ok {
							continue
						}
						_, f, _ := fieldOfAddr(fa)
						for _, rr := range realReferrers(fa) {
							if s, ok := rr.(*ssa.Store); ok && s.Addr == ssa.Value(fa) {
								stored[f] = s.Val
							}
						}
					}
					for i := 0; st != nil && i < st.NumFields(); i++ {
						f := st.Field(i)
						val, has := stored[f.Name()]
						switch {
						case c.isCriteriaType(f.Type()):
							// child: the visit of the same child
							if !has {
								bad = "child " + f.Name() + " is not set"
								break
							}
							okc := false
							for _, co := range origins(val) {
								ta, ok := co.(*ssa.TypeAssert)
								if !ok {
									okc = false
									break
								}
								ac, _ := c.visitCallOf(ta.X)
								if ac == nil || !ac.Common().IsInvoke() || !fromNode(ac.Common().Value, f.Name()) {
									okc = false
									break
								}
								okc = true
							}
							if !okc {
								bad = "child " + f.Name() + " is not the result of visiting the same child of the given node"
							}
						case f.Name() == "Value":
							// the operand: normalised
						default:
							if !has {
								if !isZeroOK(f.Type()) {
									bad = f.Name() + " is not copied"
								} else {
									bad = f.Name() + " is left at its zero value instead of being copied from the given node"
								}
								break
							}
							if !fromNode(val, f.Name()) {
								bad = f.Name() + " of the rebuilt node is not (only) the " + f.Name() + " of the given node"
							}
						}
						if bad != "" {
							break
						}
					}
					if bad != "" {
						o.add(VIOLATED, key, pos, "%s: normalisation must change operand values only, the rewritten criteria is evaluated instead of the caller's", bad)
					} else {
						o.add(OK, key, pos, "same operator/field, children visited in place, only the operand value differs")
					}
				}
			}
		}
	}
	return o.list
}

func isZeroOK(t types.Type) bool { return false }

// ---------------------------------------------------------------- ADP9

// ADP9: the seek of an adapter built on bbolt's cursor gives the positions the
// store.Cursor contract (and badger's iterator) gives. bbolt's Cursor.Seek
// returns the first key >= target, or nil past the last key. Therefore
// (a) whatever it returns replaces the adapter's current position on every
//
//	path (a seek that finds nothing must not leave the previous position
//	valid), and
//
// (b) for the nil result there is a repositioning call (Last or Prev) that is
//
//	not confined to the key != nil case: a reverse seek past the last key
//	lands on the last key, as on badger.
func ruleADP9(c *Ctx) []Ob {
	o := newObs(c, "ADP9")
	const bseek = "(*go.etcd.io/bbolt.Cursor).Seek"
	for _, fn := range c.storeImpls("Cursor", "Seek") {
		var bcall *ssa.Call
		allCalls(fn, func(ci ssa.CallInstruction) {
			if cl, ok := ci.(*ssa.Call); ok && calleeFullName(cl) == bseek {
				bcall = cl
			}
		})
		if bcall == nil {
			continue // not a bbolt-cursor adapter (badger's iterator implements the contract itself)
		}
		keys := resultValues(bcall, 0)
		isKey := func(fnc *ssa.Function) func(x ssa.Value) bool {
			return func(x ssa.Value) bool {
				for _, og := range c.paramSources(x, 0) {
					for _, k := range keys {
						if og == k {
							return true
						}
					}
				}
				return false
			}
		}
		// (a) the position field is stored on every path
		keyA := c.fname(fn) + "/position replaced on every path"
		recv := recvNamed(fn)
		cut := map[*ssa.BasicBlock]bool{}
		field := ""
		// setter helpers: methods of the same type that assign a field of it on every path
		setterField := func(g *ssa.Function) string {
			if g == nil || len(g.Blocks) == 0 || recvNamed(g) == nil || recv == nil || !types.Identical(recvNamed(g), recv) {
				return ""
			}
			gcut := map[*ssa.BasicBlock]bool{}
			f := ""
			for _, b := range g.Blocks {
				for _, in := range b.Instrs {
					if st, ok := in.(*ssa.Store); ok {
						if _, ff, n := fieldOfAddr(st.Addr); n != nil && types.Identical(n, recv) {
							gcut[b] = true
							f = ff
						}
					}
				}
			}
			if f == "" {
				return ""
			}
			seen := map[*ssa.BasicBlock]bool{}
			stack := []*ssa.BasicBlock{g.Blocks[0]}
			for len(stack) > 0 {
				x := stack[len(stack)-1]
				stack = stack[:len(stack)-1]
				if seen[x] || gcut[x] {
					continue
				}
				seen[x] = true
				if _, isRet := x.Instrs[len(x.Instrs)-1].(*ssa.Return); isRet {
					return "" // a path through the helper without the assignment
				}
				stack = append(stack, x.Succs...)
			}
			return f
		}
		for _, b := range fn.Blocks {
			for _, in := range b.Instrs {
				if st, ok := in.(*ssa.Store); ok {
					if _, f, n := fieldOfAddr(st.Addr); n != nil && recv != nil && types.Identical(n, recv) {
						cut[b] = true
						field = f
					}
				}
				if call, ok := in.(*ssa.Call); ok {
					if g := staticCallee(call); g != nil && c.IsLib(c.declared(g)) {
						if f := setterField(c.declared(g)); f != "" {
							cut[b] = true
							field = f
						}
					}
				}
			}
		}
		if field == "" {
			o.add(UNDECIDED, keyA, relPath(c, fn.Pos()), "the adapter's position field was not found")
		} else {
			seen := map[*ssa.BasicBlock]bool{}
			stack := []*ssa.BasicBlock{bcall.Block()}
			if cut[bcall.Block()] {
				stack = nil
			}
			bad := ""
			for len(stack) > 0 && bad == "" {
				x := stack[len(stack)-1]
				stack = stack[:len(stack)-1]
				if seen[x] || (cut[x] && x != bcall.Block()) {
					continue
				}
				seen[x] = true
				if ret, ok := x.Instrs[len(x.Instrs)-1].(*ssa.Return); ok {
					bad = relPath(c, ret.Pos())
				}
				stack = append(stack, x.Succs...)
			}
			if bad != "" {
				o.add(VIOLATED, keyA, relPath(c, bcall.Pos()), "after the backend seek a path reaches the return at %s without assigning %s: a seek that finds nothing leaves the previous position in place and Valid() keeps answering true for it (badger: invalid)", bad, field)
			} else {
				o.add(OK, keyA, relPath(c, bcall.Pos()), "%s is assigned on every path after the backend seek", field)
			}
		}
		// (b) repositioning for the nil result
		keyB := c.fname(fn) + "/seek past the last key"
		found, serves := false, false
		var visit func(f *ssa.Function, depth int)
		seenF := map[*ssa.Function]bool{}
		visit = func(f *ssa.Function, depth int) {
			if f == nil || seenF[f] || depth > 2 || len(f.Blocks) == 0 {
				return
			}
			seenF[f] = true
			nn := nonNilEdges(f, isKey(f))
			allCalls(f, func(ci ssa.CallInstruction) {
				full := calleeFullName(ci)
				if full == "(*go.etcd.io/bbolt.Cursor).Last" || full == "(*go.etcd.io/bbolt.Cursor).Prev" {
					found = true
					if !guardedBy(f, ci.Block(), nn) {
						serves = true
					}
				}
				if g := staticCallee(ci); g != nil && c.IsLib(c.declared(g)) {
					// a callee reached only in the non-nil case does not serve the nil case
					if !guardedBy(f, ci.Block(), nn) {
						visit(c.declared(g), depth+1)
					}
				}
			})
		}
		visit(fn, 0)
		// (c) with a key found, a reverse cursor steps back unless that key IS the target
		keyC := c.fname(fn) + "/reverse step back unless the found key equals the target"
		var seekParam ssa.Value
		for _, p := range fn.Params {
			if isStringOrBytes(p.Type()) {
				seekParam = p
			}
		}
		isSeek := func(x ssa.Value) bool {
			for _, og := range c.paramSources(x, 0) {
				if og == seekParam {
					return true
				}
			}
			return false
		}
		nPrev, okPrev := 0, 0
		for f := range seenF {
			var neq []edge
			ifEdges(f, func(cond ssa.Value, e edge) {
				neg := false
				for {
					if u, ok := cond.(*ssa.UnOp); ok && u.Op == token.NOT {
						cond, neg = u.X, !neg
						continue
					}
					break
				}
				pair := func(a, b ssa.Value) bool {
					return (isKey(f)(a) && isSeek(b)) || (isKey(f)(b) && isSeek(a))
				}
				if cl, ok := cond.(*ssa.Call); ok && calleeFullName(cl) == "bytes.Equal" {
					a := cl.Common().Args
					if pair(a[0], a[1]) && e.Branch == neg { // the edge on which Equal is false
						neq = append(neq, e)
					}
				}
				if bo, ok := cond.(*ssa.BinOp); ok {
					// string(found) != string(target)
					if (bo.Op == token.EQL || bo.Op == token.NEQ) && pair(stripConv(bo.X), stripConv(bo.Y)) {
						if e.Branch != neg == (bo.Op == token.NEQ) {
							neq = append(neq, e)
						}
					}
					// bytes.Compare(found, target) != 0 / > 0 (the found key is never smaller)
					if cl, ok := bo.X.(*ssa.Call); ok && calleeFullName(cl) == "bytes.Compare" {
						if k, isK := constInt(bo.Y); isK && k == 0 {
							a := cl.Common().Args
							keyFirst := isKey(f)(a[0]) && isSeek(a[1])
							seekFirst := isKey(f)(a[1]) && isSeek(a[0])
							differs := false
							switch {
							case bo.Op == token.NEQ && (keyFirst || seekFirst):
								differs = e.Branch != neg
							case bo.Op == token.EQL && (keyFirst || seekFirst):
								differs = e.Branch == neg
							case bo.Op == token.GTR && keyFirst, bo.Op == token.LSS && seekFirst:
								differs = e.Branch != neg
							default:
								return
							}
							if differs {
								neq = append(neq, e)
							}
						}
					}
				}
			})
			allCalls(f, func(ci ssa.CallInstruction) {
				if calleeFullName(ci) != "(*go.etcd.io/bbolt.Cursor).Prev" {
					// or a helper of the adapter that steps back (it calls Prev, possibly retrying)
					g := staticCallee(ci)
					if g == nil || !c.IsLib(c.declared(g)) || seenF[c.declared(g)] {
						return
					}
					steps := false
					allCalls(c.declared(g), func(inner ssa.CallInstruction) {
						if calleeFullName(inner) == "(*go.etcd.io/bbolt.Cursor).Prev" {
							steps = true
						}
					})
					if !steps {
						return
					}
				}
				if !guardedBy(f, ci.Block(), nonNilEdges(f, isKey(f))) {
					return // the nil-result case, (b)
				}
				nPrev++
				if guardedBy(f, ci.Block(), neq) {
					okPrev++
				}
			})
		}
		switch {
		case nPrev == 0:
			o.add(VIOLATED, keyC, relPath(c, bcall.Pos()), "a reverse cursor never steps back from the key bbolt found: bbolt stops at the first key at or after the target, a reverse seek must land on the last key at or before it")
		case okPrev < nPrev:
			o.add(VIOLATED, keyC, relPath(c, bcall.Pos()), "the step back from the key bbolt found is not decided by bytes.Equal(found, target): whenever the found key differs from the target it sorts after it, and a reverse cursor must not stay on it (a target that is a proper prefix of the next key leaves bbolt one key too far; badger steps back)")
		default:
			o.add(OK, keyC, relPath(c, bcall.Pos()), "Prev is called exactly when the found key differs from the target")
		}
		switch {
		case serves:
			o.add(OK, keyB, relPath(c, bcall.Pos()), "a repositioning call (Last/Prev) is reachable when the backend seek found no key")
		case found:
			o.add(VIOLATED, keyB, relPath(c, bcall.Pos()), "the only repositioning (Prev/Last) happens when the backend seek returned a key: a reverse seek past the last key stays invalid instead of landing on the last key (badger lands on it)")
		default:
			o.add(VIOLATED, keyB, relPath(c, bcall.Pos()), "no repositioning call for the case in which the backend seek returns no key: a reverse seek past the last key stays invalid (badger lands on the last key)")
		}
	}
	if len(o.list) == 0 {
		o.add(INFO, "bbolt-cursor adapter", "-", "no store.Cursor.Seek implementation calls (*bbolt.Cursor).Seek")
	}
	return o.list
}

// ---------------------------------------------------------------- RNG3

type absRange struct {
	s, e   int64 // 0 = nil, otherwise a token of the ordered value set
	si, ei bool
}

func (r absRange) isNilOnly() bool { return r.s == 0 && r.e == 0 && r.si && r.ei }

// member: the meaning of a range. nil (0) sorts before every value. A nil bound
// whose inclusion flag is false is an open end (this is how the planner writes
// Lt/LtEq/Gt/GtEq); a nil bound that is included is the value nil itself, as in
// the nil-only range [nil, nil]: as a lower bound it excludes nothing, as an
// upper bound it admits nil only.
func (r absRange) member(v int64) bool {
	if r.s != 0 && (v < r.s || (v == r.s && !r.si)) {
		return false
	}
	switch {
	case r.e == 0 && !r.ei:
		return true
	case r.e == 0:
		return v == 0
	}
	return v < r.e || (v == r.e && r.ei)
}

func (r absRange) String() string {
	b := func(v int64) string {
		if v == 0 {
			return "nil"
		}
		return fmt.Sprintf("v%d", v)
	}
	l, rr := "(", ")"
	if r.si {
		l = "["
	}
	if r.ei {
		rr = "]"
	}
	return l + b(r.s) + ", " + b(r.e) + rr
}

// RNG3: Range.IsEmpty and Range.Intersect, abstractly evaluated on every range
// over an ordered set of symbolic values (the code touches values only through
// internal.Compare and nil tests, so finitely many orderings cover all inputs):
// a range is reported empty only if no value lies in it, and the intersection
// of two ranges is not reported empty and still contains every value that lies
// in both. Operands are not modified.
func ruleRNG3(c *Ctx) []Ob {
	o := newObs(c, "RNG3")
	rt := c.libType("index", "Range")
	isEmpty := c.lookupMethod("index", "Range", "IsEmpty")
	inter := c.lookupMethod("index", "Range", "Intersect")
	cmp := c.lookupFunc("internal", "Compare")
	if rt == nil || isEmpty == nil || inter == nil || cmp == nil {
		o.add(UNDECIDED, "model", "-", "index.Range, its IsEmpty/Intersect or internal.Compare not found")
		return softenUndecided(o.list)
	}
	st, ok := rt.Underlying().(*types.Struct)
	if !ok {
		o.add(UNDECIDED, "model", "-", "index.Range is not a struct")
		return softenUndecided(o.list)
	}
	fi := map[string]int{}
	for i := 0; i < st.NumFields(); i++ {
		fi[st.Field(i).Name()] = i
	}
	for _, f := range []string{"Start", "End", "StartIncluded", "EndIncluded"} {
		if _, ok := fi[f]; !ok {
			o.add(UNDECIDED, "model", "-", "index.Range has no field %s", f)
			return softenUndecided(o.list)
		}
	}
	tok := func(v int64) aval {
		if v == 0 {
			return aval{K: aTag, Tag: nil}
		}
		return aval{K: aTag, Tag: types.Typ[types.Int64], C: constant.MakeInt64(v)}
	}
	untok := func(a aval) (int64, bool) {
		if a.K != aTag {
			return 0, false
		}
		if a.Tag == nil {
			return 0, true
		}
		if a.C == nil {
			return 0, false
		}
		k, _ := constant.Int64Val(a.C)
		return k, true
	}
	newEval := func() *tagEval {
		te := c.newTagEval()
		te.heap = map[int64]map[int]aval{}
		te.callHookEnv = func(call *ssa.Call, val func(ssa.Value) aval) ([]aval, bool) {
			g := staticCallee(call)
			if g == nil || c.declared(g) != cmp {
				return nil, false
			}
			a, ok1 := untok(val(call.Common().Args[0]))
			b, ok2 := untok(val(call.Common().Args[1]))
			if !ok1 || !ok2 {
				return []aval{{}}, true
			}
			r := int64(0)
			if a < b {
				r = -1
			} else if a > b {
				r = 1
			}
			return []aval{{K: aConst, C: constant.MakeInt64(r)}}, true
		}
		return te
	}
	put := func(te *tagEval, r absRange) aval {
		return te.newObj(map[int]aval{fi["Start"]: tok(r.s), fi["End"]: tok(r.e), fi["StartIncluded"]: boolConst(r.si), fi["EndIncluded"]: boolConst(r.ei)})
	}
	get := func(te *tagEval, p aval) (absRange, bool) {
		if p.K != aPtr {
			return absRange{}, false
		}
		obj := te.heap[p.Idx]
		var r absRange
		var ok1, ok2, ok3, ok4 bool
		fld := func(name string, t types.Type) aval {
			if v, ok := obj[fi[name]]; ok {
				return v
			}
			return zeroAval(t)
		}
		r.s, ok1 = untok(fld("Start", st.Field(fi["Start"]).Type()))
		r.e, ok2 = untok(fld("End", st.Field(fi["End"]).Type()))
		r.si, ok3 = avalBool(fld("StartIncluded", types.Typ[types.Bool]))
		r.ei, ok4 = avalBool(fld("EndIncluded", types.Typ[types.Bool]))
		return r, ok1 && ok2 && ok3 && ok4
	}
	evalEmpty := func(r absRange) (bool, string) {
		te := newEval()
		p := put(te, r)
		outs := te.Eval(isEmpty, []aval{p}, 0)
		b, why := singleBool(outs)
		if why == "" && te.heapForked {
			why = "a condition was not decided by the operands"
		}
		return b, why
	}
	bounds := []int64{0, 2, 4, 6, 8}
	probes := []int64{0, 1, 2, 3, 4, 5, 6, 7, 8, 9}
	if c.Tier == "thorough" {
		bounds = []int64{0, 2, 4, 6, 8, 10, 12}
		probes = []int64{0, 1, 2, 3, 4, 5, 6, 7, 8, 9, 10, 11, 12, 13}
	}
	var domain []absRange
	for _, s := range bounds {
		for _, e := range bounds {
			for _, si := range []bool{false, true} {
				for _, ei := range []bool{false, true} {
					r := absRange{s, e, si, ei}
					if s == 0 && e == 0 && !r.isNilOnly() {
						continue // outside the stated domain: at least one non-nil bound, or the nil-only range
					}
					if !r.isNilOnly() && ((s == 0 && si) || (e == 0 && ei)) {
						continue // an included nil bound other than in the nil-only range: not an open end, no operator produces it
					}
					domain = append(domain, r)
				}
			}
		}
	}
	// IsEmpty
	{
		key := "Range.IsEmpty/empty only if no value lies in the range"
		bad, undec := "", ""
		for _, r := range domain {
			emp, why := evalEmpty(r)
			if why != "" {
				undec = why
				continue
			}
			if !emp {
				continue
			}
			for _, v := range probes {
				if r.member(v) {
					bad = fmt.Sprintf("%s is reported empty although %s lies in it", r, absRange{v, v, true, true}.String())
				}
			}
		}
		switch {
		case bad != "":
			o.add(VIOLATED, key, relPath(c, isEmpty.Pos()), "%s", bad)
		case undec != "":
			o.add(UNDECIDED, key, relPath(c, isEmpty.Pos()), "%s", undec)
		default:
			o.add(OK, key, relPath(c, isEmpty.Pos()), "checked on %d ranges over %d ordered symbolic values and nil, %d probe values", len(domain), len(bounds)-1, len(probes))
		}
	}
	// a range that ENDS at the value nil (included) and starts above it holds nothing (nil is the lowest value);
	// Intersect produces such ranges (Eq(5) with Eq(nil)), and the scan reads a nil end of any range other than
	// the nil-only one as "unbounded": unless IsEmpty turns them away, the scan yields everything above the start
	{
		key := "Range.IsEmpty/a range that ends at the value nil above its start is empty"
		bad, undec := "", ""
		for _, s0 := range bounds {
			if s0 == 0 {
				continue
			}
			for _, si := range []bool{false, true} {
				r := absRange{s0, 0, si, true}
				emp, why := evalEmpty(r)
				if why != "" {
					undec = why
					continue
				}
				if !emp {
					bad = fmt.Sprintf("%s is not reported empty", r)
				}
			}
		}
		switch {
		case bad != "":
			o.add(VIOLATED, key, relPath(c, isEmpty.Pos()), "%s: no value lies between a non-nil start and the value nil, but the range scan takes a nil end for \"no upper bound\" and yields every entry from the start on - the scan of Eq(5) intersected with Eq(nil) returns every id at or above 5", bad)
		case undec != "":
			o.add(UNDECIDED, key, relPath(c, isEmpty.Pos()), "%s", undec)
		default:
			o.add(OK, key, relPath(c, isEmpty.Pos()), "reported empty for every start above nil, included or not")
		}
	}
	// Intersect
	{
		key := "Range.Intersect/keeps every value that lies in both ranges"
		keyM := "Range.Intersect/does not modify its operands"
		bad, undec, badM := "", "", ""
		n := 0
		for _, r1 := range domain {
			for _, r2 := range domain {
				common := false
				for _, v := range probes {
					if r1.member(v) && r2.member(v) {
						common = true
					}
				}
				te := newEval()
				p1, p2 := put(te, r1), put(te, r2)
				outs := te.Eval(inter, []aval{p1, p2}, 0)
				n++
				if len(outs) != 1 || outs[0].Panic || len(outs[0].Vals) != 1 || te.heapForked {
					undec = fmt.Sprintf("Intersect(%s, %s) was not decided by the operands", r1, r2)
					if len(outs) > 0 && outs[0].Panic {
						bad = fmt.Sprintf("Intersect(%s, %s) panics: %s", r1, r2, outs[0].Why)
					}
					continue
				}
				res, ok := get(te, outs[0].Vals[0])
				if !ok {
					undec = fmt.Sprintf("the result of Intersect(%s, %s) was not decided by the operands", r1, r2)
					continue
				}
				if a, ok := get(te, p1); !ok || a != r1 {
					badM = fmt.Sprintf("Intersect(%s, %s) changes its receiver to %s", r1, r2, a)
				}
				if a, ok := get(te, p2); !ok || a != r2 {
					badM = fmt.Sprintf("Intersect(%s, %s) changes its argument to %s", r1, r2, a)
				}
				if !common {
					continue
				}
				emp, why := evalEmpty(res)
				if why != "" {
					undec = why
					continue
				}
				for _, v := range probes {
					if r1.member(v) && r2.member(v) && (emp || !res.member(v)) {
						what := "does not contain it"
						if emp {
							what = "is reported empty"
						}
						bad = fmt.Sprintf("%s lies in %s and in %s, but their intersection %s %s", absRange{v, v, true, true}.String(), r1, r2, res, what)
					}
				}
			}
		}
		switch {
		case bad != "":
			o.add(VIOLATED, key, relPath(c, inter.Pos()), "%s", bad)
		case undec != "":
			o.add(UNDECIDED, key, relPath(c, inter.Pos()), "%s", undec)
		default:
			o.add(OK, key, relPath(c, inter.Pos()), "checked on all %d pairs of ranges over %d ordered symbolic values and nil (every relative order of four bounds), %d probe values", n, len(bounds)-1, len(probes))
		}
		switch {
		case badM != "":
			o.add(VIOLATED, keyM, relPath(c, inter.Pos()), "%s", badM)
		case undec == "":
			o.add(OK, keyM, relPath(c, inter.Pos()), "the operands are unchanged after every evaluated call")
		}
	}
	return softenUndecided(o.list)
}

// ---------------------------------------------------------------- PANIC3

// nonNegative: v is a constant >= 0, a len/cap, or a sum/product/min of such.
func nonNegative(v ssa.Value, depth int) bool {
	if depth > 6 {
		return false
	}
	if k, ok := constInt(v); ok {
		return k >= 0
	}
	switch x := v.(type) {
	case *ssa.Call:
		if g := x.Common().StaticCallee(); g != nil && len(g.Blocks) > 0 && g.Signature.Results().Len() == 1 {
			all := true
			for _, ret := range returnsOf(g) {
				rv, ok := returnedValue(ret, 0)
				if !ok {
					all = false
					continue
				}
				if nonNegative(rv, depth+1) {
					continue
				}
				// `if n < 0 { return 0 }; ...; return n`: the return is reached only with n >= 0
				var edges []edge
				ifEdges(g, func(cond ssa.Value, e edge) {
					if edgeNonNeg(e.From, e.to(), rv) {
						edges = append(edges, e)
					}
				})
				if !guardedBy(g, ret.Block(), edges) {
					all = false
				}
			}
			return all
		}
		if b, ok := x.Common().Value.(*ssa.Builtin); ok {
			switch b.Name() {
			case "len", "cap":
				return true
			case "min":
				for _, a := range x.Common().Args {
					if !nonNegative(a, depth+1) {
						return false
					}
				}
				return true
			case "max":
				for _, a := range x.Common().Args {
					if nonNegative(a, depth+1) {
						return true
					}
				}
			}
		}
	case *ssa.BinOp:
		switch x.Op {
		case token.ADD, token.MUL:
			return nonNegative(x.X, depth+1) && nonNegative(x.Y, depth+1)
		case token.QUO, token.SHR:
			return nonNegative(x.X, depth+1) && nonNegative(x.Y, depth+1)
		case token.REM, token.AND:
			return nonNegative(x.X, depth+1) || nonNegative(x.Y, depth+1)
		}
	case *ssa.Phi:
		for i, e := range x.Edges {
			if e == ssa.Value(x) || nonNegative(e, depth+1) {
				continue
			}
			if i < len(x.Block().Preds) && edgeNonNeg(x.Block().Preds[i], x.Block(), e) {
				continue // the clamp idiom: if v < 0 { v = 0 }
			}
			return false
		}
		return true
	case *ssa.Convert:
		if bt, ok := x.X.Type().Underlying().(*types.Basic); ok && bt.Info()&types.IsUnsigned != 0 {
			return true
		}
		return nonNegative(x.X, depth+1)
	}
	return false
}

// edgeNonNeg: on the CFG edge p -> succ, v is known to be >= 0 (p ends in a sign test of v).
func edgeNonNeg(p, succ *ssa.BasicBlock, v ssa.Value) bool {
	if len(p.Instrs) == 0 || len(p.Succs) != 2 || p.Succs[0] == p.Succs[1] {
		return false
	}
	i, ok := p.Instrs[len(p.Instrs)-1].(*ssa.If)
	if !ok {
		return false
	}
	bo, ok := i.Cond.(*ssa.BinOp)
	if !ok {
		return false
	}
	onTrue := succ == p.Succs[0]
	k, isK := constInt(bo.Y)
	if bo.X == v && isK {
		switch bo.Op {
		case token.LSS: // v < k false => v >= k
			return !onTrue && k >= 0
		case token.LEQ:
			return !onTrue && k >= -1
		case token.GEQ:
			return onTrue && k >= 0
		case token.GTR:
			return onTrue && k >= -1
		}
	}
	return false
}

// hasSubtraction: the computation of v (through phis, conversions, arithmetic
// and the returns of static callees with a body) involves a subtraction or a negation.
func (c *Ctx) hasSubtraction(v ssa.Value, depth int, seen map[ssa.Value]bool) bool {
	if v == nil || seen[v] || depth > 8 {
		return false
	}
	seen[v] = true
	switch x := v.(type) {
	case *ssa.BinOp:
		if x.Op == token.SUB {
			return true
		}
		return c.hasSubtraction(x.X, depth+1, seen) || c.hasSubtraction(x.Y, depth+1, seen)
	case *ssa.UnOp:
		if x.Op == token.SUB {
			return true
		}
		if x.Op == token.MUL {
			if al, ok := x.X.(*ssa.Alloc); ok {
				for _, sv := range storesTo(al) {
					if c.hasSubtraction(sv, depth+1, seen) {
						return true
					}
				}
			}
		}
	case *ssa.Phi:
		for _, e := range x.Edges {
			if c.hasSubtraction(e, depth+1, seen) {
				return true
			}
		}
	case *ssa.Convert:
		return c.hasSubtraction(x.X, depth+1, seen)
	case *ssa.Call:
		if g := x.Common().StaticCallee(); g != nil && len(g.Blocks) > 0 && c.IsLib(c.declared(g)) {
			for _, ret := range returnsOf(g) {
				if rv, ok := returnedValue(ret, 0); ok && c.hasSubtraction(rv, depth+1, seen) {
					return true
				}
			}
		}
	}
	return false
}

// PANIC3: the length and capacity handed to make are provably not negative
// (constants, len/cap, sums of those) or guarded by a sign test: a size
// computed by subtracting caller-controlled quantities (a counter minus the
// query's skip) makes `make` panic for a skip beyond the collection's size.
func rulePANIC3(c *Ctx) []Ob {
	o := newObs(c, "PANIC3")
	for _, fn := range c.LibFuncs {
		n := 0
		for _, b := range fn.Blocks {
			for _, in := range b.Instrs {
				ms, ok := in.(*ssa.MakeSlice)
				if !ok {
					continue
				}
				n++
				key := fmt.Sprintf("%s/make #%d", c.fname(fn), n)
				pos := relPath(c, ms.Pos())
				bad := ""
				for _, sz := range []ssa.Value{ms.Len, ms.Cap} {
					if sz == nil || nonNegative(sz, 0) {
						continue
					}
					if !c.hasSubtraction(sz, 0, map[ssa.Value]bool{}) {
						continue // a quantity obtained without subtraction (a size reported by a dependency, a counter)
					}
					// a sign test dominating the make: sz >= 0, sz > k, !(sz < 0)
					guards := guardEdges(fn, func(cond ssa.Value, branch bool) bool {
						bo, ok := cond.(*ssa.BinOp)
						if !ok {
							return false
						}
						x, y := bo.X, bo.Y
						op := bo.Op
						if y == sz || sameOrigin(y, sz) {
							x, y = y, x
							switch op {
							case token.LSS:
								op = token.GTR
							case token.LEQ:
								op = token.GEQ
							case token.GTR:
								op = token.LSS
							case token.GEQ:
								op = token.LEQ
							}
						}
						if x != sz && !sameOrigin(x, sz) {
							return false
						}
						if !nonNegative(y, 0) {
							return false
						}
						switch op {
						case token.GEQ, token.GTR:
							return branch // sz >= nonneg
						case token.LSS:
							return !branch // !(sz < nonneg) with y == 0 only
						}
						return false
					})
					if !guardedBy(fn, b, guards) {
						bad = describeValue(c, sz)
					}
				}
				if bad != "" {
					o.add(VIOLATED, key, pos, "the size given to make (%s) is neither a length, a constant, a sum of those, nor guarded by a sign test: when it is negative make panics", bad)
				} else {
					o.add(OK, key, pos, "sizes are lengths/constants or sign-tested")
				}
			}
		}
	}
	return o.list
}

// ---------------------------------------------------------------- ID4

// ID4: the _id check accepts exactly what the UUID parser accepts. In every
// library function that decides validity by calling uuid.FromString, a result
// of true is returned only under (or as) the test that the parser's error is
// nil: no fast path accepts a string the parser was not asked about.
func ruleID4(c *Ctx) []Ob {
	o := newObs(c, "ID4")
	n := 0
	for _, fn := range c.LibFuncs {
		res := fn.Signature.Results()
		if res.Len() != 1 || fn.Parent() != nil {
			continue
		}
		if bt, ok := res.At(0).Type().Underlying().(*types.Basic); !ok || bt.Kind() != types.Bool {
			continue
		}
		var perr []ssa.Value
		allCalls(fn, func(ci ssa.CallInstruction) {
			if cl, ok := ci.(*ssa.Call); ok && strings.HasSuffix(calleeFullName(cl), "uuid/v5.FromString") {
				perr = append(perr, resultValues(cl, 1)...)
			}
		})
		if len(perr) == 0 {
			continue
		}
		isErr := func(x ssa.Value) bool {
			for _, e := range perr {
				if x == e {
					return true
				}
			}
			return false
		}
		okEdges := nilEdges(fn, isErr)
		for _, ret := range returnsOf(fn) {
			rv, ok := returnedValue(ret, 0)
			if !ok {
				continue
			}
			for _, og := range origins(rv) {
				n++
				key := fmt.Sprintf("%s/accepts only what the parser accepts", c.fname(fn))
				if n > 1 {
					key = fmt.Sprintf("%s #%d", key, n)
				}
				pos := relPath(c, ret.Pos())
				if b, isC := constBool(og); isC {
					if !b {
						o.add(OK, key, pos, "returns false")
						continue
					}
					pb := ret.Block()
					if phi, isPhi := rv.(*ssa.Phi); isPhi {
						// the block the constant comes from
						for i, e := range phi.Edges {
							if e == og {
								pb = phi.Block().Preds[i]
							}
						}
					}
					if guardedBy(fn, pb, okEdges) {
						o.add(OK, key, pos, "true only after uuid.FromString returned no error")
					} else {
						o.add(VIOLATED, key, pos, "an _id is accepted on a path on which uuid.FromString has not accepted it: a string the parser rejects (misplaced hyphens, wrong length) becomes a stored _id")
					}
					continue
				}
				if x, tnil, isT := nilTest(og); isT && isErr(x) && tnil {
					o.add(OK, key, pos, "returns `err == nil` of uuid.FromString")
					continue
				}
				if in, isIn := og.(ssa.Instruction); isIn && guardedBy(fn, in.Block(), okEdges) {
					o.add(OK, key, pos, "a further restriction, evaluated only after uuid.FromString accepted the id")
					continue
				}
				o.add(VIOLATED, key, pos, "the verdict (%s) is not the outcome of uuid.FromString", describeValue(c, og))
			}
		}
	}
	if n == 0 {
		o.add(UNDECIDED, "validator", "-", "no boolean function deciding on uuid.FromString found")
		return softenUndecided(o.list)
	}
	return o.list
}

// ---------------------------------------------------------------- DEAD1

// DEAD1: the result of a library function that computes a value is not thrown
// away. `for _, e := range xs { e = convert(e) }` compiles, reads like an
// in-place update and changes nothing: in SSA the call's result has no use.
// Judged: static calls to library functions with exactly one non-error result,
// at least one of whose returns is not simply a parameter of the callee.
func ruleDEAD1(c *Ctx) []Ob {
	o := newObs(c, "DEAD1")
	produces := map[*ssa.Function]bool{}
	for _, g := range c.LibFuncs {
		res := g.Signature.Results()
		if res.Len() != 1 || isErrorType(res.At(0).Type()) || g.Parent() != nil {
			continue
		}
		for _, ret := range returnsOf(g) {
			rv, ok := returnedValue(ret, 0)
			if !ok {
				continue
			}
			for _, og := range origins(rv) {
				if _, isP := og.(*ssa.Parameter); !isP {
					produces[g] = true
				}
			}
		}
	}
	for _, fn := range c.LibFuncs {
		n := 0
		for _, b := range fn.Blocks {
			for _, in := range b.Instrs {
				call, ok := in.(*ssa.Call)
				if !ok {
					continue
				}
				g := staticCallee(call)
				if g == nil || !produces[c.declared(g)] {
					continue
				}
				// builders returning their receiver for chaining are exempt
				if g.Signature.Recv() != nil && types.Identical(g.Signature.Results().At(0).Type(), g.Signature.Recv().Type()) {
					continue
				}
				n++
				key := fmt.Sprintf("%s/%s #%d", c.fname(fn), shortCallee(call), n)
				if len(realReferrers(call)) == 0 {
					// a container handed over by reference is updated in place: its (identical) result may be dropped
					allRef := len(call.Common().Args) > 0
					for _, a := range call.Common().Args {
						switch stripIfaceOnly(a).Type().Underlying().(type) {
						case *types.Map, *types.Slice, *types.Pointer, *types.Chan:
						default:
							allRef = false
						}
					}
					if allRef {
						o.add(OK, key, relPath(c, call.Pos()), "result dropped, the argument is a map/slice/pointer updated in place")
						continue
					}
					// a method that writes through its receiver is called for that effect: its result (a flag
					// telling what it did) may be dropped
					if gd := c.declared(g); gd.Signature.Recv() != nil && len(gd.Params) > 0 {
						writes := false
						for _, gb := range gd.Blocks {
							for _, gi := range gb.Instrs {
								switch w := gi.(type) {
								case *ssa.MapUpdate:
									if sameOrigin(lostBase(w.Map), gd.Params[0]) || lostBase(w.Map) == ssa.Value(gd.Params[0]) {
										writes = true
									}
								case *ssa.Store:
									if lostBase(w.Addr) == ssa.Value(gd.Params[0]) {
										writes = true
									}
								}
							}
						}
						if writes {
							o.add(OK, key, relPath(c, call.Pos()), "result dropped, the method updates its receiver")
							continue
						}
					}
					o.add(VIOLATED, key, relPath(c, call.Pos()), "the value computed by %s is discarded (an assignment to a range or local copy that is never read): the conversion it performs does not happen", shortCallee(call))
				} else {
					o.add(OK, key, relPath(c, call.Pos()), "result used")
				}
			}
		}
	}
	return o.list
}

// ---------------------------------------------------------------- RNG4

// RNG4: the stop condition of the range scan, as a truth table. The scan
// function (the one in package index that takes a *Range and a direction flag
// and opens a cursor) is abstractly evaluated with the store and the byte
// comparisons replaced by injected outcomes: the cursor always has an entry,
// the entry belongs to the index, and bytes.Compare(entry, far bound) is -1, 0
// or +1. For each direction x far-bound shape (open, value excluded, value
// included, the nil-only range) x comparison outcome the entry must be handed
// to the consumer exactly when it lies inside the far bound.
func ruleRNG4(c *Ctx) []Ob {
	o := newObs(c, "RNG4")
	rt := c.libType("index", "Range")
	cmp := c.lookupFunc("internal", "Compare")
	var scan *ssa.Function
	var rev *ssa.Parameter
	var rng *ssa.Parameter
	for _, fn := range c.LibFuncs {
		if c.pkgRel(fn) != "index" || fn.Parent() != nil {
			continue
		}
		var r, g *ssa.Parameter
		allCalls(fn, func(call ssa.CallInstruction) {
			if c.isInvokeOf(call, "store", "Tx", "Cursor") {
				if u, ok := call.Common().Args[0].(*ssa.UnOp); ok && u.Op == token.NOT {
					if p, ok := u.X.(*ssa.Parameter); ok {
						r = p
					}
				}
			}
		})
		for _, p := range fn.Params {
			if pt, ok := p.Type().(*types.Pointer); ok && c.libNamedIs(pt.Elem(), "index", "Range") {
				g = p
			}
		}
		if r != nil && g != nil {
			scan, rev, rng = fn, r, g
		}
	}
	if scan == nil || rt == nil || cmp == nil {
		o.add(UNDECIDED, "scan", "-", "range scan function (takes *index.Range and a direction flag, opens a cursor) not found")
		return softenUndecided(o.list)
	}
	st := rt.Underlying().(*types.Struct)
	fi := map[string]int{}
	for i := 0; i < st.NumFields(); i++ {
		fi[st.Field(i).Name()] = i
	}
	tok := func(v int64) aval {
		if v == 0 {
			return aval{K: aTag, Tag: nil}
		}
		return aval{K: aTag, Tag: types.Typ[types.Int64], C: constant.MakeInt64(v)}
	}
	nilErr := aval{K: aTag, Tag: nil}
	type tc struct {
		reverse bool
		r       absRange
		cmp     int64
		emit    bool
		what    string
		nearHas bool // the entry carries the encoded near bound (it equals the bound's value)
	}
	var cases []tc
	for _, reverse := range []bool{false, true} {
		for _, shape := range []string{"open", "excluded", "included", "nil-only"} {
			for _, sign := range []int64{-1, 0, 1} {
				var r absRange
				inside := false
				beyond := sign > 0 // forward: entry > End
				if reverse {
					beyond = sign < 0 // reverse: entry < Start
				}
				switch shape {
				case "open":
					inside = true
				case "excluded":
					inside = !beyond && sign != 0
				case "included", "nil-only":
					inside = !beyond
				}
				if !reverse {
					switch shape {
					case "open":
						r = absRange{2, 0, true, false}
					case "excluded":
						r = absRange{2, 6, true, false}
					case "included":
						r = absRange{2, 6, true, true}
					case "nil-only":
						r = absRange{0, 0, true, true}
					}
				} else {
					switch shape {
					case "open":
						r = absRange{0, 6, false, true}
					case "excluded":
						r = absRange{2, 6, false, true}
					case "included":
						r = absRange{2, 6, true, true}
					case "nil-only":
						r = absRange{0, 0, true, true}
					}
				}
				dir := "ascending"
				if reverse {
					dir = "descending"
				}
				cases = append(cases, tc{reverse, r, sign, inside, fmt.Sprintf("%s scan of %s, entry compares %d with the far bound (%s)", dir, r, sign, shape), false})
			}
		}
		// the near bound: entries equal to an excluded near bound are skipped, all others are not
		for _, shape := range []string{"open", "excluded", "included", "nil-only"} {
			var r absRange
			switch shape {
			case "open":
				r = absRange{0, 6, false, true}
				if reverse {
					r = absRange{2, 0, true, false}
				}
			case "excluded":
				r = absRange{2, 6, false, true}
				if reverse {
					r = absRange{2, 6, true, false}
				}
			case "included":
				r = absRange{2, 6, true, true}
			case "nil-only":
				r = absRange{0, 0, true, true}
			}
			dir := "ascending"
			inside := int64(-1)
			if reverse {
				dir, inside = "descending", 1
			}
			cases = append(cases, tc{reverse, r, inside, shape != "excluded", fmt.Sprintf("%s scan of %s, the first entry equals the near bound (%s)", dir, r, shape), true})
		}
	}
	isFuncParamCall := func(call *ssa.Call) bool {
		if call.Common().IsInvoke() {
			return false
		}
		for _, og := range origins(call.Common().Value) {
			if p, ok := og.(*ssa.Parameter); ok && p.Parent() == scan {
				if _, isSig := p.Type().Underlying().(*types.Signature); isSig {
					return true
				}
			}
		}
		return false
	}
	// markers carried by abstract values, so that helpers and function literals the scan is split
	// into are followed: the consumer callback and the encoded bounds of the range
	const consumerMark, boundMark = 78, 77
	isMark := func(a aval, m int64) bool { return a.K == aConcrete && a.Idx == m }
	bad, undec := "", ""
	for _, tcase := range cases {
		tcase := tcase
		lostCmp := false
		nextSinceSeek, nearCalls := 0, 0
		var emits []int // the consumer was called after so many Next since the seek (on some explored path)
		te := c.newTagEval()
		te.heap = map[int64]map[int]aval{}
		te.maxVisits = 2
		rp := te.newObj(map[int]aval{fi["Start"]: tok(tcase.r.s), fi["End"]: tok(tcase.r.e), fi["StartIncluded"]: boolConst(tcase.r.si), fi["EndIncluded"]: boolConst(tcase.r.ei)})
		te.callHookEnv = func(call *ssa.Call, val func(ssa.Value) aval) ([]aval, bool) {
			cc := call.Common()
			switch {
			case c.isInvokeOf(call, "store", "Cursor", "Valid"):
				return []aval{boolConst(true)}, true
			case c.isInvokeOf(call, "store", "Cursor", "Item"):
				return []aval{{}, nilErr}, true
			case c.isInvokeOf(call, "store", "Cursor", "Seek"):
				nextSinceSeek, nearCalls = 0, 0
				return []aval{nilErr}, true
			case c.isInvokeOf(call, "store", "Cursor", "Close"):
				return []aval{nilErr}, true
			case c.isInvokeOf(call, "store", "Cursor", "Next"):
				nextSinceSeek++
				return []aval{}, true
			case c.isInvokeOf(call, "store", "Tx", "Cursor"):
				// some non-nil cursor (a known value, so that helpers taking it are evaluated)
				return []aval{{K: aConcrete, Tag: call.Common().Signature().Results().At(0).Type()}, nilErr}, true
			}
			if isFuncParamCall(call) || (!cc.IsInvoke() && isMark(val(cc.Value), consumerMark)) {
				emits = append(emits, nextSinceSeek)
				return []aval{{K: aConst, C: constant.MakeString(fmt.Sprintf("EMIT:%d", nextSinceSeek))}}, true
			}
			full := calleeFullName(call)
			switch full {
			case "bytes.Compare":
				// injected: sign of (entry compared with the bound); which argument is the bound?
				isBound := func(v ssa.Value) bool {
					for _, og := range c.paramSources(v, 0) {
						if ex, ok := og.(*ssa.Extract); ok {
							if cl, ok := ex.Tuple.(*ssa.Call); ok {
								for _, a := range cl.Common().Args {
									if a == ssa.Value(rng) {
										return true
									}
								}
							}
						}
					}
					return false
				}
				isBoundV := func(v ssa.Value) bool { return isBound(v) || isMark(val(v), boundMark) }
				switch {
				case isBoundV(cc.Args[1]) && !isBoundV(cc.Args[0]):
					return []aval{{K: aConst, C: constant.MakeInt64(tcase.cmp)}}, true
				case isBoundV(cc.Args[0]) && !isBoundV(cc.Args[1]):
					return []aval{{K: aConst, C: constant.MakeInt64(-tcase.cmp)}}, true
				}
				lostCmp = true
				return []aval{{}}, true
			case "bytes.HasPrefix":
				// the skip of an excluded near bound ends at once; the entry belongs to the index
				nearBound := false
				for _, og := range c.paramSources(cc.Args[1], 0) {
					if ex, ok := og.(*ssa.Extract); ok {
						if _, isCall := ex.Tuple.(*ssa.Call); isCall {
							nearBound = true
						}
					}
				}
				if nearBound || isMark(val(cc.Args[1]), boundMark) {
					// the first entry after the seek equals the near bound, the following ones do not
					nearCalls++
					return []aval{boolConst(tcase.nearHas && nearCalls == 1)}, true
				}
				return []aval{boolConst(true)}, true
			case "errors.Is":
				return []aval{{}}, true
			}
			if g := staticCallee(call); g != nil {
				g = c.declared(g)
				if g == cmp {
					a, b := val(cc.Args[0]), val(cc.Args[1])
					ta, tb := int64(0), int64(0)
					if a.K != aTag || b.K != aTag {
						return []aval{{}}, true
					}
					if a.Tag != nil && a.C != nil {
						ta, _ = constant.Int64Val(a.C)
					}
					if b.Tag != nil && b.C != nil {
						tb, _ = constant.Int64Val(b.C)
					}
					r := int64(0)
					if ta < tb {
						r = -1
					} else if ta > tb {
						r = 1
					}
					return []aval{{K: aConst, C: constant.MakeInt64(r)}}, true
				}
				// key builders and splitters: bytes in, bytes out - their results are opaque
				if c.IsLib(g) && g.Signature.Results().Len() >= 1 {
					allBytes, someBytes := true, false
					for i := 0; i < g.Signature.Results().Len(); i++ {
						t := g.Signature.Results().At(i).Type()
						if isStringOrBytes(t) {
							someBytes = true
						} else if !isErrorType(t) {
							allBytes = false
						}
					}
					if allBytes && someBytes {
						// the encoded bounds: what a helper given the range hands back
						fromRange := false
						for _, a := range cc.Args {
							if av := val(a); av.K == aPtr && av.Idx == rp.Idx {
								fromRange = true
							}
						}
						out := make([]aval, g.Signature.Results().Len())
						for i := range out {
							if isErrorType(g.Signature.Results().At(i).Type()) {
								out[i] = nilErr
							} else if fromRange {
								out[i] = aval{K: aConcrete, Tag: g.Signature.Results().At(i).Type(), Idx: boundMark}
							}
						}
						return out, true
					}
				}
			}
			return nil, false
		}
		args := make([]aval, len(scan.Params))
		for i, p := range scan.Params {
			switch p {
			case rev:
				args[i] = boolConst(tcase.reverse)
			case rng:
				args[i] = rp
			default:
				if _, isSig := p.Type().Underlying().(*types.Signature); isSig {
					args[i] = aval{K: aConcrete, Tag: p.Type(), Idx: consumerMark}
				}
			}
		}
		outs := te.Eval(scan, args, 0)
		emitted, panicked := false, ""
		firstAt := -1
		for _, oc := range outs {
			if oc.Panic {
				panicked = oc.Why
			}
			for _, v := range oc.Vals {
				if v.K == aConst && v.C != nil && v.C.Kind() == constant.String && strings.HasPrefix(constant.StringVal(v.C), "EMIT:") {
					emitted = true
					var k int
					fmt.Sscanf(constant.StringVal(v.C), "EMIT:%d", &k)
					if firstAt < 0 || k < firstAt {
						firstAt = k
					}
				}
			}
		}
		for _, k := range emits {
			emitted = true
			if firstAt < 0 || k < firstAt {
				firstAt = k
			}
		}
		if tcase.nearHas && emitted {
			// tcase.emit: the first entry (equal to the near bound) is delivered; otherwise it is skipped and the second one is
			wantAt := 1
			if tcase.emit {
				wantAt = 0
			}
			if firstAt != wantAt {
				switch {
				case te.unevaluated > 0:
					undec = tcase.what + ": a helper on the way was not followed by the evaluator"
				case tcase.emit:
					bad = tcase.what + ": the entry equal to the included near bound is skipped"
				default:
					bad = tcase.what + ": the entry equal to the excluded near bound is handed to the consumer"
				}
			}
			continue
		}
		switch {
		case lostCmp:
			undec = tcase.what + ": a byte comparison whose operands could not be told apart (entry / bound)"
		case len(outs) == 0:
			undec = tcase.what + ": no outcome"
		case panicked != "":
			undec = tcase.what + ": " + panicked
		case emitted != tcase.emit && te.unevaluated > 0:
			undec = tcase.what + ": a helper on the way was not followed by the evaluator"
		case emitted != tcase.emit:
			if tcase.emit {
				bad = tcase.what + ": the entry lies inside the bound but is not handed to the consumer"
			} else {
				bad = tcase.what + ": the entry lies outside the bound but is handed to the consumer"
			}
		}
	}
	key := c.fname(scan) + "/stop condition and near-bound skip (32 cases)"
	pos := relPath(c, scan.Pos())
	switch {
	case bad != "":
		o.add(VIOLATED, key, pos, "%s", bad)
	case undec != "":
		o.add(UNDECIDED, key, pos, "%s", undec)
	default:
		o.add(OK, key, pos, "both directions x {open, excluded, included, nil-only} x {-1, 0, +1}: the entry reaches the consumer exactly when it lies inside the far bound; entries equal to the near bound are skipped exactly when that bound is excluded")
	}
	return softenUndecided(o.list)
}

// ---------------------------------------------------------------- ADP10

// ADP10: badger's Iterator.Seek treats an empty target as "rewind": on a
// reverse iterator it lands on the LAST key, whereas the cursor contract (and
// the bbolt adapter) give no position for a target that sorts before every
// key. The adapter therefore must not hand an empty target to the iterator
// without looking at its length (and at the direction).
func ruleADP10(c *Ctx) []Ob {
	o := newObs(c, "ADP10")
	for _, fn := range c.storeImpls("Cursor", "Seek") {
		var bcall ssa.CallInstruction
		allCalls(fn, func(ci ssa.CallInstruction) {
			if strings.HasSuffix(calleeFullName(ci), "badger/v4.Iterator).Seek") {
				bcall = ci
			}
		})
		if bcall == nil {
			continue
		}
		var keyP ssa.Value
		for _, p := range fn.Params {
			if isStringOrBytes(p.Type()) {
				keyP = p
			}
		}
		key := c.fname(fn) + "/empty target on a reverse iterator"
		isLenOfKey := func(v ssa.Value) bool {
			for _, og := range origins(v) {
				if cl, ok := og.(*ssa.Call); ok {
					if b, ok := cl.Common().Value.(*ssa.Builtin); ok && b.Name() == "len" && (cl.Common().Args[0] == keyP || sameOrigin(cl.Common().Args[0], keyP)) {
						return true
					}
				}
			}
			return false
		}
		guards := guardEdges(fn, func(cond ssa.Value, branch bool) bool {
			bo, ok := cond.(*ssa.BinOp)
			if !ok {
				return false
			}
			k, isK := constInt(bo.Y)
			if !isLenOfKey(bo.X) || !isK {
				return false
			}
			switch {
			case bo.Op == token.GTR && k == 0, bo.Op == token.NEQ && k == 0, bo.Op == token.GEQ && k == 1:
				return branch
			case bo.Op == token.EQL && k == 0, bo.Op == token.LEQ && k == 0, bo.Op == token.LSS && k == 1:
				return !branch
			}
			return false
		})
		// a test of the direction that keeps reverse iterators away is as good
		if guardedBy(fn, bcall.Block(), guards) {
			o.add(OK, key, relPath(c, bcall.Pos()), "the iterator is sought only with a non-empty target")
			continue
		}
		// or: the empty case is handled on a separate path (any branch on len(key) dominating a different treatment)
		handled := false
		var dependsOnLen func(v ssa.Value, seen map[ssa.Value]bool) bool
		dependsOnLen = func(v ssa.Value, seen map[ssa.Value]bool) bool {
			if v == nil || seen[v] {
				return false
			}
			seen[v] = true
			if isLenOfKey(v) {
				return true
			}
			switch x := v.(type) {
			case *ssa.BinOp:
				return dependsOnLen(x.X, seen) || dependsOnLen(x.Y, seen)
			case *ssa.Phi:
				for _, e := range x.Edges {
					if dependsOnLen(e, seen) {
						return true
					}
				}
			case *ssa.Call:
				// a library predicate given the target: does its result look at the target's length?
				if g := staticCallee(x); g != nil && c.IsLib(c.declared(g)) {
					g = c.declared(g)
					for i, a := range x.Call.Args {
						if i < len(g.Params) && (a == keyP || sameOrigin(a, keyP)) && c.resultDependsOnLenOf(g, g.Params[i]) {
							return true
						}
					}
				}
			case *ssa.UnOp:
				if x.Op == token.NOT {
					return dependsOnLen(x.X, seen)
				}
				if x.Op == token.MUL {
					// a field of the cursor assigned earlier in this function
					if _, f, n := fieldOfAddr(x.X); n != nil {
						for _, b := range fn.Blocks {
							for _, in := range b.Instrs {
								if st, ok := in.(*ssa.Store); ok {
									if _, f2, n2 := fieldOfAddr(st.Addr); n2 != nil && types.Identical(n, n2) && f == f2 && dependsOnLen(st.Val, seen) {
										return true
									}
								}
							}
						}
					}
				}
			}
			return false
		}
		// a condition that decides whether the iterator is sought and that looks at len(target)
		ifEdges(fn, func(cond ssa.Value, e edge) {
			if !dependsOnLen(cond, map[ssa.Value]bool{}) {
				return
			}
			// one outcome of the test keeps the target away from the iterator
			if e.to() != bcall.Block() && !reachableFrom(e.to(), true)[bcall.Block()] {
				handled = true
			}
		})
		if handled {
			o.add(OK, key, relPath(c, bcall.Pos()), "the length of the target is examined before the iterator is sought")
		} else {
			o.add(VIOLATED, key, relPath(c, bcall.Pos()), "the target is handed to badger's Iterator.Seek without looking at its length: for an empty target a reverse iterator rewinds to the LAST key, while the contract (last key at or before the target) and the bbolt adapter give no position")
		}
	}
	if len(o.list) == 0 {
		o.add(INFO, "badger adapter", "-", "no store.Cursor.Seek implementation calls badger's Iterator.Seek")
	}
	return o.list
}

// resultDependsOnLenOf: some returned value of g is computed from len(p).
func (c *Ctx) resultDependsOnLenOf(g *ssa.Function, p *ssa.Parameter) bool {
	var dep func(v ssa.Value, seen map[ssa.Value]bool) bool
	dep = func(v ssa.Value, seen map[ssa.Value]bool) bool {
		if v == nil || seen[v] {
			return false
		}
		seen[v] = true
		switch x := v.(type) {
		case *ssa.Call:
			if b, ok := x.Common().Value.(*ssa.Builtin); ok && b.Name() == "len" {
				return x.Common().Args[0] == ssa.Value(p) || sameOrigin(x.Common().Args[0], p)
			}
		case *ssa.BinOp:
			return dep(x.X, seen) || dep(x.Y, seen)
		case *ssa.UnOp:
			return dep(x.X, seen)
		case *ssa.Phi:
			// a short-circuit && / || : the edges, and the conditions deciding which edge is taken
			for _, e := range x.Edges {
				if dep(e, seen) {
					return true
				}
			}
			for _, pb := range x.Block().Preds {
				if iff, ok := pb.Instrs[len(pb.Instrs)-1].(*ssa.If); ok && dep(iff.Cond, seen) {
					return true
				}
			}
		}
		return false
	}
	for _, ret := range returnsOf(g) {
		for i := range ret.Results {
			if rv, ok := returnedValue(ret, i); ok && dep(rv, map[ssa.Value]bool{}) {
				return true
			}
		}
	}
	return false
}

// ---------------------------------------------------------------- IDX8

// IDX8: the index catalog ([]index.Info of the collection record) is searched
// by bisection only if no writer moves its entries out of order. A helper with
// a sortedness precondition (sort.Search, slices.BinarySearch*) shared by
// create/has/drop is wrong as soon as one of them removes an entry by moving
// another one into the hole.
func ruleIDX8(c *Ctx) []Ob {
	o := newObs(c, "IDX8")
	isCatalog := func(t types.Type) bool {
		sl, ok := t.Underlying().(*types.Slice)
		return ok && c.libNamedIs(sl.Elem(), "index", "Info")
	}
	var bisect []ssa.CallInstruction
	var moves []ssa.Instruction
	for _, fn := range c.LibFuncs {
		if c.pkgRel(fn) != "" {
			continue
		}
		// does this function (or its closures' parent) read the catalog?
		touches := false
		for _, p := range rootFunc(fn).Params {
			if isCatalog(p.Type()) {
				touches = true
			}
		}
		for _, b := range fn.Blocks {
			for _, in := range b.Instrs {
				if v, ok := in.(ssa.Value); ok && isCatalog(v.Type()) {
					touches = true
				}
				for _, op := range in.Operands(nil) {
					if *op != nil && isCatalog((*op).Type()) {
						touches = true
					}
				}
			}
		}
		if !touches {
			continue
		}
		allCalls(fn, func(ci ssa.CallInstruction) {
			full := calleeFullName(ci)
			if full == "sort.Search" || full == "sort.Find" || strings.HasPrefix(full, "slices.BinarySearch") || strings.HasPrefix(full, "sort.Search") {
				bisect = append(bisect, ci)
			}
		})
		for _, b := range fn.Blocks {
			for _, in := range b.Instrs {
				st, ok := in.(*ssa.Store)
				if !ok {
					continue
				}
				ia, ok := st.Addr.(*ssa.IndexAddr)
				if !ok || !isCatalog(ia.X.Type()) {
					continue
				}
				// s[j] = s[k]: an element moved from another position of the same slice
				if ld, ok := st.Val.(*ssa.UnOp); ok && ld.Op == token.MUL {
					if ia2, ok := ld.X.(*ssa.IndexAddr); ok && isCatalog(ia2.X.Type()) && ia2.Index != ia.Index {
						moves = append(moves, st)
					}
				}
			}
		}
	}
	switch {
	case len(bisect) == 0:
		o.add(OK, "catalog lookup", "-", "the index catalog is not searched by bisection (no sortedness precondition to maintain)")
	case len(moves) > 0:
		o.add(VIOLATED, c.fname(bisect[0].Parent())+"/bisection over the index catalog", relPath(c, bisect[0].Pos()), "the catalog is searched by bisection, but %s moves an entry to another position at %s: after that the catalog is no longer sorted and existing indexes are not found (HasIndex false, CreateIndex succeeds twice, DropIndex fails)", c.fname(moves[0].Parent()), relPath(c, moves[0].Pos()))
	default:
		o.add(OK, c.fname(bisect[0].Parent())+"/bisection over the index catalog", relPath(c, bisect[0].Pos()), "no writer moves catalog entries out of order")
	}
	return o.list
}

// ---------------------------------------------------------------- IDX9

// IDX9: Index.Add writes and Index.Remove deletes on every successful path. An
// Add that returns nil without Tx.Set (a guard that "skips" entries it does not
// like) leaves a document without its index entry while reporting success.
func ruleIDX9(c *Ctx) []Ob {
	o := newObs(c, "IDX9")
	it := c.libType("index", "Index")
	if it == nil {
		o.add(UNDECIDED, "index.Index", "-", "interface not found")
		return o.list
	}
	ui, _ := it.Underlying().(*types.Interface)
	for _, spec := range []struct{ m, op string }{{"Add", "Set"}, {"Remove", "Delete"}} {
		for i := 0; ui != nil && i < ui.NumMethods(); i++ {
			if ui.Method(i).Name() != spec.m {
				continue
			}
			for _, fn := range c.libImpls(ui.Method(i)) {
				cut := map[*ssa.BasicBlock]bool{}
				for _, b := range fn.Blocks {
					for _, in := range b.Instrs {
						if call, ok := in.(*ssa.Call); ok && c.isInvokeOf(call, "store", "Tx", spec.op) {
							cut[b] = true
						}
					}
				}
				key := c.fname(fn) + "/Tx." + spec.op + " on every successful path"
				if bad := c.successWithoutCut(fn, []edge2{{nil, fn.Blocks[0]}}, cut, nil); bad != "" {
					o.add(VIOLATED, key, relPath(c, fn.Pos()), "%s is reachable without Tx.%s: the index silently misses (or keeps) the entry of a document while the operation succeeds", bad, spec.op)
				} else {
					o.add(OK, key, relPath(c, fn.Pos()), "every path that returns a nil error passed Tx.%s", spec.op)
				}
			}
		}
	}
	return o.list
}

// ---------------------------------------------------------------- EMPTY2

// EMPTY2: the omitempty predicate treats pointers and interfaces like
// encoding/json does: empty exactly when nil. (A pointer to a zero value is not
// empty: dropping it turns &0 into nil on the way back, since the decoder
// leaves a missing key's pointer nil.)
func ruleEMPTY2(c *Ctx) []Ob {
	o := newObs(c, "EMPTY2")
	found := false
	for _, fn := range c.LibFuncs {
		if c.pkgRel(fn) != "internal" || fn.Parent() != nil || len(fn.Params) != 1 || fn.Signature.Results().Len() != 1 {
			continue
		}
		if bt, ok := fn.Signature.Results().At(0).Type().Underlying().(*types.Basic); !ok || bt.Kind() != types.Bool {
			continue
		}
		if typeString(fn.Params[0].Type()) != "reflect.Value" {
			continue
		}
		// the emptiness test of omitempty is on the writer's side: what Normalize reaches
		if norm := c.lookupFunc("internal", "Normalize"); norm != nil && !c.staticReach(norm)[fn] {
			continue
		}
		hasIsNil := false
		allCalls(fn, func(ci ssa.CallInstruction) {
			if calleeFullName(ci) == "(reflect.Value).IsNil" {
				hasIsNil = true
			}
		})
		if !hasIsNil {
			continue
		}
		found = true
		for _, kn := range []string{"Ptr", "Interface"} {
			kv, ok := c.reflectKind(kn)
			key := fmt.Sprintf("%s/kind %s empty iff nil", c.fname(fn), kn)
			if !ok {
				o.add(UNDECIDED, key, "-", "reflect.%s not found", kn)
				continue
			}
			var es []edge
			ifEdges(fn, func(cond ssa.Value, e edge) {
				if bo, ok := cond.(*ssa.BinOp); ok && bo.Op == token.EQL && e.Branch {
					if k, ok := constInt(bo.Y); ok && k == kv {
						es = append(es, e)
					}
				}
			})
			if len(es) == 0 {
				o.add(VIOLATED, key, relPath(c, fn.Pos()), "no case for reflect.%s: a nil pointer/interface would not count as empty", kn)
				continue
			}
			bad := ""
			n := 0
			for _, ret := range returnsOf(fn) {
				hit := false
				for _, e := range es {
					if e.to() == ret.Block() || e.to().Dominates(ret.Block()) {
						hit = true
					}
				}
				if !hit {
					continue
				}
				n++
				rv, ok := returnedValue(ret, 0)
				if !ok {
					continue
				}
				for _, og := range origins(rv) {
					cl, isCall := og.(*ssa.Call)
					if !isCall || calleeFullName(cl) != "(reflect.Value).IsNil" {
						bad = describeValue(c, og)
					}
				}
			}
			switch {
			case n == 0:
				o.add(UNDECIDED, key, relPath(c, fn.Pos()), "no return tied to the case")
			case bad != "":
				o.add(VIOLATED, key, relPath(c, fn.Pos()), "for kind %s the verdict also depends on %s: encoding/json (which decodes the document back into the struct) treats a pointer/interface as empty only when it is nil", kn, bad)
			default:
				o.add(OK, key, relPath(c, fn.Pos()), "returns v.IsNil()")
			}
		}
	}
	if !found {
		o.add(UNDECIDED, "omitempty predicate", "-", "no func(reflect.Value) bool calling IsNil in package internal")
		return softenUndecided(o.list)
	}
	return o.list
}

// ---------------------------------------------------------------- PANIC4

// mayBeNilMap: v may be a nil map: the nil constant, a package-level map that
// is never assigned, the zero value of a field or variable, or the result of a
// library function / criteria visitor one of whose results may be.
func (c *Ctx) mayBeNilMap(v ssa.Value, depth int, seen map[ssa.Value]bool) (string, bool) {
	if v == nil || seen[v] || depth > 6 {
		return "", false
	}
	seen[v] = true
	for _, og := range c.paramSources(v, 0) {
		switch x := og.(type) {
		case *ssa.Const:
			if x.IsNil() {
				return "the nil map", true
			}
		case *ssa.MakeMap:
		case *ssa.UnOp:
			if x.Op != token.MUL {
				continue
			}
			if g, ok := x.X.(*ssa.Global); ok {
				// a package-level map nobody assigns is nil
				assigned := false
				for _, fn := range c.LibFuncs {
					for _, b := range fn.Blocks {
						for _, in := range b.Instrs {
							if st, ok := in.(*ssa.Store); ok && st.Addr == ssa.Value(g) {
								if !isNilConst(st.Val) {
									assigned = true
								}
							}
						}
					}
				}
				if !assigned {
					return "the package-level map " + g.Name() + ", which is never assigned (nil)", true
				}
			}
		case *ssa.TypeAssert:
			// the asserted result of a criteria visitor: any of its Visit* results
			if _, vis := c.visitCallOf(x.X); vis != nil {
				if n := c.visitorTypeOf(vis); n != nil {
					for _, m := range c.visitorMethods(n) {
						for _, ret := range returnsOf(m) {
							if rv, ok := returnedValue(ret, 0); ok {
								for _, ro := range origins(rv) {
									inner := stripIfaceOnly(ro)
									if _, isMap := inner.Type().Underlying().(*types.Map); !isMap {
										continue
									}
									if d, bad := c.mayBeNilMap(inner, depth+1, seen); bad {
										return d + " (returned by " + c.fname(m) + ")", true
									}
								}
							}
						}
					}
				}
			}
		case *ssa.Call:
			g := staticCallee(x)
			if g == nil || !c.IsLib(c.declared(g)) {
				continue
			}
			for _, ret := range returnsOf(c.declared(g)) {
				if rv, ok := returnedValue(ret, 0); ok {
					if _, isMap := rv.Type().Underlying().(*types.Map); isMap {
						if isNilConst(rv) {
							continue // an explicit `return nil` of a helper: whether that path is feasible for this caller is not decided here
						}
						if d, bad := c.mayBeNilMap(rv, depth+1, seen); bad {
							return d + " (returned by " + c.fname(c.declared(g)) + ")", true
						}
					}
				}
			}
		}
	}
	return "", false
}

// PANIC4: no assignment into a map that may be nil. Every m[k] = v in the
// library writes into a map made in the same function, or into one whose every
// source (through parameters, helper results and the results of criteria
// visitors) is a made map, or is guarded by a nil test.
func rulePANIC4(c *Ctx) []Ob {
	o := newObs(c, "PANIC4")
	for _, fn := range c.LibFuncs {
		n := 0
		for _, b := range fn.Blocks {
			for _, in := range b.Instrs {
				mu, ok := in.(*ssa.MapUpdate)
				if !ok {
					continue
				}
				n++
				key := fmt.Sprintf("%s/map assignment #%d", c.fname(fn), n)
				pos := relPath(c, mu.Pos())
				d, bad := c.mayBeNilMap(mu.Map, 0, map[ssa.Value]bool{})
				if !bad {
					o.add(OK, key, pos, "the map written is made before it is written (no nil source found)")
					continue
				}
				if guardedBy(fn, b, nonNilEdges(fn, func(x ssa.Value) bool { return x == mu.Map || sameOrigin(x, mu.Map) })) {
					o.add(OK, key, pos, "guarded by a nil test of the map")
					continue
				}
				o.add(VIOLATED, key, pos, "the map assigned to may be %s: assignment to an entry of a nil map panics", d)
			}
		}
	}
	return o.list
}

// ---------------------------------------------------------------- PANIC5

// depPanics lists, for a dependency function called by an adapter, the explicit
// panic sites in its own body (not in its callees).
func (c *Ctx) depPanics(g *ssa.Function) []string {
	if g == nil || g.Pkg == nil {
		return nil
	}
	if len(g.Blocks) == 0 {
		g.Pkg.Build()
	}
	var out []string
	for _, b := range g.Blocks {
		for _, in := range b.Instrs {
			pn, ok := in.(*ssa.Panic)
			if !ok || !pn.Pos().IsValid() {
				continue
			}
			what := "a value"
			for _, og := range origins(pn.X) {
				if gl := globalLoad(og); gl != nil {
					what = gl.Name()
				}
				if mi, ok := og.(*ssa.MakeInterface); ok {
					if gl := globalLoad(mi.X); gl != nil {
						what = gl.Name()
					}
					if k, ok := mi.X.(*ssa.Const); ok && k.Value != nil {
						what = k.Value.ExactString()
					}
				}
			}
			out = append(out, what)
		}
	}
	return out
}

// PANIC5: the store adapters do not walk into the explicit panics of their
// backends. For every dependency function an adapter calls directly, the
// explicit panic sites of that function's own body are listed; each must be
// tied to a reason why the adapter cannot reach it, or to a guard in the
// adapter. (badger's Txn.NewIterator panics with ErrDBClosed once the database
// is closed, whereas every other entry point returns that error.)
func rulePANIC5(c *Ctx) []Ob {
	o := newObs(c, "PANIC5")
	n := 0
	seen := map[string]bool{}
	for _, fn := range c.LibFuncs {
		if !strings.HasPrefix(c.pkgRel(fn), "store/") {
			continue
		}
		allCalls(fn, func(ci ssa.CallInstruction) {
			g := staticCallee(ci)
			if g == nil || c.IsLib(c.declared(g)) || g.Pkg == nil || !strings.Contains(g.Pkg.Pkg.Path(), ".") {
				return
			}
			ps := c.depPanics(g)
			if len(ps) == 0 {
				return
			}
			full := calleeFullName(ci)
			key := c.fname(fn) + "/" + shortCallee(ci) + " can panic"
			if seen[key] {
				return
			}
			seen[key] = true
			n++
			if tie, ok := depPanicTies[full]; ok {
				// the guard named in the table must really be there
				switch tie.guard {
				case "@cursor-close":
					if site := c.unclosedCursor(); site != "" {
						o.add(VIOLATED, key, relPath(c, ci.Pos()), "%s panics (%s) and %s", full, tie.why, site)
						return
					}
					o.add(OK, key, relPath(c, ci.Pos()), "panic sites %s: %s", strings.Join(ps, ", "), tie.why)
					return
				case "@no-strict-mode":
					strict := ""
					for _, f := range c.LibFuncs {
						for _, b := range f.Blocks {
							for _, in := range b.Instrs {
								if st, ok := in.(*ssa.Store); ok {
									if _, fld, n := fieldOfAddr(st.Addr); fld == "StrictMode" && n != nil {
										strict = relPath(c, st.Pos())
									}
								}
							}
						}
					}
					if strict != "" {
						o.add(VIOLATED, key, relPath(c, ci.Pos()), "%s: but StrictMode is assigned at %s", tie.why, strict)
						return
					}
					o.add(OK, key, relPath(c, ci.Pos()), "panic sites %s: %s", strings.Join(ps, ", "), tie.why)
					return
				}
				if tie.guard != "" {
					guarded := false
					for f := range c.staticReachWithCallers(fn) {
						allCalls(f, func(cj ssa.CallInstruction) {
							if strings.HasSuffix(calleeFullName(cj), tie.guard) {
								guarded = true
							}
						})
					}
					if !guarded {
						o.add(VIOLATED, key, relPath(c, ci.Pos()), "%s panics with %s (%s); the adapter does not establish the precondition (no call of %s on the way from Begin)", full, strings.Join(ps, ", "), tie.why, tie.guard)
						return
					}
				}
				o.add(OK, key, relPath(c, ci.Pos()), "panic sites %s: %s", strings.Join(ps, ", "), tie.why)
				return
			}
			o.add(UNDECIDED, key, relPath(c, ci.Pos()), "%s contains explicit panic sites (%s) that no entry of the table accounts for", full, strings.Join(ps, ", "))
		})
	}
	if n == 0 {
		o.add(OK, "adapters", "-", "no dependency function called by an adapter has an explicit panic in its own body")
	}
	return o.list
}

type depPanicTie struct {
	why   string
	guard string // suffix of the full name of a call that must occur in the adapter (in the function or its transaction opener)
}

// depPanicTies: read in the dependency's source, one line each.
var depPanicTies = map[string]depPanicTie{
	"(*github.com/dgraph-io/badger/v4.Txn).Discard":     {"panics when an iterator of the transaction is still open: every library function that obtains a store.Cursor defers its Close, and deferred calls run before the caller's deferred Rollback / before its Commit returns to the opener", "@cursor-close"},
	"(*go.etcd.io/bbolt.Tx).Commit":                     {"asserts that the transaction is not a managed one (the adapter begins its transactions itself with DB.Begin) and panics on a failed consistency check only in StrictMode, which the adapter does not enable", "@no-strict-mode"},
	"(*github.com/dgraph-io/badger/v4.Txn).NewIterator": {"panics with ErrDiscardedTxn on a discarded transaction (the adapter never uses a transaction after Commit/Rollback: TX2 commit-is-last) and with ErrDBClosed when the database has been closed: Begin must refuse a closed database", "badger/v4.DB).IsClosed"},
}

// staticReachWithCallers: fn, its static callees, and the adapter functions of the same package (the opener that
// produced the receiver is one of them).
func (c *Ctx) staticReachWithCallers(fn *ssa.Function) map[*ssa.Function]bool {
	out := map[*ssa.Function]bool{}
	for f := range c.staticReach(fn) {
		out[f] = true
	}
	for _, f := range c.LibFuncs {
		if c.pkgRel(f) == c.pkgRel(fn) {
			out[f] = true
		}
	}
	return out
}

// unclosedCursor: a library function that obtains a store.Cursor without deferring its Close.
func (c *Ctx) unclosedCursor() string {
	for _, fn := range c.LibFuncs {
		if strings.HasPrefix(c.pkgRel(fn), "store") {
			continue
		}
		bad := ""
		allCalls(fn, func(ci ssa.CallInstruction) {
			call, ok := ci.(*ssa.Call)
			if !ok || !c.isInvokeOf(call, "store", "Tx", "Cursor") {
				return
			}
			closed := false
			for _, cv := range resultValues(call, 0) {
				for _, r := range realReferrers(cv) {
					if d, ok := r.(*ssa.Defer); ok && c.isInvokeOf(d, "store", "Cursor", "Close") {
						closed = true
					}
				}
			}
			// ownership handed on: the cursor is kept in an object the function returns, and every
			// library caller defers a method of that object which closes it
			if !closed {
				kept := false
				for _, cv := range resultValues(call, 0) {
					for _, r := range realReferrers(cv) {
						if st, ok := r.(*ssa.Store); ok && st.Val == cv {
							if _, f, _ := fieldOfAddr(st.Addr); f != "" {
								kept = true
							}
						}
					}
				}
				if kept {
					sites := c.staticCallers(fn)
					all := len(sites) > 0
					for _, s := range sites {
						sc, ok := s.(*ssa.Call)
						if !ok {
							all = false
							continue
						}
						deferred := false
						for _, rv := range resultValues(sc, 0) {
							for _, r := range realReferrers(rv) {
								d, ok := r.(*ssa.Defer)
								if !ok {
									continue
								}
								if g := staticCallee(d); g != nil && c.IsLib(c.declared(g)) {
									allCalls(c.declared(g), func(gi ssa.CallInstruction) {
										if c.isInvokeOf(gi, "store", "Cursor", "Close") {
											deferred = true
										}
									})
								}
							}
						}
						if !deferred {
							all = false
						}
					}
					closed = all
				}
			}
			if !closed {
				bad = c.fname(fn) + " obtains a cursor at " + relPath(c, call.Pos()) + " without deferring its Close"
			}
		})
		if bad != "" {
			return bad
		}
	}
	return ""
}

// ---------------------------------------------------------------- NORM3 / NORM4

// NORM3: field references are recognised wherever the evaluator resolves them.
// If an operator's evaluation applies the operand resolver (the function that
// replaces Field(x) / "$x" by doc.Get(x)) to the ELEMENTS of a list operand
// (In, Contains), then the literal-normalising visitor must apply the
// field-reference predicate to list elements too - otherwise internal.Normalize
// is handed a *field inside the list and turns it into an empty object, and
// `In(Field("b"))` silently matches nothing through the DB while Satisfy on the
// caller's criteria is right.
func ruleNORM3(c *Ctx) []Ob {
	o := newObs(c, "NORM3")
	getM := c.lookupMethod("document", "Document", "Get")
	isField := c.lookupFunc("query", "IsField")
	normalize := c.lookupFunc("internal", "Normalize")
	// the resolver: func(*Document, interface{}) interface{} calling Document.Get
	var resolver *ssa.Function
	for _, fn := range c.LibFuncs {
		if c.pkgRel(fn) != "query" || fn.Parent() != nil || len(fn.Params) != 2 || fn.Signature.Results().Len() != 1 || !c.isDocPtr(fn.Params[0].Type()) {
			continue
		}
		if _, ok := fn.Params[1].Type().Underlying().(*types.Interface); !ok {
			continue
		}
		calls := false
		allCalls(fn, func(ci ssa.CallInstruction) {
			if g := staticCallee(ci); g != nil && getM != nil && c.declared(g) == getM {
				calls = true
			}
		})
		if calls {
			resolver = fn
		}
	}
	if resolver == nil || isField == nil || normalize == nil {
		o.add(UNDECIDED, "model", "-", "operand resolver, query.IsField or internal.Normalize not found")
		return softenUndecided(o.list)
	}
	// is v an element of a []interface{} (range / index)?
	isListElem := func(v ssa.Value) bool {
		for _, og := range origins(v) {
			if l, ok := og.(*ssa.UnOp); ok && l.Op == token.MUL {
				if ia, ok := l.X.(*ssa.IndexAddr); ok {
					if sl, ok := ia.X.Type().Underlying().(*types.Slice); ok {
						if _, isI := sl.Elem().Underlying().(*types.Interface); isI {
							return true
						}
					}
				}
			}
		}
		return false
	}
	elemResolved := ""
	for _, fn := range c.LibFuncs {
		if c.pkgRel(fn) != "query" {
			continue
		}
		allCalls(fn, func(ci ssa.CallInstruction) {
			if g := staticCallee(ci); g != nil && c.declared(g) == resolver && len(ci.Common().Args) == 2 && isListElem(ci.Common().Args[1]) {
				elemResolved = c.fname(fn)
			}
		})
	}
	if elemResolved == "" {
		o.add(OK, "list operands", "-", "no operator resolves field references inside list operands: only top-level operands can be references")
		return o.list
	}
	// the normalising visitors
	var visitors []*types.Named
	if vi := c.visitorIface(); vi != nil {
		for _, sp := range c.LibPkgs {
			for _, mem := range sp.Members {
				if tn, ok := mem.(*ssa.Type); ok {
					if n, ok := tn.Type().(*types.Named); ok && types.Implements(types.NewPointer(n), vi) {
						for _, m := range c.visitorMethods(n) {
							for f := range c.staticReach(m) {
								if f == normalize {
									visitors = append(visitors, n)
								}
							}
						}
					}
				}
			}
		}
	}
	seenV := map[*types.Named]bool{}
	for _, V := range visitors {
		if seenV[V] {
			continue
		}
		seenV[V] = true
		elemChecked := false
		for _, m := range c.visitorMethods(V) {
			for f := range c.staticReach(m) {
				if c.pkgRel(f) != "" && c.pkgRel(f) != "query" {
					continue
				}
				allCalls(f, func(ci ssa.CallInstruction) {
					if g := staticCallee(ci); g != nil && c.declared(g) == isField && len(ci.Common().Args) == 1 {
						a := ci.Common().Args[0]
						if isListElem(a) {
							elemChecked = true
						}
						// or the test sits in a per-element helper that is called with the elements of a list
						for _, og := range origins(a) {
							p, ok := og.(*ssa.Parameter)
							if !ok {
								continue
							}
							idx := paramIndex(p.Parent(), p)
							for _, cs := range c.staticCallers(p.Parent()) {
								if idx >= 0 && idx < len(cs.Common().Args) && isListElem(cs.Common().Args[idx]) {
									elemChecked = true
								}
							}
						}
					}
				})
			}
		}
		key := V.Obj().Name() + "/field references inside list operands"
		if elemChecked {
			o.add(OK, key, "-", "the elements of a list operand are tested with query.IsField before being normalised (%s resolves references element by element)", elemResolved)
		} else {
			o.add(VIOLATED, key, "-", "%s resolves field references in the elements of a list operand, but the normalising visitor tests only the whole operand with query.IsField: a Field(name) inside In(...)/Contains(...) is handed to internal.Normalize, which follows the pointer and turns the reference into an empty object - the query then compares with {} instead of the other field", elemResolved)
		}
	}
	if len(seenV) == 0 {
		o.add(UNDECIDED, "visitor", "-", "no criteria visitor reaching internal.Normalize")
		return softenUndecided(o.list)
	}
	return o.list
}

// NORM4: every exported operation that hands a caller's query to the planner
// normalises its criteria first (the planner and the index ranges only know
// canonical operand types: an int literal reaching the range code panics in
// the key encoder).
func ruleNORM4(c *Ctx) []Ob {
	o := newObs(c, "NORM4")
	normalize := c.lookupFunc("internal", "Normalize")
	// the query normaliser: a root function taking and returning *Query that reaches internal.Normalize
	isQ := func(t types.Type) bool {
		pt, ok := t.(*types.Pointer)
		return ok && c.libNamedIs(pt.Elem(), "query", "Query")
	}
	var qnorm []*ssa.Function
	for _, fn := range c.LibFuncs {
		if c.pkgRel(fn) != "" || fn.Parent() != nil || len(fn.Params) != 1 || !isQ(fn.Params[0].Type()) || fn.Signature.Results().Len() < 1 || !isQ(fn.Signature.Results().At(0).Type()) {
			continue
		}
		reaches := c.staticReach(fn)[normalize]
		// or through a criteria visitor allocated here (or in a helper) whose methods reach it
		var bodies []*ssa.BasicBlock
		for f := range c.staticReach(fn) {
			if c.pkgRel(f) == "" {
				bodies = append(bodies, f.Blocks...)
			}
		}
		for _, b := range bodies {
			for _, in := range b.Instrs {
				al, ok := in.(*ssa.Alloc)
				if !ok {
					continue
				}
				n, ok := al.Type().Underlying().(*types.Pointer).Elem().(*types.Named)
				if !ok {
					continue
				}
				if vi := c.visitorIface(); vi != nil && types.Implements(types.NewPointer(n), vi) {
					for _, m := range c.visitorMethods(n) {
						if c.staticReach(m)[normalize] {
							reaches = true
						}
					}
				}
			}
		}
		if reaches {
			qnorm = append(qnorm, fn)
		}
	}
	// the planner: root functions taking a *Query that build a plan input node
	planners := map[*ssa.Function]bool{}
	inputs := c.inputNodeTypes()
	for _, fn := range c.LibFuncs {
		if c.pkgRel(fn) != "" || fn.Parent() != nil {
			continue
		}
		takesQ := false
		for _, p := range fn.Params {
			if isQ(p.Type()) {
				takesQ = true
			}
		}
		if !takesQ {
			continue
		}
		allocsInput := func(f *ssa.Function) bool {
			for _, b := range f.Blocks {
				for _, in := range b.Instrs {
					if al, ok := in.(*ssa.Alloc); ok {
						if n, ok := al.Type().Underlying().(*types.Pointer).Elem().(*types.Named); ok {
							for _, it := range inputs {
								if it == n {
									return true
								}
							}
						}
					}
				}
			}
			return false
		}
		if allocsInput(fn) {
			planners[fn] = true
		}
		// or builds it through a constructor
		allCalls(fn, func(ci ssa.CallInstruction) {
			if g := staticCallee(ci); g != nil && c.IsLib(c.declared(g)) && c.pkgRel(c.declared(g)) == "" && allocsInput(c.declared(g)) {
				planners[fn] = true
			}
		})
	}
	var planner *ssa.Function
	for f := range planners {
		planner = f
	}
	reachesPlanner := func(g *ssa.Function) bool {
		for f := range c.staticReach(g) {
			if planners[f] {
				return true
			}
		}
		return false
	}
	if len(qnorm) == 0 || planner == nil {
		o.add(UNDECIDED, "model", "-", "query normaliser or planner not found")
		return softenUndecided(o.list)
	}
	isNorm := func(g *ssa.Function) bool {
		for _, f := range qnorm {
			if f == g {
				return true
			}
		}
		return false
	}
	for _, fn := range c.LibFuncs {
		if c.pkgRel(fn) != "" || fn.Parent() != nil || fn.Object() == nil || !fn.Object().Exported() {
			continue
		}
		var qp *ssa.Parameter
		for _, p := range fn.Params {
			if isQ(p.Type()) {
				qp = p
			}
		}
		if qp == nil {
			continue
		}
		// calls that hand a query towards the planner (in the function or in its closures)
		bad := ""
		n := 0
		var scope []*ssa.Function
		var addScope func(f *ssa.Function)
		addScope = func(f *ssa.Function) {
			scope = append(scope, f)
			for _, a := range f.AnonFuncs {
				addScope(a)
			}
		}
		addScope(fn)
		for _, sf := range scope {
			allCalls(sf, func(ci ssa.CallInstruction) {
				g := staticCallee(ci)
				if g == nil || !c.IsLib(c.declared(g)) {
					return
				}
				g = c.declared(g)
				if isNorm(g) || !reachesPlanner(g) {
					return
				}
				if g.Object() != nil && g.Object().Exported() && g.Parent() == nil && c.pkgRel(g) == "" {
					return // another exported operation: judged there
				}
				for _, a := range ci.Common().Args {
					if !isQ(a.Type()) {
						continue
					}
					n++
					okAll := true
					for _, og := range origins(a) {
						ex, isEx := og.(*ssa.Extract)
						var call *ssa.Call
						if isEx {
							call, _ = ex.Tuple.(*ssa.Call)
						} else {
							call, _ = og.(*ssa.Call)
						}
						if call == nil {
							// the parameter itself, spilled into a captured variable that the normalised query
							// overwrites before the closure is made (q, err := normalizeCriteria(q); view(func...))
							if pp, isP := og.(*ssa.Parameter); isP && pp.Parent() == fn && c.overwrittenByNormalised(fn, sf, ci, pp, isNorm) {
								continue
							}
							okAll = false
							continue
						}
						h := staticCallee(call)
						if h == nil {
							okAll = false
							continue
						}
						h = c.declared(h)
						if isNorm(h) {
							continue
						}
						// a query derived (Limit, Skip, ...) from a normalised one
						derived := false
						if len(call.Common().Args) > 0 {
							for _, o2 := range origins(call.Common().Args[0]) {
								if ex2, ok := o2.(*ssa.Extract); ok {
									if c2, ok := ex2.Tuple.(*ssa.Call); ok {
										if h2 := staticCallee(c2); h2 != nil && isNorm(c.declared(h2)) {
											derived = true
										}
									}
								}
							}
						}
						if !derived {
							okAll = false
						}
					}
					if !okAll {
						bad = relPath(c, ci.Pos())
					}
				}
			})
		}
		if n == 0 {
			continue
		}
		key := c.fname(fn) + "/criteria normalised before planning"
		if bad != "" {
			o.add(VIOLATED, key, bad, "the caller's query reaches the planner without having gone through %s: literals keep the Go type they were supplied with (an int, a float32), which the index range code and the comparator do not expect - a panic in the key encoder with an index on the field, different results without", c.fname(qnorm[0]))
		} else {
			o.add(OK, key, relPath(c, fn.Pos()), "the query handed towards the planner is the result of %s", c.fname(qnorm[0]))
		}
	}
	return o.list
}

// ---------------------------------------------------------------- ID5

// ID5: an _id that is accepted has the length the index key decoder assumes.
// Index keys end with the document id and the scan cuts a CONSTANT number of
// bytes off the end of the key to recover it (KEY7); uuid.FromString also
// accepts the 32-digit, braced and urn: spellings (32, 34, 38, 41, 45
// characters). The validator must therefore accept the canonical form only: a
// result of true is reached only where the id was found equal to the parsed
// UUID's String() (36 characters), or its length was compared with the
// decoder's constant.
func ruleID5(c *Ctx) []Ob {
	o := newObs(c, "ID5")
	// the decoder's constant: key[len(key)-N:] in package index
	var N int64 = -1
	for _, fn := range c.LibFuncs {
		if c.pkgRel(fn) != "index" {
			continue
		}
		for _, b := range fn.Blocks {
			for _, in := range b.Instrs {
				sl, ok := in.(*ssa.Slice)
				if !ok || sl.Low == nil || sl.High != nil {
					continue
				}
				if bo, ok := sl.Low.(*ssa.BinOp); ok && bo.Op == token.SUB {
					if k, ok := constInt(bo.Y); ok {
						if lc, ok := bo.X.(*ssa.Call); ok {
							if bi, ok := lc.Common().Value.(*ssa.Builtin); ok && bi.Name() == "len" {
								N = k
							}
						}
					}
				}
			}
		}
	}
	if N < 0 {
		o.add(INFO, "decoder", "-", "the index key decoder does not cut a constant-length id off the key")
		return o.list
	}
	n := 0
	for _, fn := range c.LibFuncs {
		res := fn.Signature.Results()
		if res.Len() < 1 || fn.Parent() != nil || len(fn.Params) != 1 || !isStringType(fn.Params[0].Type()) {
			continue
		}
		// the verdict: the (last) boolean result - `func(id string) bool` as well as `func(id string) (string, bool)`
		vi := -1
		for i := 0; i < res.Len(); i++ {
			if bt, ok := res.At(i).Type().Underlying().(*types.Basic); ok && bt.Kind() == types.Bool {
				vi = i
			}
		}
		if vi < 0 {
			continue
		}
		parses := false
		allCalls(fn, func(ci ssa.CallInstruction) {
			if strings.HasSuffix(calleeFullName(ci), "uuid/v5.FromString") {
				parses = true
			}
		})
		if !parses {
			continue
		}
		n++
		id := fn.Params[0]
		// edges on which the id is known to be canonical / of length N
		canon := guardEdges(fn, func(cond ssa.Value, branch bool) bool {
			bo, ok := cond.(*ssa.BinOp)
			if !ok || (bo.Op != token.EQL && bo.Op != token.NEQ) {
				return false
			}
			want := bo.Op == token.EQL
			isID := func(v ssa.Value) bool { return v == ssa.Value(id) || sameOrigin(v, id) }
			isCanon := func(v ssa.Value) bool {
				for _, og := range origins(v) {
					if cl, ok := og.(*ssa.Call); ok && strings.HasSuffix(calleeFullName(cl), "uuid/v5.UUID).String") {
						return true
					}
				}
				return false
			}
			isLenID := func(v ssa.Value) bool {
				if cl, ok := v.(*ssa.Call); ok {
					if bi, ok := cl.Common().Value.(*ssa.Builtin); ok && bi.Name() == "len" && isID(cl.Common().Args[0]) {
						return true
					}
				}
				return false
			}
			if (isID(bo.X) && isCanon(bo.Y)) || (isID(bo.Y) && isCanon(bo.X)) {
				return branch == want
			}
			// (a test of the length alone is not enough: the parser reads hex digits in either case, so 36
			// characters in upper case are another spelling of an id the lower-case spelling already denotes)
			_ = isLenID
			return false
		})
		key := c.fname(fn) + "/accepts canonical ids only"
		bad := ""
		for _, ret := range returnsOf(fn) {
			rv, ok := returnedValue(ret, vi)
			if !ok {
				continue
			}
			for _, og := range origins(rv) {
				if b, isC := constBool(og); isC && !b {
					continue
				}
				pb := ret.Block()
				if phi, isPhi := rv.(*ssa.Phi); isPhi {
					for i, e := range phi.Edges {
						if e == og {
							pb = phi.Block().Preds[i]
						}
					}
				}
				// the returned value is itself the canonical test, or it is produced under it
				isTest := false
				if bo, ok := og.(*ssa.BinOp); ok && bo.Op == token.EQL {
					for _, e := range []ssa.Value{bo.X, bo.Y} {
						for _, eo := range origins(e) {
							if cl, ok := eo.(*ssa.Call); ok && strings.HasSuffix(calleeFullName(cl), "uuid/v5.UUID).String") {
								isTest = true
							}
						}
					}
				}
				if !isTest && !guardedBy(fn, pb, canon) {
					bad = relPath(c, ret.Pos())
				}
			}
		}
		if bad != "" {
			o.add(VIOLATED, key, bad, "an id is accepted without having been found in canonical form: uuid.FromString also accepts spellings of 32, 34, 38, 41 and 45 characters, while the index scan recovers the id as the last %d bytes of the key - such a document is stored, counted, and silently missing from (or mis-attributed by) every query served through an index", N)
		} else {
			o.add(OK, key, relPath(c, fn.Pos()), "accepted ids equal their parsed UUID's String() / have the %d characters the index key decoder cuts off", N)
		}
	}
	if n == 0 {
		o.add(UNDECIDED, "validator", "-", "no boolean function of a string deciding on uuid.FromString found")
		return softenUndecided(o.list)
	}
	return o.list
}

// ---------------------------------------------------------------- NIL3 / IMP2 / IMP3

// decodedInto: slices (by their alloc) a JSON decoder fills in fn.
func decodedTargets(fn *ssa.Function) []ssa.Value {
	var out []ssa.Value
	allCalls(fn, func(ci ssa.CallInstruction) {
		full := calleeFullName(ci)
		args := ci.Common().Args
		switch full {
		case "(*encoding/json.Decoder).Decode":
			if len(args) == 2 {
				out = append(out, args[1])
			}
		case "encoding/json.Unmarshal":
			if len(args) == 2 {
				out = append(out, args[1])
			}
		}
	})
	return out
}

// NIL3: an element of a slice of pointers filled by a JSON decoder is null for
// the JSON literal `null`: it is dereferenced only behind a nil test.
func ruleNIL3(c *Ctx) []Ob {
	o := newObs(c, "NIL3")
	n := 0
	for _, fn := range c.LibFuncs {
		targets := decodedTargets(fn)
		if len(targets) == 0 {
			continue
		}
		// allocs behind the targets
		isTarget := func(al ssa.Value) bool {
			for _, t := range targets {
				for _, og := range origins(t) {
					if mi, ok := og.(*ssa.MakeInterface); ok {
						og = mi.X
					}
					if og == al {
						return true
					}
				}
				if mi, ok := t.(*ssa.MakeInterface); ok && mi.X == al {
					return true
				}
			}
			return false
		}
		for _, b := range fn.Blocks {
			for _, in := range b.Instrs {
				ld, ok := in.(*ssa.UnOp)
				if !ok || ld.Op != token.MUL {
					continue
				}
				// *elem where elem = *(&slice[i]) and slice = *alloc with alloc a decode target
				el, ok := ld.X.(*ssa.UnOp)
				if !ok || el.Op != token.MUL {
					continue
				}
				ia, ok := el.X.(*ssa.IndexAddr)
				if !ok {
					continue
				}
				fromTarget := false
				if sl, ok := ia.X.(*ssa.UnOp); ok && sl.Op == token.MUL && isTarget(sl.X) {
					fromTarget = true
				}
				for _, so := range origins(ia.X) {
					if sl, ok := so.(*ssa.UnOp); ok && sl.Op == token.MUL && isTarget(sl.X) {
						fromTarget = true
					}
				}
				if !fromTarget {
					continue
				}
				if _, isPtr := el.Type().Underlying().(*types.Pointer); !isPtr {
					continue
				}
				n++
				key := fmt.Sprintf("%s/decoded element #%d", c.fname(fn), n)
				if guardedBy(fn, b, nonNilEdges(fn, sameValue(el))) {
					o.add(OK, key, relPath(c, ld.Pos()), "dereferenced behind a nil test")
				} else {
					o.add(VIOLATED, key, relPath(c, ld.Pos()), "an element of a slice of pointers filled by the JSON decoder is dereferenced without a nil test: a `null` element in the file makes the operation panic instead of failing with an error")
				}
			}
		}
	}
	if n == 0 {
		o.add(OK, "decoded elements", "-", "no element of a decoded slice of pointers is dereferenced")
	}
	return o.list
}

// IMP2: a JSON file is ill-formed if anything but white space follows its
// value. Where the library decodes one value with a json.Decoder, it then asks
// the decoder for more (More / Token / a second Decode) and looks at the answer.
func ruleIMP2(c *Ctx) []Ob {
	o := newObs(c, "IMP2")
	isDecoder := func(t types.Type) bool { return namedIs(t, "encoding/json", "Decoder") }
	// fromDecoderCall: v is the error reported by Token / Decode of a json.Decoder
	fromDecoderCall := func(v ssa.Value) bool {
		for _, og := range origins(v) {
			var call *ssa.Call
			switch x := og.(type) {
			case *ssa.Call:
				call = x
			case *ssa.Extract:
				call, _ = x.Tuple.(*ssa.Call)
			}
			if call == nil {
				continue
			}
			switch calleeFullName(call) {
			case "(*encoding/json.Decoder).Token", "(*encoding/json.Decoder).Decode":
				return true
			}
		}
		return false
	}
	isEOF := func(v ssa.Value) bool {
		g := globalLoad(v)
		return g != nil && g.Pkg != nil && g.Pkg.Pkg.Path() == "io" && g.Name() == "EOF"
	}
	// eofEdges: edges on which the decoder is known to have reported the end of its input
	eofEdges := func(fn *ssa.Function) []edge {
		return guardEdges(fn, func(cond ssa.Value, branch bool) bool {
			if b, ok := cond.(*ssa.BinOp); ok && (b.Op == token.EQL || b.Op == token.NEQ) {
				if (isEOF(b.Y) && fromDecoderCall(b.X)) || (isEOF(b.X) && fromDecoderCall(b.Y)) {
					return (b.Op == token.EQL) == branch
				}
			}
			if call, ok := cond.(*ssa.Call); ok && calleeFullName(call) == "errors.Is" && len(call.Call.Args) == 2 {
				if isEOF(call.Call.Args[1]) && fromDecoderCall(call.Call.Args[0]) {
					return branch
				}
			}
			return false
		})
	}
	successReturns := func(fn *ssa.Function) []*ssa.Return {
		var out []*ssa.Return
		ei := errResultIndex(fn.Signature)
		for _, ret := range returnsOf(fn) {
			if ei < 0 {
				out = append(out, ret)
				continue
			}
			if rv, ok := returnedValue(ret, ei); ok && c.provablyNonNil(fn, rv, ret.Block()) {
				continue
			}
			out = append(out, ret)
		}
		return out
	}
	// checked(g): a helper that is given a decoder and succeeds only when the decoder is exhausted
	memo := map[*ssa.Function]int{}
	var guards func(fn *ssa.Function, depth int) []edge
	var checked func(g *ssa.Function, depth int) bool
	checked = func(g *ssa.Function, depth int) bool {
		if v, ok := memo[g]; ok {
			return v == 1
		}
		memo[g] = 0
		if depth > 3 || len(g.Blocks) == 0 || errResultIndex(g.Signature) < 0 {
			return false
		}
		hasDec := false
		for _, p := range g.Params {
			if isDecoder(p.Type()) {
				hasDec = true
			}
		}
		if !hasDec {
			return false
		}
		es := guards(g, depth+1)
		for _, ret := range successReturns(g) {
			if !guardedBy(g, ret.Block(), es) {
				return false
			}
		}
		memo[g] = 1
		return true
	}
	guards = func(fn *ssa.Function, depth int) []edge {
		es := eofEdges(fn)
		// the nil-error edge of a call to a checked helper
		allCalls(fn, func(ci ssa.CallInstruction) {
			call, ok := ci.(*ssa.Call)
			if !ok {
				return
			}
			g := staticCallee(call)
			if g == nil || !c.IsLib(c.declared(g)) || !checked(c.declared(g), depth) {
				return
			}
			ei := errResultIndex(g.Signature)
			same := func(x ssa.Value) bool {
				if g.Signature.Results().Len() == 1 {
					return sameValue(call)(x)
				}
				ex, ok := x.(*ssa.Extract)
				return ok && ex.Tuple == ssa.Value(call) && ex.Index == ei
			}
			es = append(es, nilEdges(fn, same)...)
		})
		return es
	}
	n := 0
	for _, fn := range c.LibFuncs {
		var made []ssa.CallInstruction
		allCalls(fn, func(ci ssa.CallInstruction) {
			if calleeFullName(ci) == "encoding/json.NewDecoder" {
				made = append(made, ci)
			}
		})
		if len(made) == 0 {
			continue
		}
		n++
		key := c.fname(fn) + "/nothing follows the decoded value"
		pos := relPath(c, made[0].Pos())
		es := guards(fn, 0)
		bad := ""
		for _, ret := range successReturns(fn) {
			// only returns the decoder's creation can reach
			if made[0].Block() != ret.Block() && !reachableFrom(made[0].Block(), false)[ret.Block()] {
				continue
			}
			if !guardedBy(fn, ret.Block(), es) {
				bad = relPath(c, ret.Pos())
			}
		}
		// a top-level null decodes into a nil slice / map / pointer without an error: it is not a list
		// of documents, and success must lie behind a nil test of what was decoded
		allCalls(fn, func(ci ssa.CallInstruction) {
			if calleeFullName(ci) != "(*encoding/json.Decoder).Decode" || len(ci.Common().Args) < 2 {
				return
			}
			// an element decoded inside a loop over Decoder.More is not the top-level value
			if c.inLoop(ci.Block()) {
				return
			}
			var target *ssa.Alloc
			for _, og := range origins(ci.Common().Args[1]) {
				if mi, ok := og.(*ssa.MakeInterface); ok {
					og = mi.X
				}
				if al, ok := og.(*ssa.Alloc); ok {
					target = al
				}
			}
			if target == nil {
				return
			}
			pt, ok := target.Type().Underlying().(*types.Pointer)
			if !ok {
				return
			}
			switch pt.Elem().Underlying().(type) {
			case *types.Slice, *types.Map, *types.Pointer:
			default:
				return
			}
			nkey := c.fname(fn) + "/a top-level null is refused"
			nn := nonNilEdges(fn, func(x ssa.Value) bool {
				u, ok := x.(*ssa.UnOp)
				return ok && u.Op == token.MUL && u.X == ssa.Value(target)
			})
			nbad := ""
			for _, ret := range successReturns(fn) {
				if ci.Block() != ret.Block() && !reachableFrom(ci.Block(), false)[ret.Block()] {
					continue
				}
				if !guardedBy(fn, ret.Block(), nn) {
					nbad = relPath(c, ret.Pos())
				}
			}
			if nbad == "" {
				o.add(OK, nkey, relPath(c, ci.Pos()), "success lies behind a nil test of the decoded value")
			} else {
				o.add(VIOLATED, nkey, relPath(c, ci.Pos()), "the function can succeed at %s without having looked at whether the decoded %s is nil: a file containing only `null` decodes without an error, and an empty collection is created from a file that holds no list of documents", nbad, typeString(pt.Elem()))
			}
		})
		usesMore := false
		for f := range c.staticReach(fn) {
			allCalls(f, func(ci ssa.CallInstruction) {
				if calleeFullName(ci) == "(*encoding/json.Decoder).More" {
					usesMore = true
				}
			})
		}
		switch {
		case bad == "":
			o.add(OK, key, pos, "every successful return behind the decoder is reached only after Token/Decode reported io.EOF (directly or in a helper given the decoder)")
		case usesMore:
			o.add(VIOLATED, key, pos, "the function can succeed at %s without the decoder having reported io.EOF; Decoder.More is not that test (it is false in front of a stray `]` or `}`), so `[{...}]] anything` is imported as if it were well-formed", bad)
		default:
			o.add(VIOLATED, key, pos, "the function can succeed at %s without the decoder having reported io.EOF: json.Decoder.Decode reads one value and stops, whatever follows it in the file is never looked at, so `[{...}] }}} garbage` is imported as if it were well-formed", bad)
		}
	}
	if n == 0 {
		o.add(INFO, "decoders", "-", "no json.NewDecoder in the library")
	}
	return o.list
}

// IMP3: the import restores what export turned into text and validation insists
// on: document.Validate accepts the expiry field only as a time.Time, while the
// export writes times as RFC 3339 text. The import path therefore parses the
// expiry field back (a use of the expiry field's name and of time.Parse in the
// import function or its store-free helpers) - otherwise a collection holding
// a document with an expiry cannot be imported from its own export.
func ruleIMP3(c *Ctx) []Ob {
	o := newObs(c, "IMP3")
	imp := c.lookupMethod("", "DB", "ImportCollection")
	validate := c.lookupFunc("document", "Validate")
	if imp == nil || validate == nil {
		o.add(UNDECIDED, "model", "-", "ImportCollection or document.Validate not found")
		return softenUndecided(o.list)
	}
	// does Validate insist on a time for some field?
	insists := false
	for f := range c.staticReach(validate) {
		for _, b := range f.Blocks {
			for _, in := range b.Instrs {
				if ta, ok := in.(*ssa.TypeAssert); ok && typeString(ta.AssertedType) == "time.Time" {
					insists = true
				}
			}
		}
	}
	if !insists {
		o.add(OK, "expiry field", "-", "document.Validate does not insist on a time.Time value")
		return o.list
	}
	parses := false
	for f := range c.staticReach(imp) {
		if c.pkgRel(f) != "" && c.pkgRel(f) != "document" {
			continue
		}
		if c.eff(f)&(EffTxSet|EffTxGet|EffTxDelete|EffCursor) != 0 && f != imp {
			continue
		}
		allCalls(f, func(ci ssa.CallInstruction) {
			if calleeFullName(ci) == "time.Parse" {
				parses = true
			}
		})
	}
	key := "DB.ImportCollection/expiry restored as a time"
	// ... for every text: the parse is attempted behind nothing but "the field is there and is a string"
	// (comma-ok flags of a lookup / type assertion, nil tests). A test of the text itself - its length against
	// len(time.RFC3339), 25, when "2031-05-06T07:08:09Z" has 20 characters - leaves some exported texts as
	// strings, which Validate then refuses.
	if parses {
		for f := range c.staticReach(imp) {
			if c.pkgRel(f) != "" && c.pkgRel(f) != "document" {
				continue
			}
			allCalls(f, func(ci ssa.CallInstruction) {
				if calleeFullName(ci) != "time.Parse" || len(ci.Common().Args) < 2 {
					return
				}
				text := ci.Common().Args[1]
				for _, dc := range dominatingConds(f, ci.Block()) {
					// does the condition look at the text (other than through its comma-ok flag)?
					looks := false
					var walk func(v ssa.Value, d int)
					walk = func(v ssa.Value, d int) {
						if v == nil || d > 6 || looks {
							return
						}
						if v == text || sameOrigin(v, text) {
							looks = true
							return
						}
						switch x := v.(type) {
						case *ssa.BinOp:
							walk(x.X, d+1)
							walk(x.Y, d+1)
						case *ssa.UnOp:
							walk(x.X, d+1)
						case *ssa.Call:
							for _, a := range x.Call.Args {
								walk(a, d+1)
							}
						case *ssa.Convert:
							walk(x.X, d+1)
						}
					}
					walk(dc.cond, 0)
					if looks {
						o.add(VIOLATED, "DB.ImportCollection/the expiry text is parsed whatever it looks like", relPath(c, ci.Pos()), "the parse that restores the exported text of the expiry field is attempted only behind a test of the text itself: an exported text the test turns away (a length test against len(time.RFC3339) = 25 refuses \"2031-05-06T07:08:09Z\", 20 characters, the form of every whole-second UTC expiry) stays a string, document.Validate refuses it, and the import of the collection fails")
					}
				}
			})
		}
	}
	if parses {
		o.add(OK, key, relPath(c, imp.Pos()), "the import path parses a time back from its exported text")
	} else {
		o.add(VIOLATED, key, relPath(c, imp.Pos()), "document.Validate accepts the expiry field only as a time.Time, the export writes it as RFC 3339 text, and the import never parses it back: importing the export of a collection that holds a document with an expiry fails with \"invalid _expiresAt\"")
	}
	return o.list
}

// ---------------------------------------------------------------- PANIC6

// stdPanics: standard-library functions that panic on particular argument
// values, and the test that must have excluded those values.
var stdPanics = map[string]struct{ on, guard string }{
	"math/big.NewFloat":            {"a NaN argument (ErrNaN)", "math.IsNaN"},
	"(*math/big.Float).SetFloat64": {"a NaN argument (ErrNaN)", "math.IsNaN"},
	"strings.Repeat":               {"a negative count", ""},
	"(*math/big.Int).Div":          {"a zero divisor", ""},
	"(*math/big.Int).Quo":          {"a zero divisor", ""},
	"(*math/big.Int).Mod":          {"a zero divisor", ""},
	"(*math/big.Int).DivMod":       {"a zero divisor", ""},
	"(*math/big.Rat).SetFrac":      {"a zero denominator", ""},
	"(*regexp.Regexp).Expand":      {"", ""},
	"regexp.MustCompile":           {"an invalid pattern", ""},
	"text/template.Must":           {"a non-nil error", ""},
}

// PANIC6: the library calls no standard-library function that panics on some
// argument value without having excluded that value: math/big.NewFloat panics
// on NaN, and a NaN is an ordinary float64 a caller can store in a document.
func rulePANIC6(c *Ctx) []Ob {
	o := newObs(c, "PANIC6")
	n := 0
	for _, fn := range c.LibFuncs {
		k := 0
		allCalls(fn, func(ci ssa.CallInstruction) {
			full := calleeFullName(ci)
			sp, ok := stdPanics[full]
			if !ok {
				return
			}
			n++
			k++
			key := fmt.Sprintf("%s/%s #%d", c.fname(fn), shortCallee(ci), k)
			pos := relPath(c, ci.Pos())
			if sp.guard == "" {
				o.add(UNDECIDED, key, pos, "%s panics on %s; no guard is known to this rule", full, sp.on)
				return
			}
			// the argument was tested with the guard, and the call is not on the guard's true side
			args := ci.Common().Args
			guarded := false
			var edges []edge
			ifEdges(fn, func(cond ssa.Value, e edge) {
				neg := false
				for {
					if u, ok := cond.(*ssa.UnOp); ok && u.Op == token.NOT {
						cond, neg = u.X, !neg
						continue
					}
					break
				}
				gc, ok := cond.(*ssa.Call)
				if !ok || calleeFullName(gc) != sp.guard {
					return
				}
				for _, a := range args {
					if len(gc.Common().Args) == 1 && (gc.Common().Args[0] == a || sameOrigin(gc.Common().Args[0], a)) {
						if e.Branch == neg { // the guard is false on this edge
							edges = append(edges, e)
						}
					}
				}
			})
			if len(edges) > 0 && guardedBy(fn, ci.Block(), edges) {
				guarded = true
			}
			if guarded {
				o.add(OK, key, pos, "%s excluded by %s", sp.on, sp.guard)
			} else {
				o.add(VIOLATED, key, pos, "%s panics on %s, and the argument is not tested with %s first: a value the caller may legitimately store (a float64 NaN) makes every comparison that meets it panic - filters, sorts, range emptiness", full, sp.on, sp.guard)
			}
		})
	}
	if n == 0 {
		o.add(OK, "standard library", "-", "no call to a standard-library function of the table (functions that panic on argument values)")
	}
	return o.list
}

// ---------------------------------------------------------------- ADP11

// ADP11: opening the bbolt store behaves like opening the badger store: the
// directory is created when it does not exist (clover.Open documents that it
// is; badger creates it), and the file lock is waited for with a bound: with
// nil options bbolt.Open blocks for as long as another handle holds the file,
// where badger returns an error.
func ruleADP11(c *Ctx) []Ob {
	o := newObs(c, "ADP11")
	n := 0
	for _, fn := range c.LibFuncs {
		if !strings.HasPrefix(c.pkgRel(fn), "store/") {
			continue
		}
		allCalls(fn, func(ci ssa.CallInstruction) {
			if calleeFullName(ci) != "go.etcd.io/bbolt.Open" {
				return
			}
			n++
			call, _ := ci.(*ssa.Call)
			// (a) directory created first
			keyA := c.fname(fn) + "/directory created before bbolt.Open"
			mk := false
			allCalls(fn, func(cj ssa.CallInstruction) {
				full := calleeFullName(cj)
				if (full == "os.MkdirAll" || full == "os.Mkdir") && call != nil {
					if mc, ok := cj.(*ssa.Call); ok && instrDominates(mc, call) {
						mk = true
					}
				}
			})
			if mk {
				o.add(OK, keyA, relPath(c, ci.Pos()), "os.MkdirAll precedes bbolt.Open")
			} else {
				o.add(VIOLATED, keyA, relPath(c, ci.Pos()), "bbolt.Open is given a file inside a directory nobody creates: opening a database in a directory that does not exist yet fails on bbolt (\"no such file or directory\") and succeeds on badger, and clover.Open documents that the folder is created")
			}
			// (b) bounded wait for the file lock
			keyB := c.fname(fn) + "/bounded wait for the file lock"
			args := ci.Common().Args
			okT := false
			if len(args) == 3 && !isNilConst(args[2]) {
				for _, og := range origins(args[2]) {
					if al, ok := og.(*ssa.Alloc); ok {
						for _, r := range realReferrers(al) {
							if fa, ok := r.(*ssa.FieldAddr); ok {
								if _, f, _ := fieldOfAddr(fa); f == "Timeout" {
									for _, rr := range realReferrers(fa) {
										if st, ok := rr.(*ssa.Store); ok {
											if k, isK := constInt(st.Val); !isK || k > 0 {
												okT = true
											}
										}
									}
								}
							}
						}
					}
				}
			}
			if okT {
				o.add(OK, keyB, relPath(c, ci.Pos()), "Options.Timeout is set")
			} else {
				o.add(VIOLATED, keyB, relPath(c, ci.Pos()), "bbolt.Open is called without Options.Timeout: while another handle holds the database file the call never returns (badger reports an error)")
			}
		})
	}
	if n == 0 {
		o.add(INFO, "bbolt adapter", "-", "no call to bbolt.Open")
	}
	return o.list
}

// ---------------------------------------------------------------- GUARD2

// GUARD2: an operation that creates a collection from the documents selected
// by a query establishes that the queried collection exists BEFORE it writes
// the new collection's catalog record. Otherwise the scan sees the record just
// written in the same transaction: CreateCollectionByQuery("x", NewQuery("x"))
// on a database without "x" succeeds and creates an empty "x" instead of
// failing with ErrCollectionNotExist.
func ruleGUARD2(c *Ctx) []Ob {
	o := newObs(c, "GUARD2")
	r := c.Roles()
	isQ := func(t types.Type) bool {
		pt, ok := t.(*types.Pointer)
		return ok && c.libNamedIs(pt.Elem(), "query", "Query")
	}
	collM := c.lookupMethod("query", "Query", "Collection")
	n := 0
	for _, fn := range c.LibFuncs {
		if c.pkgRel(fn) != "" || fn.Parent() != nil {
			continue
		}
		hasQ := false
		for _, p := range fn.Params {
			if isQ(p.Type()) {
				hasQ = true
			}
		}
		if !hasQ {
			continue
		}
		// the first catalog write and a later scan of the query
		var write *ssa.Call
		var scan *ssa.Call
		allCalls(fn, func(ci ssa.CallInstruction) {
			call, ok := ci.(*ssa.Call)
			if !ok {
				return
			}
			if c.callsMetaWriter(call) && write == nil {
				// only writes that CREATE a record: the callee (transitively) fails on an existing collection is not required here
				write = call
			}
			if c.calleeEff(call)&EffCursor != 0 {
				for _, a := range call.Common().Args {
					if isQ(a.Type()) {
						scan = call
					}
				}
			}
		})
		if write == nil || scan == nil || !instrDominates(write, scan) {
			continue
		}
		n++
		key := c.fname(fn) + "/queried collection probed before the catalog write"
		// a catalog probe on Query.Collection() dominating the write
		probed := false
		allCalls(fn, func(ci ssa.CallInstruction) {
			call, ok := ci.(*ssa.Call)
			if !ok || !instrDominates(call, write) {
				return
			}
			g := staticCallee(call)
			if g == nil || !r.isMetaReader(c.declared(g)) {
				return
			}
			onQuery := false
			for _, a := range call.Common().Args {
				for _, og := range origins(a) {
					if cl, ok := og.(*ssa.Call); ok {
						if h := staticCallee(cl); h != nil && collM != nil && c.declared(h) == collM {
							onQuery = true
						}
					}
				}
			}
			if !onQuery {
				return
			}
			// the outcome of the probe decides whether the write is reached: a boolean result tested true,
			// or (for a probe returning the record) an error tested nil
			var edges []edge
			for _, bv := range resultValues(call, 0) {
				if bt, ok := bv.Type().Underlying().(*types.Basic); ok && bt.Kind() == types.Bool {
					ifEdges(fn, func(cond ssa.Value, e edge) {
						neg := false
						for {
							if u, ok := cond.(*ssa.UnOp); ok && u.Op == token.NOT {
								cond, neg = u.X, !neg
								continue
							}
							break
						}
						if cond == bv && e.Branch != neg {
							edges = append(edges, e)
						}
					})
				}
			}
			if ei := errResultIndex(call.Common().Signature()); ei >= 0 && len(edges) == 0 {
				if _, isBool := call.Common().Signature().Results().At(0).Type().Underlying().(*types.Basic); !isBool {
					for _, ev := range resultValues(call, ei) {
						edges = append(edges, nilEdges(fn, sameValue(ev))...)
					}
				}
			}
			if guardedBy(fn, write.Block(), edges) {
				probed = true
			}
		})
		if probed {
			o.add(OK, key, relPath(c, write.Pos()), "the existence of the queried collection is established before the new record is written")
		} else {
			o.add(VIOLATED, key, relPath(c, write.Pos()), "the catalog record of the new collection is written before the queried collection has been looked up: when both names are equal and the collection is missing, the scan finds the record just written, and the operation succeeds with an empty collection instead of failing with ErrCollectionNotExist")
		}
	}
	if n == 0 {
		o.add(INFO, "create-by-query", "-", "no function writes a catalog record and then scans a query")
	}
	return o.list
}

// ---------------------------------------------------------------- IDX10

// IDX10: a field name that goes into the index catalog is valid UTF-8. The
// catalog is stored as JSON, and encoding/json replaces every invalid byte
// sequence of a string by U+FFFD: an index created on "k\xff" is recorded as
// "k�" (HasIndex false, DropIndex fails, a second CreateIndex succeeds,
// the planner uses a phantom index on the other name), while its entries are
// written under the raw name. Every store into index.Info.Field of a value that
// comes from a parameter is therefore guarded by utf8.ValidString of it.
func ruleIDX10(c *Ctx) []Ob {
	o := newObs(c, "IDX10")
	n := 0
	for _, fn := range c.LibFuncs {
		if c.pkgRel(fn) != "" {
			continue
		}
		for _, b := range fn.Blocks {
			for _, in := range b.Instrs {
				st, ok := in.(*ssa.Store)
				if !ok {
					continue
				}
				_, f, nm := fieldOfAddr(st.Addr)
				if f != "Field" || nm == nil || !c.libNamedIs(nm, "index", "Info") {
					continue
				}
				fromParam := false
				var src ssa.Value
				for _, og := range origins(st.Val) {
					if p, ok := og.(*ssa.Parameter); ok {
						fromParam, src = true, p
					}
				}
				if !fromParam {
					continue
				}
				n++
				key := c.fname(fn) + "/catalog field name is valid UTF-8"
				utf8Edges := func(fn *ssa.Function, src ssa.Value) []edge {
					return guardEdges(fn, func(cond ssa.Value, branch bool) bool {
						neg := false
						for {
							if u, ok := cond.(*ssa.UnOp); ok && u.Op == token.NOT {
								cond, neg = u.X, !neg
								continue
							}
							break
						}
						cl, ok := cond.(*ssa.Call)
						if !ok {
							return false
						}
						full := calleeFullName(cl)
						if full != "unicode/utf8.ValidString" && full != "unicode/utf8.Valid" {
							return false
						}
						a := cl.Common().Args[0]
						return (a == src || sameOrigin(a, src)) && branch != neg
					})
				}
				guards := c.validatedEdges(fn, src, utf8Edges, 0)
				if guardedBy(fn, b, guards) {
					o.add(OK, key, relPath(c, st.Pos()), "recorded only after utf8.ValidString accepted it")
				} else {
					o.add(VIOLATED, key, relPath(c, st.Pos()), "the caller's field name is recorded in the JSON catalog without a UTF-8 check: encoding/json rewrites invalid bytes to U+FFFD, so the catalog names another field than the one the index entries were written under (HasIndex false after CreateIndex, DropIndex fails, the entries can never be removed, a phantom index serves queries on the other name)")
				}
			}
		}
	}
	if n == 0 {
		o.add(INFO, "catalog", "-", "no store of a parameter into index.Info.Field")
	}
	return o.list
}

// ---------------------------------------------------------------- NIL4

// NIL4: a library function with a single pointer result and no error result
// that can return nil says "no value" that way (document.NewDocumentOf for a
// value that is not convertible). A caller inside the library that goes on to
// call a method on the result, or to dereference it, does so behind a nil test
// - or hands it on (appends it, passes it) to code that tests it.
func ruleNIL4(c *Ctx) []Ob {
	o := newObs(c, "NIL4")
	mayNil := map[*ssa.Function]bool{}
	for changed := true; changed; {
		changed = false
		for _, g := range c.LibFuncs {
			if mayNil[g] || g.Parent() != nil || g.Signature.Results().Len() != 1 {
				continue
			}
			if _, isPtr := g.Signature.Results().At(0).Type().Underlying().(*types.Pointer); !isPtr {
				continue
			}
			for _, ret := range returnsOf(g) {
				rv, ok := returnedValue(ret, 0)
				if !ok {
					continue
				}
				for _, og := range origins(rv) {
					if isNilConst(og) {
						mayNil[g] = true
						changed = true
					}
					if cl, ok := og.(*ssa.Call); ok {
						if h := staticCallee(cl); h != nil && mayNil[c.declared(h)] {
							// returned as is, unless tested
							if !guardedBy(g, ret.Block(), nonNilEdges(g, sameValue(cl))) {
								mayNil[g] = true
								changed = true
							}
						}
					}
				}
			}
		}
	}
	n := 0
	for _, fn := range c.LibFuncs {
		k := 0
		allCalls(fn, func(ci ssa.CallInstruction) {
			call, ok := ci.(*ssa.Call)
			if !ok {
				return
			}
			g := staticCallee(call)
			if g == nil || !mayNil[c.declared(g)] {
				return
			}
			// uses of the result that need a non-nil value
			nn := nonNilEdges(fn, sameValue(call))
			for _, r := range realReferrers(call) {
				needs := ""
				switch x := r.(type) {
				case ssa.CallInstruction:
					cc := x.Common()
					if !cc.IsInvoke() && len(cc.Args) > 0 && cc.Args[0] == ssa.Value(call) && cc.StaticCallee() != nil && cc.StaticCallee().Signature.Recv() != nil {
						needs = "a method is called on it"
					}
				case *ssa.UnOp:
					if x.Op == token.MUL {
						needs = "it is dereferenced"
					}
				case *ssa.FieldAddr:
					needs = "a field of it is accessed"
				}
				if needs == "" {
					continue
				}
				n++
				k++
				key := fmt.Sprintf("%s/result of %s #%d", c.fname(fn), shortCallee(call), k)
				if guardedBy(fn, r.Block(), nn) {
					o.add(OK, key, relPath(c, r.Pos()), "used behind a nil test")
				} else {
					o.add(VIOLATED, key, relPath(c, r.Pos()), "%s can return nil (a value it cannot convert), and %s without a nil test: the operation panics instead of reporting the value as invalid", c.fname(c.declared(g)), needs)
				}
			}
		})
	}
	if n == 0 {
		o.add(OK, "nil results", "-", "no method call or dereference on the result of a library function that can return nil without an error")
	}
	return o.list
}

// ---------------------------------------------------------------- NIL5

// NIL5: the pointer a caller-supplied function returns is nil-tested before a
// method is called on it, before it is dereferenced, and before it is handed to
// a library function that does either without a test of its own. A callback
// is a caller's code: "return nil" is a well-typed answer (the sibling bulk
// update treats it as "delete this document"), so the operation must not
// panic on it.
func ruleNIL5(c *Ctx) []Ob {
	o := newObs(c, "NIL5")
	// parameters of library functions that are used (method call, dereference,
	// field access) without a nil test: index by function
	needsNonNil := func(g *ssa.Function, idx int) (string, bool) {
		if g == nil || len(g.Blocks) == 0 || idx >= len(g.Params) {
			return "", false
		}
		p := g.Params[idx]
		nn := nonNilEdges(g, sameValue(p))
		for _, r := range realReferrers(p) {
			needs := derefUse(r, p)
			if needs == "" {
				continue
			}
			if !guardedBy(g, r.Block(), nn) {
				return needs, true
			}
		}
		return "", false
	}
	n := 0
	for _, fn := range c.LibFuncs {
		k := 0
		allCalls(fn, func(ci ssa.CallInstruction) {
			call, ok := ci.(*ssa.Call)
			if !ok || call.Call.IsInvoke() || staticCallee(call) != nil {
				return
			}
			if _, isPtr := call.Type().Underlying().(*types.Pointer); !isPtr {
				return
			}
			// the called value comes from a parameter (of this function or, for a closure, of an enclosing one)
			fromParam := false
			for _, og := range origins(call.Call.Value) {
				switch x := og.(type) {
				case *ssa.Parameter:
					fromParam = true
				case *ssa.FreeVar:
					_ = x
					fromParam = true
				}
			}
			if !fromParam {
				return
			}
			nn := nonNilEdges(fn, sameValue(call))
			for _, r := range realReferrers(call) {
				needs := derefUse(r, call)
				if needs == "" {
					if cc, ok := r.(ssa.CallInstruction); ok {
						if g := cc.Common().StaticCallee(); g != nil && c.IsLib(c.declared(g)) {
							for i, a := range cc.Common().Args {
								if a == ssa.Value(call) {
									if why, bad := needsNonNil(g, i); bad {
										needs = "it is handed to " + c.fname(g) + ", where " + why
									}
								}
							}
						}
					}
				}
				if needs == "" {
					continue
				}
				n++
				k++
				key := fmt.Sprintf("%s/result of the caller's function #%d", c.fname(fn), k)
				if guardedBy(fn, r.Block(), nn) {
					o.add(OK, key, relPath(c, r.Pos()), "used behind a nil test")
				} else {
					o.add(VIOLATED, key, relPath(c, r.Pos()), "the caller's function may return nil, and %s without a nil test: the operation panics", needs)
				}
			}
		})
	}
	if n == 0 {
		o.add(OK, "callback results", "-", "no method call or dereference on the pointer result of a caller-supplied function")
	}
	return o.list
}

// derefUse says whether instruction r needs v to be a non-nil pointer.
func derefUse(r ssa.Instruction, v ssa.Value) string {
	switch x := r.(type) {
	case ssa.CallInstruction:
		cc := x.Common()
		if !cc.IsInvoke() && len(cc.Args) > 0 && cc.Args[0] == v && cc.StaticCallee() != nil && cc.StaticCallee().Signature.Recv() != nil {
			return "a method is called on it"
		}
	case *ssa.UnOp:
		if x.Op == token.MUL {
			return "it is dereferenced"
		}
	case *ssa.FieldAddr:
		return "a field of it is accessed"
	}
	return ""
}

// ---------------------------------------------------------------- ADP12

// ADP12: one store.Tx is one backend transaction from Begin to Commit/Rollback.
// The backend's transaction-ending and transaction-opening calls ((*badger.Txn).Commit,
// CommitWith, Discard, (*badger.DB).NewTransaction / Update / View, (*bbolt.Tx).Commit,
// Rollback, (*bbolt.DB).Begin / Update / View / Batch) appear only in what the adapter's
// Begin, Commit and Rollback (and Open/Close) reach. A Set or Delete that commits what
// was written so far and carries on in a fresh backend transaction ("chunking" a write
// that badger reports as too big) silently splits one clover operation into several
// durable steps: a later failure leaves the earlier chunks behind.
func ruleADP12(c *Ctx) []Ob {
	o := newObs(c, "ADP12")
	allowed := map[*ssa.Function]bool{}
	for _, m := range [][2]string{{"Store", "Begin"}, {"Store", "Close"}, {"Tx", "Commit"}, {"Tx", "Rollback"}} {
		for _, f := range c.storeImpls(m[0], m[1]) {
			for g := range c.staticReach(f) {
				allowed[g] = true
			}
		}
	}
	// the constructors: package-level functions of the adapters that return a store.Store
	for _, fn := range c.LibFuncs {
		if !strings.HasPrefix(c.pkgRel(fn), "store/") || fn.Parent() != nil || fn.Signature.Recv() != nil {
			continue
		}
		res := fn.Signature.Results()
		for i := 0; i < res.Len(); i++ {
			if c.libNamedIs(res.At(i).Type(), "store", "Store") {
				for g := range c.staticReach(fn) {
					allowed[g] = true
				}
			}
		}
	}
	isTxLifecycle := func(full string) string {
		for _, suf := range []string{
			"badger/v4.Txn).Commit", "badger/v4.Txn).CommitWith", "badger/v4.Txn).Discard",
			"badger/v4.DB).NewTransaction", "badger/v4.DB).NewTransactionAt", "badger/v4.DB).Update", "badger/v4.DB).View", "badger/v4.DB).NewWriteBatch",
			"bbolt.Tx).Commit", "bbolt.Tx).Rollback", "bbolt.DB).Begin", "bbolt.DB).Update", "bbolt.DB).View", "bbolt.DB).Batch",
		} {
			if strings.HasSuffix(full, suf) {
				return suf
			}
		}
		return ""
	}
	n := 0
	for _, fn := range c.LibFuncs {
		if !strings.HasPrefix(c.pkgRel(fn), "store/") {
			continue
		}
		k := 0
		allCalls(fn, func(ci ssa.CallInstruction) {
			what := isTxLifecycle(calleeFullName(ci))
			if what == "" {
				return
			}
			n++
			k++
			key := fmt.Sprintf("%s/backend transaction call (%s", c.fname(fn), what)
			if k > 1 {
				key += fmt.Sprintf(" #%d", k)
			}
			root := rootFunc(fn)
			if allowed[fn] || allowed[root] {
				o.add(OK, key, relPath(c, ci.Pos()), "inside what the adapter's constructor, Begin, Commit, Rollback or Close reach")
			} else {
				o.add(VIOLATED, key, relPath(c, ci.Pos()), "%s ends or opens a backend transaction outside the adapter's Begin, Commit and Rollback: one store.Tx no longer is one backend transaction, so what a clover operation wrote before this point can become durable although the operation later fails or is rolled back", c.fname(fn))
			}
		})
	}
	if n == 0 {
		o.add(UNDECIDED, "adapters", "-", "no backend transaction call found in the store adapters")
	}
	return o.list
}

// ---------------------------------------------------------------- NORM5

// NORM5: a field reference is left un-normalised inside a list operand only
// where it is resolved per document. In and Contains resolve the elements of
// their list when the criterion is evaluated; for every other operator a list
// is an array literal that may become the bound of an index range, where a raw
// *field meets internal.Compare and panics. Either (A) the branch of the operand
// normaliser that keeps a list element raw is taken only for the operators that
// resolve elements (a test of the operator against InOp / ContainsOp guards it),
// or (B) the range visitor's reference test looks inside lists.
func ruleNORM5(c *Ctx) []Ob {
	o := newObs(c, "NORM5")
	isField := c.lookupFunc("query", "IsField")
	if isField == nil {
		o.add(UNDECIDED, "model", "-", "query.IsField not found")
		return softenUndecided(o.list)
	}
	opConst := map[int64]string{}
	if p := c.LibTypes[c.ModPath+"/query"]; p != nil {
		for _, name := range []string{"InOp", "ContainsOp"} {
			if cst, ok := p.Types.Scope().Lookup(name).(*types.Const); ok {
				if k, exact := constant.Int64Val(cst.Val()); exact {
					opConst[k] = name
				}
			}
		}
	}
	isListElem := func(v ssa.Value) bool {
		for _, og := range origins(v) {
			if l, ok := og.(*ssa.UnOp); ok && l.Op == token.MUL {
				if ia, ok := l.X.(*ssa.IndexAddr); ok {
					if sl, ok := ia.X.Type().Underlying().(*types.Slice); ok {
						if _, isI := sl.Elem().Underlying().(*types.Interface); isI {
							return true
						}
					}
				}
			}
		}
		return false
	}
	// (B) does the range visitor's reference test look inside lists?
	idiomB := false
	if rv := c.libType("", "FieldRangeVisitor"); rv != nil {
		if n, ok := rv.(*types.Named); ok {
			for _, m := range c.visitorMethods(n) {
				for f := range c.staticReach(m) {
					if c.pkgRel(f) != "" {
						continue
					}
					allCalls(f, func(ci ssa.CallInstruction) {
						if g := staticCallee(ci); g != nil && c.declared(g) == isField && len(ci.Common().Args) == 1 && isListElem(ci.Common().Args[0]) {
							idiomB = true
						}
					})
				}
			}
		}
	}
	n := 0
	for _, fn := range c.LibFuncs {
		if c.pkgRel(fn) != "" {
			continue
		}
		// IsField(elem) on a list element, and what happens on its true edge
		allCalls(fn, func(ci ssa.CallInstruction) {
			call, ok := ci.(*ssa.Call)
			if !ok {
				return
			}
			if g := staticCallee(call); g == nil || c.declared(g) != isField || len(call.Call.Args) != 1 || !isListElem(call.Call.Args[0]) {
				return
			}
			elem := call.Call.Args[0]
			trueEdges := guardEdges(fn, func(cond ssa.Value, branch bool) bool { return cond == ssa.Value(call) && branch })
			// the element kept raw: appended / stored while the test is known true
			for _, b := range fn.Blocks {
				if !guardedBy(fn, b, trueEdges) {
					continue
				}
				for _, in := range b.Instrs {
					keeps := false
					switch x := in.(type) {
					case *ssa.Store:
						if x.Val == elem || sameOrigin(x.Val, elem) {
							keeps = true
						}
					}
					if !keeps {
						continue
					}
					n++
					key := c.fname(fn) + "/list element kept as a field reference"
					opGuard := guardEdges(fn, func(cond ssa.Value, branch bool) bool {
						bo, ok := cond.(*ssa.BinOp)
						if !ok || (bo.Op != token.EQL && bo.Op != token.NEQ) {
							return false
						}
						k, isK := constInt(bo.Y)
						if !isK {
							k, isK = constInt(bo.X)
						}
						if !isK || opConst[k] == "" {
							return false
						}
						return (bo.Op == token.EQL) == branch
					})
					switch {
					case guardedBy(fn, b, opGuard):
						o.add(OK, key, relPath(c, in.Pos()), "only for the operators that resolve the elements of their list per document (In, Contains)")
					case idiomB:
						o.add(OK, key, relPath(c, in.Pos()), "the range visitor refuses operands holding a reference inside a list")
					default:
						o.add(VIOLATED, key, relPath(c, in.Pos()), "an element of a list operand that is a field reference is kept raw whatever the operator: Eq([]interface{}{Field(\"y\")}) on an indexed field becomes the bound of an index range, and internal.Compare panics on the *field inside it (\"interface conversion: interface {} is *query.field\"); without the index the same query returns normally")
					}
				}
			}
		})
	}
	if n == 0 {
		o.add(OK, "list operands", "-", "no list element is kept un-normalised")
	}
	return o.list
}

// ---------------------------------------------------------------- REC1

// REC1: recursion that follows TYPES terminates. A function of the encoding layer
// that calls itself with a reflect.Type derived from its own reflect.Type parameter
// while every other argument is handed on unchanged (no value is taken apart on the
// way down) descends along the type graph, which has cycles: type T struct{ *T; Name
// string } embeds itself. Such a call must lie behind a test of a visited set keyed
// by reflect.Type (a map lookup whose outcome guards the call or returns early).
// Recursion that takes a value apart (an element, a field value) ends with the value.
func ruleREC1(c *Ctx) []Ob {
	o := newObs(c, "REC1")
	isRT := func(t types.Type) bool { return namedIs(t, "reflect", "Type") }
	n := 0
	for _, fn := range c.LibFuncs {
		rel := c.pkgRel(fn)
		if (rel != "internal" && rel != "document" && rel != "util") || fn.Parent() != nil {
			continue
		}
		hasRT := false
		for _, p := range fn.Params {
			if isRT(p.Type()) {
				hasRT = true
			}
		}
		if !hasRT {
			continue
		}
		k := 0
		allCalls(fn, func(ci ssa.CallInstruction) {
			if g := staticCallee(ci); g == nil || c.declared(g) != fn {
				return
			}
			args := ci.Common().Args
			typeDriven := false
			valueNarrowed := false
			for i, p := range fn.Params {
				if i >= len(args) {
					continue
				}
				if isRT(p.Type()) {
					if args[i] != ssa.Value(p) {
						typeDriven = true
					}
					continue
				}
				if args[i] == ssa.Value(p) || sameOrigin(args[i], p) {
					continue // handed on unchanged (an accumulator, the same document)
				}
				if _, isBasic := p.Type().Underlying().(*types.Basic); isBasic {
					continue // a counter (the depth of embedding) takes no value apart
				}
				if isZeroValue(args[i]) {
					continue // neither does a zero value (no value to take the fields from)
				}
				// a fresh container made here does not bound the recursion; a part of the input does
				fresh := false
				for _, og := range origins(args[i]) {
					switch og.(type) {
					case *ssa.MakeMap, *ssa.MakeSlice, *ssa.Alloc:
						fresh = true
					}
				}
				if !fresh {
					valueNarrowed = true
				}
			}
			if !typeDriven || valueNarrowed {
				return
			}
			// stripping wrappers - the Elem() of the own type parameter handed on, in a function that
			// looks at no struct field - is the loop `for t.Kind() == Ptr { t = t.Elem() }` written as
			// a recursion: it follows one chain of pointer types, not the fields of structs
			strips := true
			for i, p := range fn.Params {
				if i >= len(args) || !isRT(p.Type()) || args[i] == ssa.Value(p) {
					continue
				}
				for _, og := range origins(args[i]) {
					el, ok := og.(*ssa.Call)
					if !ok || !el.Call.IsInvoke() || el.Call.Method == nil || el.Call.Method.Name() != "Elem" || el.Call.Value != ssa.Value(p) {
						strips = false
					}
				}
			}
			allCalls(fn, func(fc ssa.CallInstruction) {
				if cc := fc.Common(); cc.IsInvoke() && cc.Method != nil {
					switch cc.Method.Name() {
					case "Field", "NumField", "FieldByName", "FieldByIndex":
						strips = false
					}
				}
			})
			if strips {
				return
			}
			n++
			k++
			key := fmt.Sprintf("%s/type-driven self call", c.fname(fn))
			if k > 1 {
				key += fmt.Sprintf(" #%d", k)
			}
			// a visited set: a lookup in a map keyed by reflect.Type whose outcome decides a branch
			visited := guardEdges(fn, func(cond ssa.Value, branch bool) bool {
				for _, og := range origins(cond) {
					var lk *ssa.Lookup
					switch x := og.(type) {
					case *ssa.Lookup:
						lk = x
					case *ssa.Extract:
						lk, _ = x.Tuple.(*ssa.Lookup)
					}
					if lk == nil {
						continue
					}
					if m, ok := lk.X.Type().Underlying().(*types.Map); ok && isRT(m.Key()) {
						return true
					}
				}
				return false
			})
			if guardedBy(fn, ci.Block(), visited) {
				o.add(OK, key, relPath(c, ci.Pos()), "behind a test of a visited set keyed by reflect.Type")
			} else {
				o.add(VIOLATED, key, relPath(c, ci.Pos()), "%s calls itself with a type taken from its reflect.Type parameter and no value that gets smaller, without a visited set: a struct type that embeds itself through a pointer (type T struct{ *T; Name string }, which encoding/json handles) makes the walk recurse until the stack overflows, which kills the process", c.fname(fn))
			}
		})
	}
	if n == 0 {
		o.add(INFO, "type walks", "-", "no function of the encoding layer recurses along types alone")
	}
	return o.list
}

// ---------------------------------------------------------------- IMP4

// IMP4: the import refuses input that is not valid UTF-8. JSON text is UTF-8, and
// encoding/json does not fail on other bytes inside strings: it replaces each by
// U+FFFD, so "a\xff" and "a\xfe" become the same field name (one value is lost)
// and string values are altered. In what the import function reaches before it
// decodes, the bytes handed to the decoder pass a unicode/utf8 validity test whose
// negative outcome cannot reach a successful return.
func ruleIMP4(c *Ctx) []Ob {
	o := newObs(c, "IMP4")
	imp := c.lookupMethod("", "DB", "ImportCollection")
	if imp == nil {
		o.add(UNDECIDED, "model", "-", "DB.ImportCollection not found")
		return softenUndecided(o.list)
	}
	key := "DB.ImportCollection/input is valid UTF-8"
	var fns []*ssa.Function
	for f := range c.staticReach(imp) {
		if c.pkgRel(f) == "" {
			fns = append(fns, f)
		}
	}
	sort.Slice(fns, func(i, j int) bool { return c.fname(fns[i]) < c.fname(fns[j]) })
	decodes := false
	checked := ""
	piecewise := ""
	for _, f := range fns {
		allCalls(f, func(ci ssa.CallInstruction) {
			full := calleeFullName(ci)
			if full == "(*encoding/json.Decoder).Decode" || full == "encoding/json.Unmarshal" {
				decodes = true
			}
			call, ok := ci.(*ssa.Call)
			if !ok || !strings.HasPrefix(full, "unicode/utf8.Valid") {
				return
			}
			// the test looks at the whole input, not at one block of it: a multi-byte character cut by a
			// block boundary is invalid in both halves
			if sl, isSlice := call.Call.Args[0].(*ssa.Slice); isSlice && c.inLoop(call.Block()) && (sl.High != nil || sl.Low != nil) {
				piecewise = relPath(c, call.Pos())
				return
			}
			// the invalid outcome never leads to success
			invalid := guardEdges(f, func(cond ssa.Value, branch bool) bool {
				if cond == ssa.Value(call) {
					return !branch
				}
				if u, ok := cond.(*ssa.UnOp); ok && u.Op == token.NOT && u.X == ssa.Value(call) {
					return branch
				}
				return false
			})
			ei := errResultIndex(f.Signature)
			okAll := len(invalid) > 0
			for _, ret := range returnsOf(f) {
				if !guardedBy(f, ret.Block(), invalid) {
					continue
				}
				if ei < 0 {
					continue
				}
				if ev, has := returnedValue(ret, ei); !has || !c.provablyNonNil(f, ev, ret.Block()) {
					okAll = false
				}
			}
			// some return must be behind the invalid edge (the rejection)
			rejects := false
			for _, ret := range returnsOf(f) {
				if guardedBy(f, ret.Block(), invalid) {
					rejects = true
				}
			}
			if okAll && rejects {
				checked = relPath(c, call.Pos())
			}
		})
	}
	switch {
	case !decodes:
		o.add(INFO, key, relPath(c, imp.Pos()), "the import does not use encoding/json")
	case piecewise != "" && checked == "":
		o.add(VIOLATED, key, piecewise, "the UTF-8 validity test is applied, inside a loop, to one block of the input at a time: a multi-byte character that lies across a block boundary is invalid in both halves, so a valid file the export wrote (non-ASCII text at an offset that is a multiple of the block size) is refused")
	case checked != "":
		o.add(OK, key, checked, "the input passes a unicode/utf8 validity test whose negative outcome is an error")
	default:
		o.add(VIOLATED, key, relPath(c, imp.Pos()), "the file is handed to encoding/json without a UTF-8 validity test: bytes that are not UTF-8 inside strings are replaced by U+FFFD instead of being refused - `[{\"a\\xff\":1,\"a\\xfe\":2}]` is imported as one field, and an ill-formed file is accepted")
	}
	return o.list
}

// ---------------------------------------------------------------- ADP13

// ADP13: the bbolt adapter does not take a nil key from Cursor.Prev for the beginning
// of the bucket. bbolt's Prev (v1.3.7: prev() has no empty-page loop, next() has one)
// also returns a nil key when it steps on a leaf that the deletions of the running
// transaction have emptied, with keys still before it; badger's iterator has no such
// case. Every function of the adapter that calls Cursor.Prev calls it (again) inside a
// loop, i.e. retries while the key is nil, so that a reverse scan after deletions in the
// same transaction visits the remaining keys on both backends.
func ruleADP13(c *Ctx) []Ob {
	o := newObs(c, "ADP13")
	isPrev := func(ci ssa.CallInstruction) bool { return calleeFullName(ci) == "(*go.etcd.io/bbolt.Cursor).Prev" }
	// retries(f): f calls Cursor.Prev inside a loop governed by a nil test of the key Prev returned
	retries := func(fn *ssa.Function) bool {
		found := false
		allCalls(fn, func(p ssa.CallInstruction) {
			if !isPrev(p) || !c.inLoop(p.Block()) {
				return
			}
			h, body := c.innermostLoop(p.Block())
			if h == nil {
				return
			}
			for b := range body {
				if len(b.Instrs) == 0 {
					continue
				}
				iff, ok := b.Instrs[len(b.Instrs)-1].(*ssa.If)
				if !ok {
					continue
				}
				if x, _, isNil := nilTest(iff.Cond); isNil {
					for _, og := range origins(x) {
						if ex, ok := og.(*ssa.Extract); ok {
							if cl, ok := ex.Tuple.(*ssa.Call); ok && isPrev(cl) {
								found = true
							}
						}
					}
				}
			}
		})
		return found
	}
	n := 0
	for _, fn := range c.LibFuncs {
		if !strings.HasPrefix(c.pkgRel(fn), "store/") {
			continue
		}
		var prevs []*ssa.Call
		allCalls(fn, func(ci ssa.CallInstruction) {
			if cl, ok := ci.(*ssa.Call); ok && isPrev(ci) {
				prevs = append(prevs, cl)
			}
		})
		if len(prevs) == 0 {
			continue
		}
		n++
		key := c.fname(fn) + "/a nil key from Prev is retried"
		ok := retries(fn)
		how := "Cursor.Prev is called in a loop governed by a nil test of the key it returned"
		if !ok {
			// or: on the nil outcome the function hands over to a helper that retries
			all := true
			for _, p := range prevs {
				handed := false
				for _, kv := range resultValues(p, 0) {
					ne := nilEdges(fn, sameValue(kv))
					allCalls(fn, func(ci ssa.CallInstruction) {
						if g := staticCallee(ci); g != nil && c.IsLib(c.declared(g)) && retries(c.declared(g)) && guardedBy(fn, ci.Block(), ne) {
							handed = true
						}
					})
				}
				if !handed {
					all = false
				}
			}
			if all {
				ok, how = true, "on a nil key the function hands over to a helper that calls Cursor.Prev in a loop governed by a nil test of its key"
			}
		}
		if ok {
			o.add(OK, key, relPath(c, prevs[0].Pos()), "%s", how)
		} else {
			o.add(VIOLATED, key, relPath(c, prevs[0].Pos()), "the key returned by bbolt's Cursor.Prev is used as it is: Prev also returns nil on a leaf emptied by deletions of the running transaction, so after deleting k0300..k0699 of k0000..k0999 a reverse scan stops at k0700 and a reverse Seek(\"k0500\") finds nothing, while badger goes on to k0299")
		}
	}
	if n == 0 {
		o.add(INFO, "bbolt adapter", "-", "no call of (*bbolt.Cursor).Prev in the adapters")
	}
	return o.list
}

// ---------------------------------------------------------------- NIL6

// NIL6: what a call hands back next to an error goes into storage that outlives the
// call (a sync.Map, a map or variable of the package, a field) only where that error
// is known to be nil. `re, err := regexp.Compile(p); cache.Store(p, re); return re, err`
// caches the nil of the failure: the first evaluation reports the error, every later
// one finds the nil entry, returns it with a nil error, and the caller calls a method
// on a nil pointer.
func ruleNIL6(c *Ctx) []Ob {
	o := newObs(c, "NIL6")
	n := 0
	for _, fn := range c.LibFuncs {
		k := 0
		allCalls(fn, func(ci ssa.CallInstruction) {
			call, ok := ci.(*ssa.Call)
			if !ok {
				return
			}
			sig := call.Call.Signature()
			if sig.Results().Len() < 2 || !isErrorType(sig.Results().At(sig.Results().Len()-1).Type()) {
				return
			}
			ei := sig.Results().Len() - 1
			var errEdges []edge
			for _, ev := range extractsOf(call, ei) {
				errEdges = append(errEdges, nilEdges(fn, sameValue(ev))...)
			}
			for ri := 0; ri < ei; ri++ {
				switch sig.Results().At(ri).Type().Underlying().(type) {
				case *types.Pointer, *types.Interface, *types.Map, *types.Slice:
				default:
					continue
				}
				for _, rv := range extractsOf(call, ri) {
					// shared sinks of rv
					var sinks []ssa.Instruction
					var walk func(v ssa.Value, depth int)
					walk = func(v ssa.Value, depth int) {
						if depth > 3 {
							return
						}
						for _, r := range realReferrers(v) {
							switch x := r.(type) {
							case *ssa.MakeInterface:
								walk(x, depth+1)
							case *ssa.ChangeInterface:
								walk(x, depth+1)
							case ssa.CallInstruction:
								full := calleeFullName(x)
								if full == "(*sync.Map).Store" || full == "(*sync.Map).LoadOrStore" || full == "(*sync.Map).Swap" {
									sinks = append(sinks, x)
								}
							case *ssa.MapUpdate:
								if x.Value == v {
									shared := false
									for _, og := range origins(x.Map) {
										if globalLoad(og) != nil {
											shared = true
										}
										if _, f, _ := fieldLoad(og); f != "" {
											shared = true
										}
									}
									if shared {
										sinks = append(sinks, x)
									}
								}
							case *ssa.Store:
								if x.Val != v {
									continue
								}
								if _, isG := x.Addr.(*ssa.Global); isG {
									sinks = append(sinks, x)
								}
							}
						}
					}
					walk(rv, 0)
					for _, sk := range sinks {
						n++
						k++
						key := fmt.Sprintf("%s/result of %s kept #%d", c.fname(fn), shortCallee(call), k)
						if guardedBy(fn, sk.Block(), errEdges) {
							o.add(OK, key, relPath(c, sk.Pos()), "stored only where the error is nil")
						} else {
							o.add(VIOLATED, key, relPath(c, sk.Pos()), "the result of %s is put into shared storage without its error having been tested: on failure the nil result is kept, a later call finds it, hands it out with a nil error, and the caller dereferences nil (Like(\"title-(\") evaluated twice)", c.calleeName(call))
						}
					}
				}
			}
		})
	}
	if n == 0 {
		o.add(OK, "caches", "-", "no result of a fallible call is put into a sync.Map, a package-level map or variable")
	}
	return o.list
}

// overwrittenByNormalised: parameter p of fn lives in a local (it is captured by a closure) and, before the
// point of use - the creation of closure sf, or the call ci when sf is fn itself - that local is assigned the
// result of a query normaliser on every path (the assigning store dominates the point of use).
func (c *Ctx) overwrittenByNormalised(fn, sf *ssa.Function, ci ssa.CallInstruction, p *ssa.Parameter, isNorm func(*ssa.Function) bool) bool {
	var use ssa.Instruction
	if sf == fn {
		use = ci
	} else {
		for _, b := range fn.Blocks {
			for _, in := range b.Instrs {
				if mc, ok := in.(*ssa.MakeClosure); ok && mc.Fn == ssa.Value(sf) {
					use = mc
				}
			}
		}
	}
	if use == nil {
		return false
	}
	for _, r := range realReferrers(p) {
		st, ok := r.(*ssa.Store)
		if !ok || st.Val != ssa.Value(p) {
			continue
		}
		al, ok := st.Addr.(*ssa.Alloc)
		if !ok {
			continue
		}
		for _, r2 := range realReferrers(al) {
			st2, ok := r2.(*ssa.Store)
			if !ok || st2.Addr != ssa.Value(al) || st2 == st {
				continue
			}
			normalised := false
			for _, og := range origins(st2.Val) {
				var call *ssa.Call
				if ex, isEx := og.(*ssa.Extract); isEx {
					call, _ = ex.Tuple.(*ssa.Call)
				} else {
					call, _ = og.(*ssa.Call)
				}
				if call != nil {
					if h := staticCallee(call); h != nil && isNorm(c.declared(h)) {
						normalised = true
					}
				}
			}
			if normalised && instrDominates(st2, use) {
				return true
			}
		}
	}
	return false
}
