package main

import (
	"encoding/json"
	"fmt"
	"os"
	"regexp"
	"sort"
	"strings"
)

// printManifest writes MANIFEST.json from the property table, so that the
// manifest never claims a rule the binary does not have.
func printManifest() int {
	props := propertyTable()
	var ids []string
	for id := range props {
		ids = append(ids, id)
	}
	sort.Strings(ids)
	var checks []map[string]interface{}
	for _, id := range ids {
		p := props[id]
		checks = append(checks, map[string]interface{}{
			"property_id":         id,
			"quick_cmd":           "./check.sh " + id + " quick",
			"thorough_cmd":        "./check.sh " + id + " thorough",
			"evidence_file":       "evidence/" + id + ".json",
			"replay_cmd_template": "./check.sh --replay {path}",
			"engine":              "cloverlint",
			"technique":           p.Technique,
			"level_claimed": map[string]interface{}{
				"category":   "other",
				"text":       fullExplanation(p) + " NOT decided by this check: " + p.NotDecided,
				"design_ref": "DESIGN.md §3 (rules " + fmt.Sprint(p.Rules) + "), §4 " + id,
			},
			"level_note": "Trusted base: Go type checker and go/ssa construction (x/tools v0.29.0); transactional semantics of bbolt/badger; the frozen tables of DESIGN.md §1/§3. The verdict is about the named structural clauses on every path/site of the current source, not about the behaviour as a whole.",
		})
	}
	var na []map[string]string
	all := allPropertyIDs()
	for _, id := range all {
		if _, ok := props[id]; !ok {
			na = append(na, map[string]string{"property_id": id, "reason": notApplicable[id]})
		}
	}
	m := map[string]interface{}{
		"version":   1,
		"setup_cmd": "./setup.sh",
		"hooks": map[string]interface{}{
			"guard":            "verif",
			"enable":           "none needed: static analysis reads the source; no instrumentation is compiled into clover",
			"baseline_off_cmd": "cd /repo && GOFLAGS=-mod=mod go test -vet=off -count=1 ./...",
			"source_commits":   []string{},
			"add_only":         true,
		},
		"engines": []map[string]interface{}{{
			"name":              "cloverlint",
			"path":              "checker/",
			"serves_properties": ids,
			"kind_free_text":    "repository-specific static analyser over go/packages + go/ssa: dominance/guard analysis, effect summaries, key-template abstract interpretation, constant-table extraction; no execution of clover",
		}},
		"checks":         checks,
		"not_applicable": na,
		"notes":          "All checks are static analysis of /repo's working tree (see DESIGN.md). Genuine defects found are listed in known_findings.json (fixed entries name the fix: commit).",
	}
	if na == nil {
		m["not_applicable"] = []map[string]string{}
	}
	b, _ := json.MarshalIndent(m, "", " ")
	os.Stdout.Write(append(b, '\n'))
	return 0
}

// fullExplanation is the property's explanation followed by one sentence per rule of its
// list that the hand-written text does not name (the rule's line of documentation), so that
// the claim always covers exactly the rules that run.
func fullExplanation(p *Property) string {
	reg := registry()
	out := p.Explanation
	seen := map[string]bool{}
	var extra []string
	for _, rn := range p.Rules {
		name := rn
		scope := ""
		if i := strings.Index(rn, "~"); i >= 0 {
			name, scope = rn[:i], rn[i+1:]
		}
		if seen[name] {
			continue
		}
		seen[name] = true
		if regexp.MustCompile(`\b` + name + `\b`).MatchString(p.Explanation) {
			continue
		}
		r := reg[name]
		if r == nil {
			continue
		}
		t := name + ": " + r.Doc
		if scope != "" {
			t += " (here only for constructs matching " + scope + ")"
		}
		extra = append(extra, t)
	}
	if len(extra) > 0 {
		out += " Further rules serving this property - " + strings.Join(extra, "; ") + "."
	}
	return out
}

func allPropertyIDs() []string {
	var out []string
	for i := 1; i <= 20; i++ {
		out = append(out, fmt.Sprintf("C%02d", i))
	}
	return out
}

// notApplicable: reason per property not (yet) claimed.
var notApplicable = map[string]string{}

func init() {
	for _, id := range allPropertyIDs() {
		notApplicable[id] = "no static rule for this property is built into the checker at this commit (see DESIGN.md §4 for the clauses planned); nothing is claimed"
	}
}

// printRulesMD writes, per property, the rules that serve it (with the scope a rule is
// restricted to, if any) and each rule's line of documentation.
func printRulesMD() int {
	props := propertyTable()
	reg := registry()
	for _, id := range allPropertyIDs() {
		p, ok := props[id]
		if !ok {
			continue
		}
		fmt.Printf("**%s** - %d rules\n\n", id, len(p.Rules))
		for _, rn := range p.Rules {
			name, scope := rn, ""
			if i := strings.Index(rn, "~"); i >= 0 {
				name, scope = rn[:i], rn[i+1:]
			}
			doc := ""
			if r := reg[name]; r != nil {
				doc = r.Doc
			}
			if scope != "" {
				fmt.Printf("* `%s` (constructs matching `%s`): %s\n", name, scope, doc)
			} else {
				fmt.Printf("* `%s`: %s\n", name, doc)
			}
		}
		fmt.Println()
	}
	return 0
}
