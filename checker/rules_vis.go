package main

import (
	"fmt"
	"go/constant"
	"go/token"
	"go/types"
	"sort"
	"strconv"
	"strings"

	"golang.org/x/tools/go/ssa"
)

// ---------------------------------------------------------------- VIS1

func (c *Ctx) visitorIface() *types.Interface {
	t := c.libType("query", "CriteriaVisitor")
	if t == nil {
		return nil
	}
	i, _ := t.Underlying().(*types.Interface)
	return i
}

// visitorTypeOf resolves the concrete visitor type (a named struct of the
// library, used by pointer) behind value v.
func (c *Ctx) visitorTypeOf(v ssa.Value) *types.Named {
	vi := c.visitorIface()
	var found *types.Named
	for _, o := range origins(v) {
		t := o.Type()
		p, ok := t.(*types.Pointer)
		if !ok {
			return nil
		}
		n, ok := p.Elem().(*types.Named)
		if !ok || vi == nil || !types.Implements(p, vi) {
			return nil
		}
		if found != nil && found != n {
			return nil
		}
		found = n
	}
	return found
}

// visitCallOf: if v is (a conversion/phi of) the result of Criteria.Accept(vis)
// or of a direct Visit* call, returns that call and the visitor argument.
func (c *Ctx) visitCallOf(v ssa.Value) (call *ssa.Call, vis ssa.Value) {
	for _, o := range origins(v) {
		cl, ok := o.(*ssa.Call)
		if !ok {
			return nil, nil
		}
		cc := cl.Common()
		if cc.IsInvoke() && cc.Method.Name() == "Accept" && c.methodBelongsTo(cc.Method, "query", "Criteria") {
			return cl, cc.Args[0]
		}
		if f := staticCallee(cl); f != nil && strings.HasPrefix(f.Name(), "Visit") && f.Signature.Recv() != nil {
			if vi := c.visitorIface(); vi != nil && types.Implements(f.Signature.Recv().Type(), vi) {
				return cl, cc.Args[0]
			}
		}
		// static Accept on a concrete criteria type
		if f := staticCallee(cl); f != nil && f.Name() == "Accept" && c.pkgRel(f) == "query" && len(cc.Args) == 2 {
			return cl, cc.Args[1]
		}
		return nil, nil
	}
	return nil, nil
}

type assertSite struct {
	fn  *ssa.Function
	ta  *ssa.TypeAssert
	vis *types.Named
}

func (c *Ctx) visitorMethods(n *types.Named) []*ssa.Function {
	var out []*ssa.Function
	vi := c.visitorIface()
	if vi == nil {
		return nil
	}
	ms := c.Prog.MethodSets.MethodSet(types.NewPointer(n))
	for i := 0; i < vi.NumMethods(); i++ {
		sel := ms.Lookup(vi.Method(i).Pkg(), vi.Method(i).Name())
		if sel == nil {
			continue
		}
		if f := c.Prog.MethodValue(sel); f != nil {
			out = append(out, c.declared(f))
		}
	}
	return out
}

func assignableTo(t, target types.Type) bool {
	if types.AssignableTo(t, target) {
		return true
	}
	if it, ok := target.Underlying().(*types.Interface); ok {
		return types.Implements(t, it)
	}
	return false
}

func ruleVIS1(c *Ctx) []Ob {
	o := newObs(c, "VIS1")
	var sites []assertSite
	for _, fn := range c.LibFuncs {
		for _, b := range fn.Blocks {
			for _, in := range b.Instrs {
				ta, ok := in.(*ssa.TypeAssert)
				if !ok || ta.CommaOk {
					continue
				}
				call, vis := c.visitCallOf(ta.X)
				if call == nil {
					continue
				}
				n := c.visitorTypeOf(vis)
				if n == nil {
					o.add(UNDECIDED, c.fname(fn)+"/assert "+typeString(ta.AssertedType), relPath(c, ta.Pos()), "unchecked assertion on a visitor result whose visitor type cannot be resolved")
					continue
				}
				sites = append(sites, assertSite{fn, ta, n})
			}
		}
	}
	byVis := map[*types.Named][]assertSite{}
	var order []*types.Named
	for _, s := range sites {
		if _, ok := byVis[s.vis]; !ok {
			order = append(order, s.vis)
		}
		byVis[s.vis] = append(byVis[s.vis], s)
	}
	sort.Slice(order, func(i, j int) bool { return order[i].Obj().Name() < order[j].Obj().Name() })
	for _, vis := range order {
		ss := byVis[vis]
		// which sites tolerate a nil result?
		var unguarded []assertSite
		for _, s := range ss {
			if !c.assertGuarded(s) {
				unguarded = append(unguarded, s)
			}
		}
		asserted := map[string]types.Type{}
		for _, s := range ss {
			asserted[typeString(s.ta.AssertedType)] = s.ta.AssertedType
		}
		for _, m := range c.visitorMethods(vis) {
			for _, ret := range returnsOf(m) {
				rv, ok := returnedValue(ret, 0)
				if !ok {
					continue
				}
				for _, og := range origins(rv) {
					key := vis.Obj().Name() + "." + m.Name() + "/return " + describeValue(c, og)
					pos := relPath(c, ret.Pos())
					if isNilConst(og) {
						if len(unguarded) > 0 {
							u := unguarded[0]
							o.add(VIOLATED, key, pos, "returns nil, but %d caller(s) assert the result unchecked, e.g. .(%s) in %s at %s: `interface conversion: interface {} is nil` panic", len(unguarded), typeString(u.ta.AssertedType), c.fname(u.fn), relPath(c, u.ta.Pos()))
						} else if !c.nilReturnFlagged(m, ret, vis) {
							o.add(VIOLATED, key, pos, "returns nil without recording an error in the visitor (error-flag idiom) although callers rely on the flag")
						} else {
							o.add(OK, key, pos, "nil result only with the visitor's error flag set; every assertion site is guarded by the flag or a nil test")
						}
						continue
					}
					if cl, ok := og.(*ssa.Call); ok {
						if _, v2 := c.visitCallOf(cl); v2 != nil {
							if n2 := c.visitorTypeOf(v2); n2 == vis {
								o.add(OK, key, pos, "result of a recursive visit with the same visitor (induction)")
								continue
							}
						}
					}
					t := og.Type()
					bad := ""
					for name, at := range asserted {
						if !assignableTo(t, at) {
							bad = name
						}
					}
					if bad != "" {
						o.add(VIOLATED, key, pos, "returns a %s, but callers assert .(%s) unchecked", typeString(t), bad)
					} else {
						o.add(OK, key, pos, "static type %s satisfies every unchecked assertion on this visitor's results", typeString(t))
					}
				}
			}
		}
		for _, s := range ss {
			o.add(OK, "site "+c.fname(s.fn)+"/"+vis.Obj().Name()+" .("+typeString(s.ta.AssertedType)+")", relPath(c, s.ta.Pos()), "assertion site resolved to visitor %s", vis.Obj().Name())
		}
	}
	return o.list
}

// assertGuarded: the assertion executes only when its operand is known non-nil,
// or when the visitor's error field is known nil.
func (c *Ctx) assertGuarded(s assertSite) bool {
	fn := s.fn
	x := s.ta.X
	if guardedBy(fn, s.ta.Block(), nonNilEdges(fn, func(v ssa.Value) bool { return v == x || sameOrigin(v, x) })) {
		return true
	}
	// false edge of v.err != nil
	flag := nilEdges(fn, func(v ssa.Value) bool {
		_, f, n := fieldLoad(v)
		return f != "" && n == s.vis && isErrorType(v.Type())
	})
	return guardedBy(fn, s.ta.Block(), flag)
}

// nilReturnFlagged: the nil return of method m is preceded by a store to an
// error field of the visitor, or happens only when a recursive result was nil.
func (c *Ctx) nilReturnFlagged(m *ssa.Function, ret *ssa.Return, vis *types.Named) bool {
	for _, b := range m.Blocks {
		for _, in := range b.Instrs {
			st, ok := in.(*ssa.Store)
			if !ok {
				continue
			}
			_, f, n := fieldOfAddr(st.Addr)
			if f == "" || n != vis || !isErrorType(st.Val.Type()) {
				continue
			}
			if instrDominates(st, ret) {
				return true
			}
		}
	}
	// nil test of a recursive result
	rec := nilEdges(m, func(v ssa.Value) bool {
		call, _ := c.visitCallOf(v)
		return call != nil
	})
	return guardedBy(m, ret.Block(), rec)
}

// ---------------------------------------------------------------- NIL1

func ruleNIL1(c *Ctx) []Ob {
	o := newObs(c, "NIL1")
	// summary: (ptr, ..., error) functions that can return a nil pointer
	mayNil := map[*ssa.Function]bool{}
	for _, fn := range c.LibFuncs {
		res := fn.Signature.Results()
		if res.Len() < 2 || errResultIndex(fn.Signature) < 0 {
			continue
		}
		if _, ok := res.At(0).Type().Underlying().(*types.Pointer); !ok {
			continue
		}
		for _, ret := range returnsOf(fn) {
			rv, ok := returnedValue(ret, 0)
			if !ok {
				continue
			}
			for _, og := range origins(rv) {
				if isNilConst(og) {
					mayNil[fn] = true
				}
				// forwarding another may-nil function's result
				if ex, ok := og.(*ssa.Extract); ok {
					if cl, ok := ex.Tuple.(*ssa.Call); ok {
						if g := staticCallee(cl); g != nil && mayNil[c.declared(g)] {
							mayNil[fn] = true
						}
					}
				}
			}
		}
	}
	for _, fn := range c.LibFuncs {
		for _, b := range fn.Blocks {
			for _, in := range b.Instrs {
				call, ok := in.(*ssa.Call)
				if !ok {
					continue
				}
				g := staticCallee(call)
				if g == nil || !mayNil[c.declared(g)] {
					continue
				}
				g = c.declared(g)
				ei := errResultIndex(g.Signature)
				ps := resultValues(call, 0)
				es := resultValues(call, ei)
				key := c.fname(fn) + "/" + c.fname(g)
				pos := relPath(c, call.Pos())
				if len(ps) == 0 {
					o.add(OK, key, pos, "pointer result unused")
					continue
				}
				p := ps[0]
				var errV ssa.Value
				if len(es) > 0 {
					errV = es[0]
				}
				var guards []edge
				if errV != nil {
					guards = append(guards, nilEdges(fn, sameValue(errV))...)
				}
				guards = append(guards, nonNilEdges(fn, sameValue(p))...)
				bad := ""
				for _, r := range realReferrers(p) {
					deref := false
					switch x := r.(type) {
					case *ssa.FieldAddr:
						deref = x.X == p
					case *ssa.Field:
						deref = true
					case *ssa.UnOp:
						deref = x.Op == token.MUL && x.X == p
					case ssa.CallInstruction:
						cc := x.Common()
						if !cc.IsInvoke() && len(cc.Args) > 0 && cc.Args[0] == p {
							if f := staticCallee(x); f != nil && f.Signature.Recv() != nil {
								deref = true
							}
						}
					}
					if deref && !guardedBy(fn, r.Block(), guards) {
						bad = relPath(c, r.Pos())
					}
				}
				if bad != "" {
					o.add(VIOLATED, key, pos, "%s can return (nil, err); its pointer result is dereferenced at %s on a path where err was not found nil", c.fname(g), bad)
				} else {
					o.add(OK, key, pos, "every dereference of the result is behind the err == nil (or non-nil pointer) test")
				}
			}
		}
	}
	return o.list
}

// ---------------------------------------------------------------- OPS1 / OPS2

type opsModel struct {
	constructor *ssa.Function
	opParam     int
	valParam    int
	built       map[int64][]ssa.CallInstruction // op -> constructor call sites
	literal     map[int64][]ssa.Instruction     // op -> literal stores
	opNames     map[int64]string
}

func (c *Ctx) opName(k int64) string {
	p := c.LibTypes[c.ModPath+"/query"]
	if p == nil {
		return fmt.Sprint(k)
	}
	var names []string
	for _, n := range p.Types.Scope().Names() {
		if !strings.HasSuffix(n, "Op") {
			continue
		}
		if cst, ok := p.Types.Scope().Lookup(n).(*types.Const); ok {
			if v, ok := constantInt(cst); ok && v == k {
				names = append(names, n)
			}
		}
	}
	if len(names) == 0 {
		return fmt.Sprint(k)
	}
	return names[0]
}

func constantInt(cst *types.Const) (int64, bool) {
	v := cst.Val()
	if v == nil {
		return 0, false
	}
	s := v.ExactString()
	var i int64
	_, err := fmt.Sscan(s, &i)
	return i, err == nil
}

func (c *Ctx) opConst(name string) (int64, bool) {
	p := c.LibTypes[c.ModPath+"/query"]
	if p == nil {
		return 0, false
	}
	cst, ok := p.Types.Scope().Lookup(name).(*types.Const)
	if !ok {
		return 0, false
	}
	return constantInt(cst)
}

// isOpTypeLoad: v loads UnaryCriteria.OpType
func (c *Ctx) isFieldLoadOf(v ssa.Value, rel, typ, field string) bool {
	_, f, n := fieldLoad(v)
	return f == field && n != nil && c.libNamedIs(n, rel, typ)
}

func (c *Ctx) buildOpsModel() *opsModel {
	m := &opsModel{built: map[int64][]ssa.CallInstruction{}, literal: map[int64][]ssa.Instruction{}, opParam: -1, valParam: -1}
	// constructor: function of package query storing a parameter into UnaryCriteria.OpType
	for _, fn := range c.LibFuncs {
		if c.pkgRel(fn) != "query" {
			continue
		}
		for _, b := range fn.Blocks {
			for _, in := range b.Instrs {
				st, ok := in.(*ssa.Store)
				if !ok {
					continue
				}
				_, f, n := fieldOfAddr(st.Addr)
				if n == nil || !c.libNamedIs(n, "query", "UnaryCriteria") {
					continue
				}
				if p, ok := st.Val.(*ssa.Parameter); ok {
					if f == "OpType" {
						m.constructor = fn
						m.opParam = paramIndex(fn, p)
					}
				}
				if mi, ok := st.Val.(*ssa.Parameter); ok && f == "Value" {
					m.valParam = paramIndex(fn, mi)
				}
			}
		}
	}
	for _, fn := range c.LibFuncs {
		for _, b := range fn.Blocks {
			for _, in := range b.Instrs {
				switch x := in.(type) {
				case *ssa.Store:
					_, f, n := fieldOfAddr(x.Addr)
					if f == "OpType" && n != nil && c.libNamedIs(n, "query", "UnaryCriteria") {
						if k, ok := constInt(x.Val); ok {
							m.literal[k] = append(m.literal[k], in)
						}
					}
				case ssa.CallInstruction:
					if m.constructor != nil && staticCallee(x) == m.constructor && m.opParam >= 0 {
						if k, ok := constInt(x.Common().Args[m.opParam]); ok {
							m.built[k] = append(m.built[k], x)
						} else {
							m.built[-1] = append(m.built[-1], x)
						}
					}
				}
			}
		}
	}
	return m
}

// opCases: constants K compared with UnaryCriteria.OpType in fn, with the true edges.
func (c *Ctx) opCases(fn *ssa.Function, typ, field string) map[int64][]edge {
	out := map[int64][]edge{}
	ifEdges(fn, func(cond ssa.Value, e edge) {
		b, ok := cond.(*ssa.BinOp)
		if !ok || (b.Op != token.EQL && b.Op != token.NEQ) {
			return
		}
		var k int64
		var okc bool
		var other ssa.Value
		if k, okc = constInt(b.Y); okc {
			other = b.X
		} else if k, okc = constInt(b.X); okc {
			other = b.Y
		} else {
			return
		}
		isField := false
		for _, og := range origins(other) {
			if c.isFieldLoadOf(og, "query", typ, field) {
				isField = true
			}
			// a selector function given the operator as a parameter (predicateOf(c.OpType)): every library call
			// site passes the field
			if p, isP := og.(*ssa.Parameter); isP && p.Parent() == fn {
				idx := -1
				for i, q := range fn.Params {
					if q == p {
						idx = i
					}
				}
				sites := c.staticCallers(fn)
				all := idx >= 0 && len(sites) > 0
				for _, cs := range sites {
					args := cs.Common().Args
					if idx >= len(args) {
						all = false
						continue
					}
					okArg := false
					for _, ao := range origins(args[idx]) {
						if c.isFieldLoadOf(ao, "query", typ, field) {
							okArg = true
						}
					}
					if !okArg {
						all = false
					}
				}
				if all {
					isField = true
				}
			}
		}
		if !isField {
			return
		}
		if (b.Op == token.EQL) == e.Branch {
			out[k] = append(out[k], e)
		}
	})
	// the cases of a selector function the operator is handed to count for fn as well
	if !opCasesBusy[fn] {
		opCasesBusy[fn] = true
		allCalls(fn, func(ci ssa.CallInstruction) {
			g := staticCallee(ci)
			if g == nil || !c.IsLib(c.declared(g)) || c.declared(g) == fn {
				return
			}
			passes := false
			for _, a := range ci.Common().Args {
				for _, ao := range origins(a) {
					if c.isFieldLoadOf(ao, "query", typ, field) {
						passes = true
					}
				}
			}
			if !passes {
				return
			}
			for k, es := range c.opCases(c.declared(g), typ, field) {
				if len(out[k]) == 0 {
					out[k] = append(out[k], es...)
				}
			}
		})
		delete(opCasesBusy, fn)
	}
	return out
}

var opCasesBusy = map[*ssa.Function]bool{}

func ruleOPS1(c *Ctx) []Ob {
	o := newObs(c, "OPS1")
	m := c.buildOpsModel()
	sat := c.lookupMethod("query", "UnaryCriteria", "Satisfy")
	if m.constructor == nil || sat == nil {
		o.add(UNDECIDED, "model", "-", "criteria constructor or UnaryCriteria.Satisfy not found")
		return o.list
	}
	cases := c.opCases(sat, "UnaryCriteria", "OpType")
	table := c.opTable(sat)
	if _, dyn := m.built[-1]; dyn {
		o.add(UNDECIDED, "constructor/non-constant-op", relPath(c, m.built[-1][0].Pos()), "criteria constructed with a non-constant operator")
	}
	ops := map[int64]bool{}
	for k := range m.built {
		if k >= 0 {
			ops[k] = true
		}
	}
	for k := range m.literal {
		ops[k] = true
	}
	var ks []int64
	for k := range ops {
		ks = append(ks, k)
	}
	sort.Slice(ks, func(i, j int) bool { return ks[i] < ks[j] })
	for _, k := range ks {
		key := "op " + c.opName(k) + "/handled"
		var pos string
		if len(m.built[k]) > 0 {
			pos = relPath(c, m.built[k][0].Pos())
		} else {
			pos = relPath(c, m.literal[k][0].Pos())
		}
		if len(cases[k]) == 0 && table[k] == nil {
			o.add(VIOLATED, key, pos, "operator %s is constructed but UnaryCriteria.Satisfy has no case for it: such a criteria silently matches nothing", c.opName(k))
		} else if table[k] != nil {
			o.add(OK, key, pos, "constructed operator has an entry (%s) in the dispatch table of UnaryCriteria.Satisfy", c.fname(table[k]))
			if inner := c.opCases(table[k], "UnaryCriteria", "OpType"); len(inner) > 0 {
				k2 := "op " + c.opName(k) + "/routed to " + c.fname(table[k])
				if len(inner[k]) == 0 {
					o.add(VIOLATED, k2, pos, "the table routes %s to %s, whose inner switch has no case for it", c.opName(k), c.fname(table[k]))
				} else {
					o.add(OK, k2, pos, "inner switch of %s covers the routed operator", c.fname(table[k]))
				}
			}
		} else {
			o.add(OK, key, pos, "constructed operator has a case in UnaryCriteria.Satisfy")
		}
	}
	// routing into helper methods with their own inner switch ending in panic
	for _, b := range sat.Blocks {
		for _, in := range b.Instrs {
			call, ok := in.(*ssa.Call)
			if !ok {
				continue
			}
			g := staticCallee(call)
			if g == nil || !c.IsLib(g) {
				continue
			}
			inner := c.opCases(g, "UnaryCriteria", "OpType")
			if len(inner) == 0 {
				continue
			}
			for k, es := range cases {
				routed := false
				for _, e := range es {
					if e.to() == b || e.to().Dominates(b) {
						routed = true
					}
				}
				if !routed {
					continue
				}
				key := "op " + c.opName(k) + "/routed to " + c.fname(g)
				if len(inner[k]) == 0 {
					o.add(VIOLATED, key, relPath(c, call.Pos()), "Satisfy routes %s to %s, whose inner switch has no case for it (falls into its trailing panic)", c.opName(k), c.fname(g))
				} else {
					o.add(OK, key, relPath(c, call.Pos()), "inner switch of %s covers the routed operator", c.fname(g))
				}
			}
		}
	}
	return o.list
}

func ruleOPS2(c *Ctx) []Ob {
	o := newObs(c, "OPS2")
	m := c.buildOpsModel()
	sat := c.lookupMethod("query", "UnaryCriteria", "Satisfy")
	if m.constructor == nil || sat == nil || m.valParam < 0 {
		o.add(UNDECIDED, "model", "-", "criteria constructor or UnaryCriteria.Satisfy not found")
		return o.list
	}
	cases := c.opCases(sat, "UnaryCriteria", "OpType")
	// evaluator side: unchecked assertions on c.Value per operator
	assertsIn := func(fn *ssa.Function, within func(b *ssa.BasicBlock) bool) []*ssa.TypeAssert {
		var out []*ssa.TypeAssert
		for _, b := range fn.Blocks {
			if !within(b) {
				continue
			}
			for _, in := range b.Instrs {
				ta, ok := in.(*ssa.TypeAssert)
				if !ok || ta.CommaOk {
					continue
				}
				for _, og := range origins(ta.X) {
					if c.isFieldLoadOf(og, "query", "UnaryCriteria", "Value") {
						out = append(out, ta)
					}
				}
			}
		}
		return out
	}
	table := c.opTable(sat)
	var ks []int64
	for k := range cases {
		ks = append(ks, k)
	}
	for k := range table {
		if _, dup := cases[k]; !dup {
			ks = append(ks, k)
		}
	}
	sort.Slice(ks, func(i, j int) bool { return ks[i] < ks[j] })
	for _, k := range ks {
		var tas []*ssa.TypeAssert
		var where []*ssa.Function
		if table[k] != nil {
			where = append(where, table[k])
			// a table entry may be a small wrapper around the evaluator
			for g := range c.staticReach(table[k]) {
				if g != table[k] && c.pkgRel(g) == "query" {
					where = append(where, g)
				}
			}
		}
		for _, e := range cases[k] {
			body := e.to()
			// the case may live in a selector function the operator is handed to
			host := body.Parent()
			tas = append(tas, assertsIn(host, func(b *ssa.BasicBlock) bool { return b == body || body.Dominates(b) })...)
			for _, b := range host.Blocks {
				if !(b == body || body.Dominates(b)) {
					continue
				}
				for _, in := range b.Instrs {
					if call, ok := in.(*ssa.Call); ok {
						if g := staticCallee(call); g != nil && c.IsLib(g) && c.pkgRel(g) == "query" {
							where = append(where, g)
						}
					}
					// an evaluator handed back as a function value
					for _, op := range in.Operands(nil) {
						if op == nil || *op == nil {
							continue
						}
						for _, og := range origins(*op) {
							if g := closureFn(og); g != nil && c.IsLib(c.declared(g)) && c.pkgRel(g) == "query" {
								if _, isCall := in.(*ssa.Call); !isCall || in.(*ssa.Call).Common().Value != *op {
									where = append(where, c.declared(g))
									for h := range c.staticReach(c.declared(g)) {
										if h != g && c.pkgRel(h) == "query" {
											where = append(where, h)
										}
									}
								}
							}
						}
					}
				}
			}
		}
		{
			seenW := map[*ssa.Function]bool{}
			var uniq []*ssa.Function
			for _, g := range where {
				if !seenW[g] {
					seenW[g] = true
					uniq = append(uniq, g)
				}
			}
			where = uniq
		}
		for _, g := range where {
			tas = append(tas, assertsIn(g, func(*ssa.BasicBlock) bool { return true })...)
		}
		for _, ta := range tas {
			key := "op " + c.opName(k) + "/value .(" + typeString(ta.AssertedType) + ")"
			pos := relPath(c, ta.Pos())
			sites := m.built[k]
			if len(sites) == 0 {
				o.add(INFO, key, pos, "operator never constructed by the library builders")
				continue
			}
			bad := ""
			for _, s := range sites {
				v := stripIfaceOnly(s.Common().Args[m.valParam])
				if !types.Identical(v.Type(), ta.AssertedType) {
					bad = fmt.Sprintf("%s builds the value as %s", c.fname(s.Parent()), typeString(v.Type()))
				}
			}
			if bad != "" {
				o.add(VIOLATED, key, pos, "evaluator asserts .(%s) unchecked but %s", typeString(ta.AssertedType), bad)
			} else {
				o.add(OK, key, pos, "every builder of %s stores exactly a %s", c.opName(k), typeString(ta.AssertedType))
			}
		}
	}
	return o.list
}

// ---------------------------------------------------------------- PANIC1

// panicTies: explicit panic sites and the rule that makes each unreachable.
var panicTies = map[string]string{
	"util.ToFloat64":              "only canonical numbers arrive: CMP4 (operands normalised) + CMP5 (Normalize yields int64/uint64/float64)",
	"util.ToInt64":                "only int64/uint64 arrive: CMP4 + CMP5",
	"query.UnaryCriteria.compare": "OPS1: operators routed to compare are a subset of its inner switch",
	"index.extractDocId":          "KEY3: every index key is written with the 36-byte document id appended (validated uuid, ID2)",
}

// satisfyPanicFree evaluates UnaryCriteria.Satisfy abstractly for every operator constant
// declared in package query (names ending in Op) with the comparison, the normaliser and the
// document accessors left open, and records which explicit panic sites are reached. decided is
// false when the evaluation could not be carried out.
func (c *Ctx) satisfyPanicFree() (unreached func(token.Pos) bool, decided bool) {
	if c.satPanics == nil {
		c.satPanics = map[token.Pos]bool{}
		c.satPanicsDecided = false
		sat := c.lookupMethod("query", "UnaryCriteria", "Satisfy")
		p := c.LibTypes[c.ModPath+"/query"]
		if sat != nil && p != nil {
			c.satPanicsDecided = true
			n := 0
			for _, name := range p.Types.Scope().Names() {
				if !strings.HasSuffix(name, "Op") {
					continue
				}
				cst, ok := p.Types.Scope().Lookup(name).(*types.Const)
				if !ok {
					continue
				}
				k, ok := constantInt(cst)
				if !ok {
					continue
				}
				n++
				te := c.newTagEval()
				te.descendUnknown = true
				te.maxVisits = 6
				te.loadHook = func(l *ssa.UnOp) (aval, bool) {
					if c.isFieldLoadOf(l, "query", "UnaryCriteria", "OpType") {
						return aval{K: aConst, C: constant.MakeInt64(k)}, true
					}
					return aval{}, false
				}
				te.callHook = func(call *ssa.Call) ([]aval, bool) {
					if g := staticCallee(call); g != nil && c.pkgRel(c.declared(g)) != "query" {
						// everything outside the evaluator is left open
						res := make([]aval, g.Signature.Results().Len())
						return res, true
					}
					return nil, false
				}
				for _, oc := range te.Eval(sat, []aval{{K: aConst}, {}}, 0) {
					if oc.Panic && oc.Why == "explicit panic" {
						c.satPanics[oc.Pos] = true
					}
				}
			}
			if n == 0 {
				c.satPanicsDecided = false
			}
		}
	}
	return func(pos token.Pos) bool { return !c.satPanics[pos] }, c.satPanicsDecided
}

func rulePANIC1(c *Ctx) []Ob {
	o := newObs(c, "PANIC1")
	satReach := map[*ssa.Function]bool{}
	if sat := c.lookupMethod("query", "UnaryCriteria", "Satisfy"); sat != nil {
		satReach = c.staticReach(sat)
	}
	for _, fn := range c.LibFuncs {
		for _, b := range fn.Blocks {
			for _, in := range b.Instrs {
				pn, ok := in.(*ssa.Panic)
				if !ok || !pn.Pos().IsValid() {
					continue // synthetic (select fall-through), not a source-level panic
				}
				name := c.fname(fn)
				key := name + "/panic"
				reraised := false
				for _, og := range origins(pn.X) {
					if cl, ok := og.(*ssa.Call); ok {
						if b, ok := cl.Common().Value.(*ssa.Builtin); ok && b.Name() == "recover" {
							reraised = true
						}
					}
				}
				if reraised {
					o.add(OK, key+" (re-raise)", relPath(c, pn.Pos()), "re-raises the value obtained from recover(): not a new panic site")
					continue
				}
				if tie, ok := panicTies[name]; ok {
					o.add(OK, key, relPath(c, pn.Pos()), "explicit panic accounted for: %s", tie)
				} else if unreached, decided := c.satisfyPanicFree(); decided && c.pkgRel(fn) == "query" && satReach[rootFunc(fn)] && unreached(pn.Pos()) {
					o.add(OK, key, relPath(c, pn.Pos()), "explicit panic in the criteria evaluator that UnaryCriteria.Satisfy, evaluated abstractly for every operator constant of package query, never reaches (the operators routed to this function are a subset of the cases it handles)")
				} else {
					o.add(UNDECIDED, key, relPath(c, pn.Pos()), "new explicit panic site with no rule making it unreachable from the public API")
				}
			}
		}
	}
	return o.list
}

// opTable: operator dispatch by table. If fn indexes a package-level array/slice/map
// of functions with UnaryCriteria.OpType, returns the function registered per
// operator constant (read from the package initialiser).
func (c *Ctx) opTable(fn *ssa.Function) map[int64]*ssa.Function {
	var table *ssa.Global
	for _, b := range fn.Blocks {
		for _, in := range b.Instrs {
			var base, idx ssa.Value
			switch x := in.(type) {
			case *ssa.IndexAddr:
				base, idx = x.X, x.Index
			case *ssa.Index:
				base, idx = x.X, x.Index
			case *ssa.Lookup:
				base, idx = x.X, x.Index
			default:
				continue
			}
			isOp := false
			for _, og := range origins(idx) {
				if c.isFieldLoadOf(og, "query", "UnaryCriteria", "OpType") {
					isOp = true
				}
			}
			if !isOp {
				continue
			}
			if g, ok := base.(*ssa.Global); ok {
				table = g
			} else if g := globalLoad(base); g != nil {
				table = g
			}
		}
	}
	if table == nil || table.Pkg == nil {
		return nil
	}
	out := map[int64]*ssa.Function{}
	init := table.Pkg.Func("init")
	if init == nil {
		return nil
	}
	record := func(k int64, v ssa.Value) {
		for _, og := range origins(v) {
			if f := closureFn(og); f != nil {
				out[k] = c.declared(f)
			}
		}
	}
	for _, b := range init.Blocks {
		for _, in := range b.Instrs {
			switch x := in.(type) {
			case *ssa.Store:
				ia, ok := x.Addr.(*ssa.IndexAddr)
				if !ok {
					continue
				}
				root := ia.X
				if al, isAlloc := root.(*ssa.Alloc); isAlloc {
					// literal built in a temporary, then copied/sliced into the global
					_ = al
				} else if g, isG := root.(*ssa.Global); !isG || g != table {
					continue
				}
				if k, ok := constInt(ia.Index); ok {
					record(k, x.Val)
				}
			case *ssa.MapUpdate:
				if k, ok := constInt(x.Key); ok {
					record(k, x.Value)
				}
			}
		}
	}
	return out
}

// ---------------------------------------------------------------- OPS4

func boolConst(b bool) aval { return aval{K: aConst, C: constant.MakeBool(b)} }

func avalBool(a aval) (bool, bool) {
	if a.K != aConst || a.C == nil || a.C.Kind() != constant.Bool {
		return false, false
	}
	return constant.BoolVal(a.C), true
}

// singleBool: all outcomes return the same constant bool as first result.
func singleBool(outs []outcome) (bool, string) {
	if len(outs) == 0 {
		return false, "no outcome"
	}
	var first *bool
	for _, oc := range outs {
		if oc.Panic {
			return false, "panic: " + oc.Why
		}
		if len(oc.Vals) == 0 {
			return false, "no result"
		}
		b, ok := avalBool(oc.Vals[0])
		if !ok {
			return false, "result not decided by the operands' results (" + oc.Vals[0].String() + ")"
		}
		if first != nil && *first != b {
			return false, "result differs between paths"
		}
		bb := b
		first = &bb
	}
	return *first, ""
}

// OPS4: the connectives and the ordering operators follow their truth tables.
// BinaryCriteria.Satisfy, NotCriteria.Satisfy and the comparison evaluator are
// abstractly evaluated with the operands' results injected as constants (every
// combination), and must return the constant the table prescribes on every path.
func ruleOPS4(c *Ctx) []Ob {
	o := newObs(c, "OPS4")
	andK, ok1 := c.opConst("LogicalAnd")
	orK, ok2 := c.opConst("LogicalOr")
	binSat := c.lookupMethod("query", "BinaryCriteria", "Satisfy")
	notSat := c.lookupMethod("query", "NotCriteria", "Satisfy")
	if !ok1 || !ok2 || binSat == nil || notSat == nil {
		o.add(UNDECIDED, "model", "-", "BinaryCriteria/NotCriteria.Satisfy or the connective constants not found")
		return o.list
	}
	isSatisfyOf := func(call *ssa.Call, field string) bool {
		cc := call.Common()
		if !cc.IsInvoke() || cc.Method.Name() != "Satisfy" {
			return false
		}
		for _, og := range origins(cc.Value) {
			if _, f, n := fieldLoad(og); f == field && n != nil && namedPkgPath(n) == c.ModPath+"/query" {
				return true
			}
		}
		return false
	}
	type conn struct {
		name string
		k    int64
		f    func(a, b bool) bool
	}
	conns := []conn{
		{"And", andK, func(a, b bool) bool { return a && b }},
		{"Or", orK, func(a, b bool) bool { return a || b }},
	}
	for _, op := range conns {
		for _, a := range []bool{false, true} {
			for _, b := range []bool{false, true} {
				op, a, b := op, a, b
				te := c.newTagEval()
				te.descendUnknown = true
				te.loadHook = func(l *ssa.UnOp) (aval, bool) {
					if c.isFieldLoadOf(l, "query", "BinaryCriteria", "OpType") {
						return aval{K: aConst, C: constant.MakeInt64(op.k)}, true
					}
					return aval{}, false
				}
				te.callHook = func(call *ssa.Call) ([]aval, bool) {
					if isSatisfyOf(call, "C1") {
						return []aval{boolConst(a)}, true
					}
					if isSatisfyOf(call, "C2") {
						return []aval{boolConst(b)}, true
					}
					return nil, false
				}
				got, why := singleBool(te.Eval(binSat, []aval{{}, {}}, 0))
				key := fmt.Sprintf("%s(%v, %v)", op.name, a, b)
				switch {
				case why != "":
					o.add(UNDECIDED, key, relPath(c, binSat.Pos()), "BinaryCriteria.Satisfy: %s", why)
				case got != op.f(a, b):
					o.add(VIOLATED, key, relPath(c, binSat.Pos()), "BinaryCriteria.Satisfy returns %v for %s of %v and %v", got, op.name, a, b)
				default:
					o.add(OK, key, relPath(c, binSat.Pos()), "= %v", got)
				}
			}
		}
	}
	for _, a := range []bool{false, true} {
		a := a
		te := c.newTagEval()
		te.descendUnknown = true
		te.callHook = func(call *ssa.Call) ([]aval, bool) {
			if isSatisfyOf(call, "C") {
				return []aval{boolConst(a)}, true
			}
			return nil, false
		}
		got, why := singleBool(te.Eval(notSat, []aval{{}, {}}, 0))
		key := fmt.Sprintf("Not(%v)", a)
		switch {
		case why != "":
			o.add(UNDECIDED, key, relPath(c, notSat.Pos()), "NotCriteria.Satisfy: %s", why)
		case got != !a:
			o.add(VIOLATED, key, relPath(c, notSat.Pos()), "NotCriteria.Satisfy returns %v for Not(%v)", got, a)
		default:
			o.add(OK, key, relPath(c, notSat.Pos()), "= %v", got)
		}
	}
	// the connective builders construct what they are named after
	for _, b := range []struct {
		name string
		k    int64
	}{{"and", andK}, {"or", orK}} {
		f := c.lookupFunc("query", b.name)
		key := "builder " + b.name
		if f == nil {
			o.add(INFO, key, "-", "builder function not found by name (connectives are checked at their evaluation)")
			continue
		}
		okb := false
		for _, ret := range returnsOf(f) {
			rv, ok := returnedValue(ret, 0)
			if !ok {
				continue
			}
			ln := c.describeLiteral(rv, 0)
			if ln == nil || ln.Type != "BinaryCriteria" {
				continue
			}
			got, stored := ln.Fields["OpType"]
			if (stored && got == fmt.Sprintf("const %d", b.k)) || (!stored && b.k == 0) {
				okb = true
			}
		}
		if okb {
			o.add(OK, key, relPath(c, f.Pos()), "builds a BinaryCriteria with the matching connective")
		} else {
			o.add(VIOLATED, key, relPath(c, f.Pos()), "the %s builder does not construct a BinaryCriteria with connective %s", b.name, b.name)
		}
	}
	// ordering operators: the relation applied to the three-way comparison result
	sat := c.lookupMethod("query", "UnaryCriteria", "Satisfy")
	cmp := c.lookupFunc("internal", "Compare")
	norm := c.lookupFunc("internal", "Normalize")
	hasM := c.lookupMethod("document", "Document", "Has")
	if sat != nil && cmp != nil {
		rel := map[string]func(r int64) bool{
			"GtOp": func(r int64) bool { return r > 0 }, "GtEqOp": func(r int64) bool { return r >= 0 },
			"LtOp": func(r int64) bool { return r < 0 }, "LtEqOp": func(r int64) bool { return r <= 0 },
			"EqOp": func(r int64) bool { return r == 0 },
		}
		var names []string
		for n := range rel {
			names = append(names, n)
		}
		sort.Strings(names)
		for _, name := range names {
			k, okk := c.opConst(name)
			if !okk {
				continue
			}
			for _, r := range []int64{-1, 0, 1} {
				name, k, r := name, k, r
				te := c.newTagEval()
				te.descendUnknown = true
				te.loadHook = func(l *ssa.UnOp) (aval, bool) {
					if c.isFieldLoadOf(l, "query", "UnaryCriteria", "OpType") {
						return aval{K: aConst, C: constant.MakeInt64(k)}, true
					}
					return aval{}, false
				}
				te.callHook = func(call *ssa.Call) ([]aval, bool) {
					g := staticCallee(call)
					if g == nil {
						return nil, false
					}
					g = c.declared(g)
					switch g {
					case cmp:
						return []aval{{K: aConst, C: constant.MakeInt64(r)}}, true
					case norm:
						return []aval{{}, {K: aTag, Tag: nil}}, true
					case hasM:
						return []aval{boolConst(true)}, true
					}
					return nil, false
				}
				got, why := singleBool(te.Eval(sat, []aval{{K: aConst}, {}}, 0))
				key := fmt.Sprintf("%s with compare = %d", name, r)
				switch {
				case why != "":
					o.add(UNDECIDED, key, relPath(c, sat.Pos()), "UnaryCriteria.Satisfy: %s", why)
				case got != rel[name](r):
					o.add(VIOLATED, key, relPath(c, sat.Pos()), "a field present in the document and comparing %d with the operand gives %v for %s", r, got, name)
				default:
					o.add(OK, key, relPath(c, sat.Pos()), "= %v", got)
				}
			}
		}
	}
	return softenUndecided(o.list)
}

// ---------------------------------------------------------------- OPS5

// elementIndex: v is (derived from) an element s[i] of a slice for which
// isSlice(s) holds; returns the abstract value of i in the current frame.
func elementIndex(v ssa.Value, isSlice func(ssa.Value) bool, val func(ssa.Value) aval, depth int) (int64, bool) {
	if v == nil || depth > 8 {
		return 0, false
	}
	switch x := v.(type) {
	case *ssa.UnOp:
		if ia, ok := x.X.(*ssa.IndexAddr); ok && isSlice(ia.X) {
			return constIntOf(val(ia.Index))
		}
		return elementIndex(x.X, isSlice, val, depth+1)
	case *ssa.Extract:
		return elementIndex(x.Tuple, isSlice, val, depth+1)
	case *ssa.Call:
		for _, a := range x.Common().Args {
			if i, ok := elementIndex(a, isSlice, val, depth+1); ok {
				return i, true
			}
		}
	case *ssa.MakeInterface:
		return elementIndex(x.X, isSlice, val, depth+1)
	case *ssa.ChangeInterface:
		return elementIndex(x.X, isSlice, val, depth+1)
	case *ssa.Phi:
		for _, e := range x.Edges {
			if i, ok := elementIndex(e, isSlice, val, depth+1); ok {
				return i, true
			}
		}
	}
	return 0, false
}

// OPS5: the list operators and the presence operators follow their definitions,
// decided by abstract evaluation of UnaryCriteria.Satisfy over every equality
// pattern between the listed operands and the document's values, for operand
// lists and arrays of length 1 and 2:
//
//	In(v1..vm)        <=> some vi compares equal to the field's value
//	Contains(e1..em)  <=> every ei compares equal to some element of the array field
//	Eq                <=> the field is present and compares equal; Exists <=> present
func ruleOPS5(c *Ctx) []Ob {
	o := newObs(c, "OPS5")
	sat := c.lookupMethod("query", "UnaryCriteria", "Satisfy")
	cmp := c.lookupFunc("internal", "Compare")
	norm := c.lookupFunc("internal", "Normalize")
	hasM := c.lookupMethod("document", "Document", "Has")
	getM := c.lookupMethod("document", "Document", "Get")
	if sat == nil || cmp == nil || hasM == nil || getM == nil {
		o.add(UNDECIDED, "model", "-", "UnaryCriteria.Satisfy / internal.Compare / Document.Has/Get not found")
		return o.list
	}
	sliceT := types.NewSlice(types.NewInterfaceType(nil, nil))
	// the operand list: a []interface{} obtained from UnaryCriteria.Value
	isOperandList := func(v ssa.Value) bool {
		for _, og := range origins(v) {
			ta, ok := og.(*ssa.TypeAssert)
			if !ok {
				continue
			}
			for _, o2 := range origins(ta.X) {
				if c.isFieldLoadOf(o2, "query", "UnaryCriteria", "Value") {
					return true
				}
			}
		}
		return false
	}
	// the array field: a []interface{} obtained from Document.Get
	isDocArray := func(v ssa.Value) bool {
		for _, og := range origins(v) {
			var x ssa.Value
			switch t := og.(type) {
			case *ssa.Extract:
				if ta, ok := t.Tuple.(*ssa.TypeAssert); ok {
					x = ta.X
				}
			case *ssa.TypeAssert:
				x = t.X
			}
			if x == nil {
				continue
			}
			for _, o2 := range origins(x) {
				if call, ok := o2.(*ssa.Call); ok && staticCallee(call) != nil && c.declared(staticCallee(call)) == getM {
					return true
				}
			}
		}
		return false
	}
	docNil := false
	eval := func(op int64, m, n int, has bool, docIsArray bool, eq func(i, j int64) bool) (bool, string) {
		te := c.newTagEval()
		te.descendUnknown = true
		te.maxVisits = 8
		te.loadHook = func(l *ssa.UnOp) (aval, bool) {
			if c.isFieldLoadOf(l, "query", "UnaryCriteria", "OpType") {
				return aval{K: aConst, C: constant.MakeInt64(op)}, true
			}
			return aval{}, false
		}
		te.callHookEnv = func(call *ssa.Call, val func(ssa.Value) aval) ([]aval, bool) {
			cc := call.Common()
			if b, ok := cc.Value.(*ssa.Builtin); ok && b.Name() == "len" {
				if isOperandList(cc.Args[0]) {
					return []aval{{K: aConst, C: constant.MakeInt64(int64(m))}}, true
				}
				if isDocArray(cc.Args[0]) {
					return []aval{{K: aConst, C: constant.MakeInt64(int64(n))}}, true
				}
				return nil, false
			}
			g := staticCallee(call)
			if g == nil {
				return nil, false
			}
			switch c.declared(g) {
			case norm:
				return []aval{{}, {K: aTag, Tag: nil}}, true
			case hasM:
				return []aval{boolConst(has)}, true
			case getM:
				if docNil {
					return []aval{{K: aTag, Tag: nil}}, true
				}
				if docIsArray {
					return []aval{tagOf(sliceT)}, true
				}
				return []aval{{K: aConcrete}}, true
			case cmp:
				var i, j int64
				for _, a := range cc.Args {
					if x, ok := elementIndex(a, isOperandList, val, 0); ok {
						i = x
					}
					if x, ok := elementIndex(a, isDocArray, val, 0); ok {
						j = x
					}
				}
				r := int64(1)
				if eq(i, j) {
					r = 0
				}
				return []aval{{K: aConst, C: constant.MakeInt64(r)}}, true
			}
			return nil, false
		}
		return singleBool(te.Eval(sat, []aval{{K: aConst}, {}}, 0))
	}
	// evalV: the same evaluation with identities carried by the abstract values themselves: the
	// operand list is the known list ["op:0", ...], the array field ["doc:0", ...], a scalar field
	// "doc:0"; Normalize hands its argument on; Compare reads the two identities off its arguments.
	// This follows the values through helpers (hasElement(slice, value)), where the syntactic
	// trace above sees only parameters.
	evalSyntactic := eval
	eval = func(op int64, m, n int, has bool, docIsArray bool, eq func(i, j int64) bool) (bool, string) {
		mk := func(prefix string, k int) []aval {
			var l []aval
			for i := 0; i < k; i++ {
				l = append(l, aval{K: aConst, C: constant.MakeString(fmt.Sprintf("%s:%d", prefix, i))})
			}
			return l
		}
		idOf := func(a aval, prefix string) (int64, bool) {
			if a.K != aConst || a.C == nil || a.C.Kind() != constant.String {
				return 0, false
			}
			str := constant.StringVal(a.C)
			if !strings.HasPrefix(str, prefix+":") {
				return 0, false
			}
			k, err := strconv.Atoi(str[len(prefix)+1:])
			return int64(k), err == nil
		}
		te := c.newTagEval()
		te.descendUnknown = true
		te.assertKnown = true
		te.maxVisits = 8
		te.loadHook = func(l *ssa.UnOp) (aval, bool) {
			if c.isFieldLoadOf(l, "query", "UnaryCriteria", "OpType") {
				return aval{K: aConst, C: constant.MakeInt64(op)}, true
			}
			if c.isFieldLoadOf(l, "query", "UnaryCriteria", "Value") {
				return aval{K: aList, L: mk("op", m)}, true
			}
			return aval{}, false
		}
		identified := true
		te.callHookEnv = func(call *ssa.Call, val func(ssa.Value) aval) ([]aval, bool) {
			g := staticCallee(call)
			if g == nil {
				return nil, false
			}
			switch c.declared(g) {
			case norm:
				return []aval{val(call.Call.Args[0]), {K: aTag, Tag: nil}}, true
			case hasM:
				return []aval{boolConst(has)}, true
			case getM:
				if docNil {
					return []aval{{K: aTag, Tag: nil}}, true
				}
				if docIsArray {
					return []aval{{K: aList, L: mk("doc", n)}}, true
				}
				return []aval{{K: aConst, C: constant.MakeString("doc:0")}}, true
			case cmp:
				var i, j int64
				okI, okJ := false, docNil
				for _, a := range call.Call.Args {
					if x, ok := idOf(val(a), "op"); ok {
						i, okI = x, true
					}
					if x, ok := idOf(val(a), "doc"); ok {
						j, okJ = x, true
					}
				}
				if !okI || !okJ {
					identified = false
					return []aval{{}}, true
				}
				r := int64(1)
				if eq(i, j) {
					r = 0
				}
				return []aval{{K: aConst, C: constant.MakeInt64(r)}}, true
			}
			return nil, false
		}
		got, why := singleBool(te.Eval(sat, []aval{{K: aConst}, {}}, 0))
		if why == "" && identified {
			return got, ""
		}
		return evalSyntactic(op, m, n, has, docIsArray, eq)
	}
	pos := relPath(c, sat.Pos())
	report := func(key string, got bool, why string, want bool, what string) {
		switch {
		case why != "":
			o.add(UNDECIDED, key, pos, "%s: %s", what, why)
		case got != want:
			o.add(VIOLATED, key, pos, "%s evaluates to %v, its definition gives %v", what, got, want)
		default:
			o.add(OK, key, pos, "= %v", got)
		}
	}
	if k, ok := c.opConst("InOp"); ok {
		for m := 1; m <= 2; m++ {
			for mask := 0; mask < 1<<uint(m); mask++ {
				mask := mask
				want := mask != 0
				got, why := eval(k, m, 1, true, false, func(i, _ int64) bool { return mask&(1<<uint(i)) != 0 })
				key := fmt.Sprintf("In: %d operands, equal pattern %0*b", m, m, mask)
				report(key, got, why, want, fmt.Sprintf("In with %d listed values of which the field equals pattern %0*b", m, m, mask))
			}
		}
	}
	// the same definition holds when the field's value is nil (nil is a legal listed value)
	if k, ok := c.opConst("InOp"); ok {
		docNil = true
		for m := 1; m <= 2; m++ {
			for mask := 0; mask < 1<<uint(m); mask++ {
				mask := mask
				want := mask != 0
				got, why := eval(k, m, 1, true, false, func(i, _ int64) bool { return mask&(1<<uint(i)) != 0 })
				key := fmt.Sprintf("In on a nil field value: %d operands, equal pattern %0*b", m, m, mask)
				report(key, got, why, want, fmt.Sprintf("In with %d listed values against a field whose value is nil (equal pattern %0*b)", m, m, mask))
			}
		}
		// ... and when the field is absent: Get reads nil for it, and In does not ask for presence
		for m := 1; m <= 2; m++ {
			for mask := 0; mask < 1<<uint(m); mask++ {
				mask := mask
				want := mask != 0
				got, why := eval(k, m, 1, false, false, func(i, _ int64) bool { return mask&(1<<uint(i)) != 0 })
				key := fmt.Sprintf("In on an absent field: %d operands, equal pattern %0*b", m, m, mask)
				report(key, got, why, want, fmt.Sprintf("In with %d listed values against an absent field, which reads as nil (equal pattern %0*b)", m, m, mask))
			}
		}
		docNil = false
	}
	if k, ok := c.opConst("ContainsOp"); ok {
		for m := 1; m <= 2; m++ {
			for n := 1; n <= 2; n++ {
				for mask := 0; mask < 1<<uint(m*n); mask++ {
					m, n, mask := m, n, mask
					eq := func(i, j int64) bool { return mask&(1<<uint(int(i)*n+int(j))) != 0 }
					want := true
					for i := 0; i < m; i++ {
						found := false
						for j := 0; j < n; j++ {
							if eq(int64(i), int64(j)) {
								found = true
							}
						}
						if !found {
							want = false
						}
					}
					got, why := eval(k, m, n, true, true, eq)
					key := fmt.Sprintf("Contains: %d listed, array of %d, equality matrix %0*b", m, n, m*n, mask)
					report(key, got, why, want, fmt.Sprintf("Contains with %d listed elements against an array of %d (equality matrix %0*b)", m, n, m*n, mask))
				}
			}
		}
	}
	if k, ok := c.opConst("EqOp"); ok {
		for _, has := range []bool{false, true} {
			for _, e := range []bool{false, true} {
				has, e := has, e
				got, why := eval(k, 1, 1, has, false, func(_, _ int64) bool { return e })
				report(fmt.Sprintf("Eq: field present=%v equal=%v", has, e), got, why, has && e, fmt.Sprintf("Eq on a field that is present=%v and equal=%v", has, e))
			}
		}
	}
	if k, ok := c.opConst("ExistsOp"); ok {
		for _, has := range []bool{false, true} {
			has := has
			got, why := eval(k, 1, 1, has, false, func(_, _ int64) bool { return false })
			report(fmt.Sprintf("Exists: field present=%v", has), got, why, has, fmt.Sprintf("Exists on a field that is present=%v", has))
		}
	}
	return softenUndecided(o.list)
}

// softenUndecided: when the abstract evaluator could not decide a single case of
// a rule (the code is written in a way it does not follow: every obligation is
// "not decided"), the rule does not apply; the obligations become information
// instead of alarms. As soon as one case is decided, undecided ones stay alarms.
func softenUndecided(l []Ob) []Ob {
	decided := false
	for _, ob := range l {
		if ob.Status == OK || ob.Status == VIOLATED {
			decided = true
		}
	}
	if decided {
		return l
	}
	out := make([]Ob, 0, 1)
	for _, ob := range l {
		if ob.Status == UNDECIDED {
			ob.Status = INFO
			ob.Msg = "not applicable to this code shape (the abstract evaluator does not follow it): " + ob.Msg
			out = append(out, ob)
			break
		}
	}
	return out
}

// ---------------------------------------------------------------- OPS6

// OPS6: an operand that refers to another field - a query.Field(name) value or
// a "$name" string - is replaced by doc.Get(name), whether or not the document
// has that field (an absent field reads as nil); any other operand is used as
// it is. The resolver (the function of package query taking the document and
// the operand and returning the value to compare with) is abstractly evaluated
// for the three operand shapes, with Document.Has left undecided.
func ruleOPS6(c *Ctx) []Ob {
	o := newObs(c, "OPS6")
	getM := c.lookupMethod("document", "Document", "Get")
	var resolver *ssa.Function
	for _, fn := range c.LibFuncs {
		if c.pkgRel(fn) != "query" || fn.Parent() != nil || len(fn.Params) != 2 || fn.Signature.Results().Len() != 1 {
			continue
		}
		if !c.isDocPtr(fn.Params[0].Type()) {
			continue
		}
		if _, ok := fn.Params[1].Type().Underlying().(*types.Interface); !ok {
			continue
		}
		if _, ok := fn.Signature.Results().At(0).Type().Underlying().(*types.Interface); !ok {
			continue
		}
		calls := false
		allCalls(fn, func(ci ssa.CallInstruction) {
			if g := staticCallee(ci); g != nil && getM != nil && c.declared(g) == getM {
				calls = true
			}
		})
		if calls {
			resolver = fn
		}
	}
	ft := c.libType("query", "field")
	if resolver == nil || ft == nil || getM == nil {
		o.add(UNDECIDED, "resolver", "-", "operand resolver (func(*Document, interface{}) interface{} in package query calling Document.Get) or the field-reference type not found")
		return softenUndecided(o.list)
	}
	fetched := aval{K: aConst, C: constant.MakeString("doc.Get(name)")}
	literal := "abc"
	cases := []struct {
		name string
		arg  aval
		want string // "get" | "self"
	}{
		{"Field(name) operand", aval{K: aTag, Tag: types.NewPointer(ft)}, "get"},
		{"\"$name\" operand", aval{K: aTag, Tag: types.Typ[types.String], C: constant.MakeString("$name")}, "get"},
		{"plain string operand", aval{K: aTag, Tag: types.Typ[types.String], C: constant.MakeString(literal)}, "self"},
		{"numeric operand", aval{K: aTag, Tag: types.Typ[types.Int64], C: constant.MakeInt64(7)}, "self"},
	}
	for _, tc := range cases {
		tc := tc
		te := c.newTagEval()
		te.descendUnknown = true
		te.callHookEnv = func(call *ssa.Call, val func(ssa.Value) aval) ([]aval, bool) {
			if g := staticCallee(call); g != nil && c.declared(g) == getM {
				return []aval{fetched}, true
			}
			cc := call.Common()
			strArg := func(i int) (string, bool) {
				a := val(cc.Args[i])
				if a.C != nil && a.C.Kind() == constant.String {
					return constant.StringVal(a.C), true
				}
				return "", false
			}
			switch calleeFullName(call) {
			case "strings.HasPrefix":
				if a, ok := strArg(0); ok {
					if b, ok := strArg(1); ok {
						return []aval{boolConst(strings.HasPrefix(a, b))}, true
					}
				}
			case "strings.TrimLeft", "strings.TrimPrefix":
				if a, ok := strArg(0); ok {
					if b, ok := strArg(1); ok {
						r := strings.TrimPrefix(a, b)
						if calleeFullName(call) == "strings.TrimLeft" {
							r = strings.TrimLeft(a, b)
						}
						return []aval{{K: aConst, C: constant.MakeString(r)}}, true
					}
				}
			}
			return nil, false
		}
		outs := te.Eval(resolver, []aval{{K: aConcrete, Tag: resolver.Params[0].Type()}, tc.arg}, 0)
		key := c.fname(resolver) + "/" + tc.name
		pos := relPath(c, resolver.Pos())
		bad, undec := "", ""
		if len(outs) == 0 {
			undec = "no outcome"
		}
		for _, oc := range outs {
			if oc.Panic {
				bad = "panics: " + oc.Why
				continue
			}
			rv := oc.Vals[0]
			isGet := rv.K == aConst && rv.C != nil && rv.C.Kind() == constant.String && constant.StringVal(rv.C) == "doc.Get(name)"
			isSelf := rv.String() == tc.arg.String() || (rv.K == aConst && tc.arg.C != nil && rv.C != nil && rv.C.ExactString() == tc.arg.C.ExactString())
			switch {
			case rv.K == aUnknown:
				undec = "the result is not decided by the operand"
			case tc.want == "get" && !isGet:
				bad = "on some path the reference is not replaced by doc.Get(name) (" + rv.String() + " is compared instead): a reference to a field the document lacks must read as nil, not as the operand itself"
			case tc.want == "self" && !isSelf:
				bad = "a literal operand is replaced by " + rv.String()
			}
		}
		switch {
		case bad != "":
			o.add(VIOLATED, key, pos, "%s", bad)
		case undec != "":
			o.add(UNDECIDED, key, pos, "%s", undec)
		default:
			o.add(OK, key, pos, "-> %s on every path (Document.Has left undecided)", map[string]string{"get": "doc.Get(name)", "self": "the operand itself"}[tc.want])
		}
	}
	return softenUndecided(o.list)
}
