package main

import (
	"fmt"
	"go/constant"
	"go/token"
	"go/types"
	"strings"

	"golang.org/x/tools/go/ssa"
)

// Type-tag abstract interpreter. It propagates, through the SSA of library
// functions, the only facts the dispatch code of clover depends on: the
// *dynamic type* held by an interface value (or "nil interface"), and
// constants. Values proper are never computed: a branch whose condition is
// not decided by tags/constants is explored both ways. This decides, for each
// canonical value type, which branch of a type switch is taken, what constant
// a table lookup yields, and whether an unchecked assertion or explicit panic
// can be reached. It is conditional constant propagation over a finite
// abstract domain; no clover code is executed.

type akind int

const (
	aUnknown  akind = iota
	aTag            // interface value with known dynamic type (Tag == nil: the nil interface)
	aConst          // constant
	aRType          // reflect.Type of a known type
	aRKind          // reflect.Kind of a known type
	aGlobal         // a package-level variable's value (maps with known literal contents)
	aConcrete       // some non-nil value of a concrete type (result of a successful type assertion)
	aFunc           // a known function value (entry of a package-level dispatch table)
	aSlot           // address of element Idx of the package-level table G
	aPtr            // pointer to abstract struct object Idx of the evaluator's heap
	aFieldRef       // address of field C (int) of abstract object Idx
	aList           // an immutable list of known values (strings.Split of a constant)
	aElemRef        // address of element C (int) of the list held in L
	aCell           // address of a variable captured by a function literal (cell Idx of the evaluator)
	aArr            // address of a local array (the backing store of a slice literal): array Idx of the evaluator
	aArrElem        // address of element C (int) of the local array Idx
)

type aval struct {
	K   akind
	Tag types.Type
	C   constant.Value
	G   *ssa.Global
	Fn  *ssa.Function
	Idx int64
	L   []aval // aList / aElemRef
}

func (a aval) String() string {
	switch a.K {
	case aTag:
		if a.Tag == nil {
			return "nil-interface"
		}
		if a.C != nil {
			return "dyn:" + typeString(a.Tag) + "=" + a.C.ExactString()
		}
		return "dyn:" + typeString(a.Tag)
	case aList:
		parts := make([]string, len(a.L))
		for i, e := range a.L {
			parts[i] = e.String()
		}
		return "list[" + strings.Join(parts, " ") + "]"
	case aElemRef:
		return "elem#" + a.C.ExactString()
	case aPtr:
		return fmt.Sprintf("ptr#%d", a.Idx)
	case aCell:
		return fmt.Sprintf("cell#%d", a.Idx)
	case aArr:
		return fmt.Sprintf("array#%d", a.Idx)
	case aArrElem:
		return fmt.Sprintf("array#%d[%s]", a.Idx, a.C.ExactString())
	case aFieldRef:
		return fmt.Sprintf("field#%d.%s", a.Idx, a.C.ExactString())
	case aConst:
		if a.C == nil {
			return "const nil"
		}
		return "const " + a.C.ExactString()
	case aRType:
		return "reflect.Type(" + typeString(a.Tag) + ")"
	case aRKind:
		return "reflect.Kind(" + typeString(a.Tag) + ")"
	case aFunc:
		if len(a.L) > 0 {
			parts := make([]string, len(a.L))
			for i, e := range a.L {
				parts[i] = e.String()
			}
			return "func " + a.Fn.Name() + "{" + strings.Join(parts, " ") + "}"
		}
		return "func " + a.Fn.Name()
	case aConcrete:
		if a.Idx != 0 {
			return fmt.Sprintf("non-nil value#%d", a.Idx)
		}
		return "non-nil value"
	}
	return "?"
}

func tagOf(t types.Type) aval { return aval{K: aTag, Tag: t} }

type outcome struct {
	Panic  bool
	Why    string
	Pos    token.Pos
	Vals   []aval
	Allocs []types.Type // static types of fresh allocations returned (per result), nil when not an alloc
}

type tagEval struct {
	c     *Ctx
	steps int
	// hooks inject abstract results for calls / loads the rule wants to range over
	callHook func(call *ssa.Call) ([]aval, bool)
	loadHook func(load *ssa.UnOp) (aval, bool)
	// callHookEnv is like callHook but may look at the abstract values of the current frame
	callHookEnv func(call *ssa.Call, val func(ssa.Value) aval) ([]aval, bool)
	maxVisits   int // loop unrolling bound per path (default 2)
	loadHookEnv func(load *ssa.UnOp, val func(ssa.Value) aval) (aval, bool)
	storeObs    func(st *ssa.Store, v aval, val func(ssa.Value) aval)
	binopHook   func(bo *ssa.BinOp) (aval, bool)
	// descendUnknown: evaluate library callees also when none of their arguments is known (the
	// rule's hooks decide what happens inside: a wrapper around a hooked call must be entered)
	descendUnknown bool
	// assertKnown: a type assertion on a known string constant is decided (string: yes, other concrete types: no)
	assertKnown bool
	globals     map[*ssa.Global]map[string]constant.Value // string-keyed constant maps built in init
	tables      map[*ssa.Global]map[int64]*ssa.Function   // package-level arrays/maps of functions, by constant index
	// heap of abstract struct objects (field index -> value); shared by all frames, so a
	// fork on an undecided condition while it is in use makes the results unreliable
	// lookupHook answers a map lookup (value, found); mapUpdateObs observes m[k] = v; makeMapHook names a fresh map
	lookupHook   func(l *ssa.Lookup, m, k aval) ([]aval, bool)
	mapUpdateObs func(u *ssa.MapUpdate, m, k, v aval)
	makeMapHook  func(mm *ssa.MakeMap) (aval, bool)
	heap         map[int64]map[int]aval
	cells        map[int64]aval // variables captured by function literals
	arrays       map[int64][]aval // local arrays (slice literals)
	nextObj      int64
	heapForked   bool
	// unevaluated counts calls to library functions with a body that were not followed
	// because nothing was known about their arguments
	unevaluated int
}

// newObj allocates an abstract struct object with the given fields.
func (te *tagEval) newObj(fields map[int]aval) aval {
	if te.heap == nil {
		te.heap = map[int64]map[int]aval{}
	}
	te.nextObj++
	if fields == nil {
		fields = map[int]aval{}
	}
	te.heap[te.nextObj] = fields
	return aval{K: aPtr, Idx: te.nextObj}
}

func zeroAval(t types.Type) aval {
	switch u := t.Underlying().(type) {
	case *types.Interface:
		return aval{K: aTag, Tag: nil}
	case *types.Basic:
		switch {
		case u.Kind() == types.Bool:
			return aval{K: aConst, C: constant.MakeBool(false)}
		case u.Info()&types.IsInteger != 0:
			return aval{K: aConst, C: constant.MakeInt64(0)}
		case u.Kind() == types.String:
			return aval{K: aConst, C: constant.MakeString("")}
		}
	case *types.Pointer, *types.Slice, *types.Map, *types.Signature:
		return aval{K: aConst, C: nil}
	}
	return aval{}
}

func (c *Ctx) newTagEval() *tagEval {
	te := &tagEval{c: c, globals: map[*ssa.Global]map[string]constant.Value{}, tables: map[*ssa.Global]map[int64]*ssa.Function{}}
	for _, sp := range c.LibPkgs {
		init := sp.Func("init")
		if init == nil {
			continue
		}
		for _, b := range init.Blocks {
			for _, in := range b.Instrs {
				st, ok := in.(*ssa.Store)
				if !ok {
					continue
				}
				ia, ok := st.Addr.(*ssa.IndexAddr)
				if !ok {
					continue
				}
				g, ok := ia.X.(*ssa.Global)
				if !ok {
					continue
				}
				k, ok := constInt(ia.Index)
				if !ok {
					continue
				}
				for _, og := range origins(st.Val) {
					if f := closureFn(og); f != nil {
						if te.tables[g] == nil {
							te.tables[g] = map[int64]*ssa.Function{}
						}
						te.tables[g][k] = c.declared(f)
					}
				}
			}
		}
	}
	// collect `global = map literal` initialisations from package init functions
	for _, sp := range c.LibPkgs {
		init := sp.Func("init")
		if init == nil {
			continue
		}
		for _, b := range init.Blocks {
			for _, in := range b.Instrs {
				st, ok := in.(*ssa.Store)
				if !ok {
					continue
				}
				g, ok := st.Addr.(*ssa.Global)
				if !ok {
					continue
				}
				mm, ok := st.Val.(*ssa.MakeMap)
				if !ok {
					continue
				}
				m := map[string]constant.Value{}
				good := true
				for _, r := range realReferrers(mm) {
					if mu, ok := r.(*ssa.MapUpdate); ok {
						ks, ok1 := constString(mu.Key)
						kv, ok2 := mu.Value.(*ssa.Const)
						if !ok1 || !ok2 || kv.Value == nil {
							good = false
							continue
						}
						m[ks] = kv.Value
					}
				}
				if good {
					te.globals[g] = m
				}
			}
		}
	}
	return te
}

// globalWrittenElsewhere: is the global (or its map) modified outside init?
func (te *tagEval) globalWrittenElsewhere(g *ssa.Global) bool {
	for _, fn := range te.c.LibFuncs {
		if fn.Name() == "init" && fn.Parent() == nil {
			continue
		}
		for _, b := range fn.Blocks {
			for _, in := range b.Instrs {
				switch x := in.(type) {
				case *ssa.Store:
					if x.Addr == ssa.Value(g) {
						return true
					}
				case *ssa.MapUpdate:
					if gl := globalLoad(x.Map); gl == g {
						return true
					}
				}
			}
		}
	}
	return false
}

var kindNames = map[string]string{}

func kindString(t types.Type) (string, bool) {
	switch u := t.Underlying().(type) {
	case *types.Basic:
		switch u.Kind() {
		case types.Bool:
			return "bool", true
		case types.String:
			return "string", true
		case types.Int:
			return "int", true
		case types.Int8:
			return "int8", true
		case types.Int16:
			return "int16", true
		case types.Int32:
			return "int32", true
		case types.Int64:
			return "int64", true
		case types.Uint:
			return "uint", true
		case types.Uint8:
			return "uint8", true
		case types.Uint16:
			return "uint16", true
		case types.Uint32:
			return "uint32", true
		case types.Uint64:
			return "uint64", true
		case types.Float32:
			return "float32", true
		case types.Float64:
			return "float64", true
		}
	case *types.Map:
		return "map", true
	case *types.Slice:
		return "slice", true
	case *types.Array:
		return "array", true
	case *types.Struct:
		return "struct", true
	case *types.Pointer:
		return "ptr", true
	case *types.Signature:
		return "func", true
	case *types.Interface:
		return "interface", true
	case *types.Chan:
		return "chan", true
	}
	return "", false
}

type frame struct {
	fn     *ssa.Function
	env    map[ssa.Value]aval
	tuples map[ssa.Value][]aval
	visits map[*ssa.BasicBlock]int
}

func (f *frame) clone() *frame {
	n := &frame{fn: f.fn, env: make(map[ssa.Value]aval, len(f.env)), tuples: make(map[ssa.Value][]aval, len(f.tuples)), visits: make(map[*ssa.BasicBlock]int, len(f.visits))}
	for k, v := range f.env {
		n.env[k] = v
	}
	for k, v := range f.tuples {
		n.tuples[k] = v
	}
	for k, v := range f.visits {
		n.visits[k] = v
	}
	return n
}

const maxSteps = 200000

// Eval abstractly evaluates fn on the given argument values.
func (te *tagEval) Eval(fn *ssa.Function, args []aval, depth int) []outcome {
	return te.evalClosure(fn, args, nil, depth)
}

// evalClosure is Eval for a function literal whose free variables are bound to free.
func (te *tagEval) evalClosure(fn *ssa.Function, args []aval, free []aval, depth int) []outcome {
	if len(fn.Blocks) == 0 || depth > 10 {
		return []outcome{{Vals: make([]aval, fn.Signature.Results().Len())}}
	}
	fr := &frame{fn: fn, env: map[ssa.Value]aval{}, tuples: map[ssa.Value][]aval{}, visits: map[*ssa.BasicBlock]int{}}
	for i, fv := range fn.FreeVars {
		if i < len(free) {
			fr.env[fv] = free[i]
		}
	}
	for i, p := range fn.Params {
		if i < len(args) {
			fr.env[p] = args[i]
		}
	}
	var outs []outcome
	te.run(fr, fn.Blocks[0], nil, depth, &outs)
	return dedupOutcomes(outs)
}

func dedupOutcomes(in []outcome) []outcome {
	seen := map[string]bool{}
	var out []outcome
	for _, o := range in {
		k := fmt.Sprint(o.Panic, o.Why, o.Pos)
		for i, v := range o.Vals {
			k += "|" + v.String()
			if i < len(o.Allocs) && o.Allocs[i] != nil {
				k += "@" + typeString(o.Allocs[i])
			}
		}
		if !seen[k] {
			seen[k] = true
			out = append(out, o)
		}
	}
	return out
}

func (te *tagEval) val(fr *frame, v ssa.Value) aval {
	if a, ok := fr.env[v]; ok {
		return a
	}
	switch x := v.(type) {
	case *ssa.Const:
		if x.Value == nil {
			if _, isIface := x.Type().Underlying().(*types.Interface); isIface {
				return aval{K: aTag, Tag: nil}
			}
			return aval{K: aConst, C: nil}
		}
		return aval{K: aConst, C: x.Value}
	case *ssa.Global:
		return aval{K: aGlobal, G: x}
	case *ssa.Function:
		// a function used as a value (handed back by a selector function, stored, called later)
		return aval{K: aFunc, Fn: x}
	}
	return aval{}
}

func (te *tagEval) run(fr *frame, b *ssa.BasicBlock, pred *ssa.BasicBlock, depth int, outs *[]outcome) {
	for {
		te.steps++
		if te.steps > maxSteps {
			return
		}
		fr.visits[b]++
		mv := te.maxVisits
		if mv == 0 {
			mv = 2
		}
		if fr.visits[b] > mv {
			return // loop explored often enough on this path
		}
		for _, in := range b.Instrs {
			switch x := in.(type) {
			case *ssa.Phi:
				for i, p := range b.Preds {
					if p == pred {
						fr.env[x] = te.val(fr, x.Edges[i])
					}
				}
			case *ssa.TypeAssert:
				xv := te.val(fr, x.X)
				_, isIface := x.AssertedType.Underlying().(*types.Interface)
				if xv.K == aTag {
					success := false
					if xv.Tag != nil {
						if isIface {
							success = types.Implements(xv.Tag, x.AssertedType.Underlying().(*types.Interface))
						} else {
							success = types.Identical(xv.Tag, x.AssertedType)
						}
					}
					res := aval{}
					if success {
						if isIface {
							res = xv
						} else if xv.C != nil {
							res = aval{K: aConst, C: xv.C} // an interface holding a known constant
						} else {
							res = aval{K: aConcrete, Tag: x.AssertedType}
						}
					}
					if x.CommaOk {
						fr.tuples[x] = []aval{res, {K: aConst, C: constant.MakeBool(success)}}
					} else {
						if !success {
							*outs = append(*outs, outcome{Panic: true, Pos: x.Pos(), Why: fmt.Sprintf("unchecked assertion .(%s) on a value whose dynamic type is %s", typeString(x.AssertedType), xv)})
							return
						}
						fr.env[x] = res
					}
				} else if xv.K == aList || (xv.K == aConst && xv.C != nil && xv.C.Kind() == constant.String && te.assertKnown) {
					// a known list / a known string behind an interface: the assertion is decided by its shape
					success := false
					switch u := x.AssertedType.Underlying().(type) {
					case *types.Slice:
						success = xv.K == aList
					case *types.Basic:
						success = xv.K == aConst && u.Info()&types.IsString != 0
					case *types.Interface:
						success = u.NumMethods() == 0
					}
					res := aval{}
					if success {
						res = xv
					}
					if x.CommaOk {
						fr.tuples[x] = []aval{res, {K: aConst, C: constant.MakeBool(success)}}
					} else {
						if !success {
							*outs = append(*outs, outcome{Panic: true, Pos: x.Pos(), Why: fmt.Sprintf("unchecked assertion .(%s) on %s", typeString(x.AssertedType), xv)})
							return
						}
						fr.env[x] = res
					}
				} else if x.CommaOk {
					fr.tuples[x] = []aval{{}, {}}
				}
			case *ssa.Extract:
				if t, ok := fr.tuples[x.Tuple]; ok && x.Index < len(t) {
					fr.env[x] = t[x.Index]
				}
			case *ssa.MakeInterface:
				xv := te.val(fr, x.X)
				if xv.K == aTag {
					fr.env[x] = xv
				} else if xv.K == aConst && xv.C != nil {
					fr.env[x] = xv // a boxed constant stays a constant
				} else {
					fr.env[x] = tagOf(x.X.Type())
				}
			case *ssa.ChangeInterface:
				fr.env[x] = te.val(fr, x.X)
			case *ssa.ChangeType:
				fr.env[x] = te.val(fr, x.X)
			case *ssa.Convert:
				xv := te.val(fr, x.X)
				if xv.K == aConst && xv.C != nil {
					fr.env[x] = xv
				}
			case *ssa.UnOp:
				if x.Op == token.MUL && te.loadHookEnv != nil {
					if a, ok := te.loadHookEnv(x, func(v ssa.Value) aval { return te.val(fr, v) }); ok {
						fr.env[x] = a
						continue
					}
				}
				if x.Op == token.MUL && te.loadHook != nil {
					if a, ok := te.loadHook(x); ok {
						fr.env[x] = a
						continue
					}
				}
				xv := te.val(fr, x.X)
				switch x.Op {
				case token.NOT:
					if xv.K == aConst && xv.C != nil && xv.C.Kind() == constant.Bool {
						fr.env[x] = aval{K: aConst, C: constant.MakeBool(!constant.BoolVal(xv.C))}
					}
				case token.MUL:
					if xv.K == aGlobal {
						fr.env[x] = xv // the value stored in the global
					}
					if xv.K == aElemRef {
						if k, ok := constant.Int64Val(xv.C); ok && k >= 0 && int(k) < len(xv.L) {
							fr.env[x] = xv.L[k]
						}
					}
					if xv.K == aCell {
						if v, ok := te.cells[xv.Idx]; ok {
							fr.env[x] = v
						}
					}
					if xv.K == aArrElem {
						if k, ok := constant.Int64Val(xv.C); ok && k >= 0 && int(k) < len(te.arrays[xv.Idx]) {
							fr.env[x] = te.arrays[xv.Idx][k]
						}
					}
					if xv.K == aFieldRef {
						f, _ := constant.Int64Val(xv.C)
						if v, ok := te.heap[xv.Idx][int(f)]; ok {
							fr.env[x] = v
						} else {
							fr.env[x] = zeroAval(x.Type())
						}
					}
					if xv.K == aSlot {
						if f := te.tables[xv.G][xv.Idx]; f != nil {
							fr.env[x] = aval{K: aFunc, Fn: f}
						} else {
							fr.env[x] = aval{K: aConst, C: nil} // empty slot: nil function
						}
					}
				case token.SUB:
					if xv.K == aConst && xv.C != nil && xv.C.Kind() == constant.Int {
						fr.env[x] = aval{K: aConst, C: constant.UnaryOp(token.SUB, xv.C, 0)}
					}
				}
			case *ssa.MakeMap:
				if te.makeMapHook != nil {
					if a, ok := te.makeMapHook(x); ok {
						fr.env[x] = a
					}
				}
			case *ssa.MapUpdate:
				if te.mapUpdateObs != nil {
					te.mapUpdateObs(x, te.val(fr, x.Map), te.val(fr, x.Key), te.val(fr, x.Value))
				}
			case *ssa.Slice:
				// s[lo:hi] of a constant string with constant bounds
				xv := te.val(fr, x.X)
				if xv.K == aArr && x.Low == nil && x.High == nil {
					// a slice literal: the elements stored so far
					fr.env[x] = aval{K: aList, L: append([]aval{}, te.arrays[xv.Idx]...)}
					continue
				}
				if xv.K == aConst && xv.C != nil && xv.C.Kind() == constant.String {
					str := constant.StringVal(xv.C)
					lo, hi := 0, len(str)
					okb := true
					if x.Low != nil {
						if lv := te.val(fr, x.Low); lv.K == aConst && lv.C != nil && lv.C.Kind() == constant.Int {
							k, _ := constant.Int64Val(lv.C)
							lo = int(k)
						} else {
							okb = false
						}
					}
					if x.High != nil {
						if hv := te.val(fr, x.High); hv.K == aConst && hv.C != nil && hv.C.Kind() == constant.Int {
							k, _ := constant.Int64Val(hv.C)
							hi = int(k)
						} else {
							okb = false
						}
					}
					if okb && 0 <= lo && lo <= hi && hi <= len(str) {
						fr.env[x] = aval{K: aConst, C: constant.MakeString(str[lo:hi])}
					}
				}
			case *ssa.Alloc:
				if te.heap != nil {
					if _, isStruct := x.Type().Underlying().(*types.Pointer).Elem().Underlying().(*types.Struct); isStruct {
						fr.env[x] = te.newObj(nil)
					}
				}
				if at, isArr := x.Type().Underlying().(*types.Pointer).Elem().Underlying().(*types.Array); isArr && at.Len() <= 16 {
					// the backing array of a slice literal
					if te.arrays == nil {
						te.arrays = map[int64][]aval{}
					}
					te.nextObj++
					elems := make([]aval, at.Len())
					for i := range elems {
						elems[i] = zeroAval(at.Elem())
					}
					te.arrays[te.nextObj] = elems
					fr.env[x] = aval{K: aArr, Idx: te.nextObj}
					continue
				}
				if _, isStruct := x.Type().Underlying().(*types.Pointer).Elem().Underlying().(*types.Struct); !isStruct && x.Heap {
					// a variable captured by a function literal: a cell of its own
					if te.cells == nil {
						te.cells = map[int64]aval{}
					}
					te.nextObj++
					fr.env[x] = aval{K: aCell, Idx: te.nextObj}
				}
			case *ssa.MakeClosure:
				if f, ok := x.Fn.(*ssa.Function); ok {
					fv := aval{K: aFunc, Fn: f}
					for _, bnd := range x.Bindings {
						fv.L = append(fv.L, te.val(fr, bnd))
					}
					fr.env[x] = fv
				}
			case *ssa.FieldAddr:
				if bv := te.val(fr, x.X); bv.K == aPtr {
					fr.env[x] = aval{K: aFieldRef, Idx: bv.Idx, C: constant.MakeInt64(int64(x.Field))}
				}
			case *ssa.IndexAddr:
				if lv := te.val(fr, x.X); lv.K == aArr {
					if iv := te.val(fr, x.Index); iv.K == aConst && iv.C != nil && iv.C.Kind() == constant.Int {
						fr.env[x] = aval{K: aArrElem, Idx: lv.Idx, C: iv.C}
					}
					continue
				}
				if lv := te.val(fr, x.X); lv.K == aList {
					if iv := te.val(fr, x.Index); iv.K == aConst && iv.C != nil && iv.C.Kind() == constant.Int {
						fr.env[x] = aval{K: aElemRef, C: iv.C, L: lv.L}
					}
					continue
				}
				if g, ok := x.X.(*ssa.Global); ok {
					if iv := te.val(fr, x.Index); iv.K == aConst && iv.C != nil && iv.C.Kind() == constant.Int {
						if _, isTable := te.tables[g]; isTable && !te.globalWrittenElsewhere(g) {
							k, _ := constant.Int64Val(iv.C)
							fr.env[x] = aval{K: aSlot, G: g, Idx: k}
						}
					}
				}
			case *ssa.Lookup:
				mv := te.val(fr, x.X)
				kv := te.val(fr, x.Index)
				if te.lookupHook != nil {
					if res, ok := te.lookupHook(x, mv, kv); ok {
						if x.CommaOk {
							fr.tuples[x] = res
						} else if len(res) > 0 {
							fr.env[x] = res[0]
						}
						continue
					}
				}
				if mv.K == aGlobal && kv.K == aConst && kv.C != nil && kv.C.Kind() == constant.String && !x.CommaOk {
					if m, ok := te.globals[mv.G]; ok && !te.globalWrittenElsewhere(mv.G) {
						if cv, ok := m[constant.StringVal(kv.C)]; ok {
							fr.env[x] = aval{K: aConst, C: cv}
						} else {
							fr.env[x] = aval{K: aConst, C: constant.MakeInt64(0)} // missing key: zero value
						}
					}
				}
			case *ssa.BinOp:
				if te.binopHook != nil {
					if r, ok := te.binopHook(x); ok {
						fr.env[x] = r
						continue
					}
				}
				a, bb := te.val(fr, x.X), te.val(fr, x.Y)
				if r, ok := te.binop(x.Op, a, bb); ok {
					fr.env[x] = r
				}
			case *ssa.Store:
				if av := te.val(fr, x.Addr); av.K == aFieldRef {
					f, _ := constant.Int64Val(av.C)
					te.heap[av.Idx][int(f)] = te.val(fr, x.Val)
				} else if av.K == aCell {
					te.cells[av.Idx] = te.val(fr, x.Val)
				} else if av.K == aArrElem {
					if k, ok := constant.Int64Val(av.C); ok && k >= 0 && int(k) < len(te.arrays[av.Idx]) {
						te.arrays[av.Idx][k] = te.val(fr, x.Val)
					}
				}
				if te.storeObs != nil {
					te.storeObs(x, te.val(fr, x.Val), func(v ssa.Value) aval { return te.val(fr, v) })
				}
			case *ssa.Call:
				te.call(fr, x, depth, outs)
				if _, dead := fr.env[deadMarker]; dead {
					return
				}
			case *ssa.Panic:
				if x.Pos().IsValid() {
					*outs = append(*outs, outcome{Panic: true, Pos: x.Pos(), Why: "explicit panic"})
				}
				return
			case *ssa.Return:
				o := outcome{}
				for i := range x.Results {
					rv, ok := returnedValue(x, i)
					if !ok {
						o.Vals = append(o.Vals, aval{})
						o.Allocs = append(o.Allocs, nil)
						continue
					}
					o.Vals = append(o.Vals, te.val(fr, rv))
					var at types.Type
					if al, isAlloc := stripIfaceOnly(rv).(*ssa.Alloc); isAlloc {
						at = al.Type()
					}
					o.Allocs = append(o.Allocs, at)
				}
				*outs = append(*outs, o)
				return
			case *ssa.If:
				cv := te.val(fr, x.Cond)
				if cv.K == aConst && cv.C != nil && cv.C.Kind() == constant.Bool {
					pred = b
					if constant.BoolVal(cv.C) {
						b = b.Succs[0]
					} else {
						b = b.Succs[1]
					}
					goto next
				}
				// undecided: explore both
				if len(te.heap) > 0 {
					te.heapForked = true
				}
				f2 := fr.clone()
				te.run(f2, b.Succs[0], b, depth, outs)
				pred = b
				b = b.Succs[1]
				goto next
			case *ssa.Jump:
				pred = b
				b = b.Succs[0]
				goto next
			}
		}
		return
	next:
	}
}

// deadMarker is a sentinel key: set in a frame's env when a callee always panics.
var deadMarker ssa.Value = &ssa.Const{}

func (te *tagEval) binop(op token.Token, a, b aval) (aval, bool) {
	// comparisons with the nil interface
	if (op == token.EQL || op == token.NEQ) && a.K == aTag && b.K == aTag {
		if a.Tag == nil || b.Tag == nil {
			eq := a.Tag == nil && b.Tag == nil
			if op == token.NEQ {
				eq = !eq
			}
			return aval{K: aConst, C: constant.MakeBool(eq)}, true
		}
		return aval{}, false
	}
	if op == token.EQL || op == token.NEQ {
		if (a.K == aFunc && b.K == aConst && b.C == nil) || (b.K == aFunc && a.K == aConst && a.C == nil) {
			return aval{K: aConst, C: constant.MakeBool(op == token.NEQ)}, true
		}
	}
	// a known list, or a known constant held in an interface, is not nil
	if op == token.EQL || op == token.NEQ {
		isNil := func(x aval) bool { return (x.K == aConst && x.C == nil) || (x.K == aTag && x.Tag == nil) }
		nonNil := func(x aval) bool {
			return x.K == aList || (x.K == aConst && x.C != nil && x.C.Kind() == constant.String)
		}
		if (nonNil(a) && isNil(b)) || (nonNil(b) && isNil(a)) {
			return aval{K: aConst, C: constant.MakeBool(op == token.NEQ)}, true
		}
	}
	// a known non-nil concrete value compared with the nil constant
	if op == token.EQL || op == token.NEQ {
		if (a.K == aConcrete && b.K == aConst && b.C == nil) || (b.K == aConcrete && a.K == aConst && a.C == nil) {
			return aval{K: aConst, C: constant.MakeBool(op == token.NEQ)}, true
		}
	}
	if a.K == aConst && b.K == aConst && a.C != nil && b.C != nil {
		switch op {
		case token.EQL, token.NEQ, token.LSS, token.LEQ, token.GTR, token.GEQ:
			if a.C.Kind() == b.C.Kind() || (isNumKind(a.C) && isNumKind(b.C)) {
				return aval{K: aConst, C: constant.MakeBool(constant.Compare(a.C, op, b.C))}, true
			}
		case token.ADD, token.SUB, token.MUL:
			if isNumKind(a.C) && isNumKind(b.C) {
				return aval{K: aConst, C: constant.BinaryOp(a.C, op, b.C)}, true
			}
		}
	}
	return aval{}, false
}

func isNumKind(c constant.Value) bool {
	return c.Kind() == constant.Int || c.Kind() == constant.Float
}

func (te *tagEval) call(fr *frame, call *ssa.Call, depth int, outs *[]outcome) {
	cc := call.Common()
	if te.callHookEnv != nil {
		if res, ok := te.callHookEnv(call, func(v ssa.Value) aval { return te.val(fr, v) }); ok {
			if len(res) == 1 {
				fr.env[call] = res[0]
			} else {
				fr.tuples[call] = res
			}
			return
		}
	}
	if te.callHook != nil {
		if res, ok := te.callHook(call); ok {
			if len(res) == 1 {
				fr.env[call] = res[0]
			} else {
				fr.tuples[call] = res
			}
			return
		}
	}
	full := calleeFullName(call)
	// builtins and string functions on known constants
	if b, ok := cc.Value.(*ssa.Builtin); ok && b.Name() == "len" && len(cc.Args) == 1 {
		av := te.val(fr, cc.Args[0])
		switch {
		case av.K == aList:
			fr.env[call] = aval{K: aConst, C: constant.MakeInt64(int64(len(av.L)))}
			return
		case av.K == aConst && av.C != nil && av.C.Kind() == constant.String:
			fr.env[call] = aval{K: aConst, C: constant.MakeInt64(int64(len(constant.StringVal(av.C))))}
			return
		}
	}
	constStr := func(i int) (string, bool) {
		if i >= len(cc.Args) {
			return "", false
		}
		a := te.val(fr, cc.Args[i])
		if a.K == aConst && a.C != nil && a.C.Kind() == constant.String {
			return constant.StringVal(a.C), true
		}
		if a.K == aConst && a.C != nil && a.C.Kind() == constant.Int {
			k, _ := constant.Int64Val(a.C)
			return string(rune(k)), true // a byte / rune argument
		}
		return "", false
	}
	switch full {
	case "strings.Split":
		if a, ok := constStr(0); ok {
			if sep, ok := constStr(1); ok {
				var l []aval
				for _, p := range strings.Split(a, sep) {
					l = append(l, aval{K: aConst, C: constant.MakeString(p)})
				}
				fr.env[call] = aval{K: aList, L: l}
				return
			}
		}
	case "strings.IndexByte", "strings.Index", "strings.IndexRune", "strings.LastIndex", "strings.LastIndexByte":
		if a, ok := constStr(0); ok {
			if sep, ok := constStr(1); ok {
				r := strings.Index(a, sep)
				if strings.HasPrefix(full, "strings.LastIndex") {
					r = strings.LastIndex(a, sep)
				}
				fr.env[call] = aval{K: aConst, C: constant.MakeInt64(int64(r))}
				return
			}
		}
	case "strings.Compare":
		if a, ok := constStr(0); ok {
			if b, ok := constStr(1); ok {
				fr.env[call] = aval{K: aConst, C: constant.MakeInt64(int64(strings.Compare(a, b)))}
				return
			}
		}
	case "strings.Cut":
		if a, ok := constStr(0); ok {
			if sep, ok := constStr(1); ok {
				b, af, found := strings.Cut(a, sep)
				fr.tuples[call] = []aval{{K: aConst, C: constant.MakeString(b)}, {K: aConst, C: constant.MakeString(af)}, {K: aConst, C: constant.MakeBool(found)}}
				return
			}
		}
	case "strings.HasPrefix", "strings.HasSuffix", "strings.Contains":
		if a, ok := constStr(0); ok {
			if b, ok := constStr(1); ok {
				r := false
				switch full {
				case "strings.HasPrefix":
					r = strings.HasPrefix(a, b)
				case "strings.HasSuffix":
					r = strings.HasSuffix(a, b)
				default:
					r = strings.Contains(a, b)
				}
				fr.env[call] = aval{K: aConst, C: constant.MakeBool(r)}
				return
			}
		}
	}
	// reflect.TypeOf(v).Kind().String()
	switch full {
	case "reflect.TypeOf":
		if a := te.val(fr, cc.Args[0]); a.K == aTag && a.Tag != nil {
			fr.env[call] = aval{K: aRType, Tag: a.Tag}
		}
		return
	case "(reflect.Type).Kind":
		if a := te.val(fr, cc.Value); a.K == aRType {
			fr.env[call] = aval{K: aRKind, Tag: a.Tag}
		}
		return
	case "(reflect.Kind).String":
		if a := te.val(fr, cc.Args[0]); a.K == aRKind {
			if s, ok := kindString(a.Tag); ok {
				fr.env[call] = aval{K: aConst, C: constant.MakeString(s)}
			}
		}
		return
	}
	g := staticCallee(call)
	var free []aval
	if !cc.IsInvoke() {
		// a function value taken from a dispatch table, or a function literal with its captured variables
		if fv := te.val(fr, cc.Value); fv.K == aFunc && (g == nil || te.c.declared(g) == te.c.declared(fv.Fn)) {
			g, free = fv.Fn, fv.L
		}
	}
	if g == nil {
		return
	}
	if free == nil {
		g = te.c.declared(g)
	}
	if !te.c.IsLib(g) || len(g.Blocks) == 0 {
		return
	}
	args := make([]aval, len(cc.Args))
	known := len(free) > 0
	for i, a := range cc.Args {
		args[i] = te.val(fr, a)
		if args[i].K != aUnknown {
			known = true
		}
	}
	if !known && !(te.descendUnknown && depth < 3) {
		te.unevaluated++
		return
	}
	res := te.evalClosure(g, args, free, depth+1)
	nres := g.Signature.Results().Len()
	var rets []outcome
	for _, o := range res {
		if o.Panic {
			*outs = append(*outs, o)
		} else {
			rets = append(rets, o)
		}
	}
	if len(rets) == 0 && len(res) > 0 {
		fr.env[deadMarker] = aval{K: aConst}
		return
	}
	merged := make([]aval, nres)
	for i := 0; i < nres; i++ {
		same := true
		for j, o := range rets {
			if i >= len(o.Vals) {
				same = false
				break
			}
			if j == 0 {
				merged[i] = o.Vals[i]
			} else if merged[i].String() != o.Vals[i].String() {
				same = false
			}
		}
		if !same {
			merged[i] = aval{}
		}
	}
	if nres == 1 {
		fr.env[call] = merged[0]
	} else if nres > 1 {
		fr.tuples[call] = merged
	}
}
