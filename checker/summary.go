package main

import (
	"go/token"
	"go/types"
	"strings"

	"golang.org/x/tools/go/ssa"
)

// Eff is a bit set of store-level effects a function may have, computed to a
// fixpoint over static calls, library implementations of invoked library
// interfaces, and closures created in the function (a closure is assumed to be
// called by whoever receives it: this is how clover passes consumers).
type Eff uint32

const (
	EffTxGet Eff = 1 << iota
	EffTxSet
	EffTxDelete
	EffCursor
	EffIdxAdd
	EffIdxRemove
	EffIdxDrop
	EffBeginR
	EffBeginW
	EffCommit
	EffDocWrite    // Tx.Set of an encoded document
	EffBackendW    // bbolt/badger mutation API
	EffUserUpdater // calls a func(*Document)*Document received from outside
	EffGo
)

const EffWrites = EffTxSet | EffTxDelete | EffIdxAdd | EffIdxRemove | EffIdxDrop | EffDocWrite | EffBackendW
const EffDestructive = EffTxDelete | EffIdxRemove | EffIdxDrop | EffDocWrite
const EffStoreAccess = EffTxGet | EffTxSet | EffTxDelete | EffCursor | EffIdxAdd | EffIdxRemove | EffIdxDrop | EffDocWrite

func (e Eff) String() string {
	names := []string{"TxGet", "TxSet", "TxDelete", "Cursor", "IdxAdd", "IdxRemove", "IdxDrop", "BeginR", "BeginW", "Commit", "DocWrite", "BackendW", "UserUpdater", "Go"}
	var out []string
	for i, n := range names {
		if e&(1<<uint(i)) != 0 {
			out = append(out, n)
		}
	}
	return strings.Join(out, "|")
}

// beginKind classifies a call as a transaction open: "", "r", "w".
func (c *Ctx) beginKind(call ssa.CallInstruction) string {
	isBegin := false
	if c.isInvokeOf(call, "store", "Store", "Begin") {
		isBegin = true
	} else if f := staticCallee(call); f != nil {
		full := calleeFullName(call)
		if full == "(*go.etcd.io/bbolt.DB).Begin" {
			isBegin = true
		} else if full == "(*github.com/dgraph-io/badger/v4.DB).NewTransaction" {
			isBegin = true
		}
	}
	if !isBegin {
		return ""
	}
	args := call.Common().Args
	var a ssa.Value
	if call.Common().IsInvoke() {
		a = args[0]
	} else {
		a = args[len(args)-1]
	}
	if b, ok := constBool(a); ok && !b {
		return "r"
	}
	return "w"
}

func (c *Ctx) isCommit(call ssa.CallInstruction) bool {
	if c.isInvokeOf(call, "store", "Tx", "Commit") {
		return true
	}
	full := calleeFullName(call)
	return full == "(*go.etcd.io/bbolt.Tx).Commit" || full == "(*github.com/dgraph-io/badger/v4.Txn).Commit"
}

func (c *Ctx) isRollback(call ssa.CallInstruction) bool {
	if c.isInvokeOf(call, "store", "Tx", "Rollback") {
		return true
	}
	full := calleeFullName(call)
	return full == "(*go.etcd.io/bbolt.Tx).Rollback" || full == "(*github.com/dgraph-io/badger/v4.Txn).Discard"
}

var backendWriteFuncs = map[string]bool{
	"(*go.etcd.io/bbolt.Bucket).Put":                                true,
	"(*go.etcd.io/bbolt.Bucket).Delete":                             true,
	"(*go.etcd.io/bbolt.Tx).CreateBucketIfNotExists":                true,
	"(*go.etcd.io/bbolt.Tx).CreateBucket":                           true,
	"(*go.etcd.io/bbolt.Tx).DeleteBucket":                           true,
	"(*go.etcd.io/bbolt.Bucket).CreateBucket":                       true,
	"(*go.etcd.io/bbolt.Bucket).CreateBucketIfNotExists":            true,
	"(*go.etcd.io/bbolt.Bucket).DeleteBucket":                       true,
	"(*go.etcd.io/bbolt.Cursor).Delete":                             true,
	"(*github.com/dgraph-io/badger/v4.Txn).Set":                     true,
	"(*github.com/dgraph-io/badger/v4.Txn).SetEntry":                true,
	"(*github.com/dgraph-io/badger/v4.Txn).Delete":                  true,
	"(*github.com/dgraph-io/badger/v4.DB).DropAll":                  true,
	"(*github.com/dgraph-io/badger/v4.DB).DropPrefix":               true,
	"(*github.com/dgraph-io/badger/v4.WriteBatch).Set":              true,
	"(*github.com/dgraph-io/badger/v4.WriteBatch).Delete":           true,
	"(*github.com/dgraph-io/badger/v4.WriteBatch).SetEntry":         true,
	"(*github.com/dgraph-io/badger/v4.DB).Update":                   true,
	"(*go.etcd.io/bbolt.DB).Update":                                 true,
	"(*go.etcd.io/bbolt.DB).Batch":                                  true,
	"(*github.com/dgraph-io/badger/v4.DB).NewWriteBatch":            true,
	"(*github.com/dgraph-io/badger/v4.DB).NewManagedWriteBatch":     true,
	"(*github.com/dgraph-io/badger/v4.Txn).CommitWith":              true,
	"(*github.com/dgraph-io/badger/v4.DB).NewTransactionAt":         true,
	"(*github.com/dgraph-io/badger/v4.MergeOperator).Add":           true,
	"(*github.com/dgraph-io/badger/v4.DB).GetMergeOperator":         true,
	"(*github.com/dgraph-io/badger/v4.Sequence).Next":               true,
	"(*github.com/dgraph-io/badger/v4.DB).GetSequence":              true,
	"(*github.com/dgraph-io/badger/v4.DB).Load":                     true,
	"(*github.com/dgraph-io/badger/v4.DB).NewStreamWriter":          true,
	"(*github.com/dgraph-io/badger/v4.DB).Flatten":                  false,
	"(*github.com/dgraph-io/badger/v4.DB).RunValueLogGC":            false,
	"(*github.com/dgraph-io/badger/v4.DB).Sync":                     false,
	"(*github.com/dgraph-io/badger/v4.DB).Close":                    false,
	"(*go.etcd.io/bbolt.DB).Close":                                  false,
	"(*github.com/dgraph-io/badger/v4.Txn).Discard":                 false,
	"(*github.com/dgraph-io/badger/v4.Iterator).Close":              false,
	"(*github.com/dgraph-io/badger/v4.Txn).NewIterator":             false,
	"(*github.com/dgraph-io/badger/v4.Txn).Get":                     false,
	"(*go.etcd.io/bbolt.Bucket).Get":                                false,
	"(*go.etcd.io/bbolt.Bucket).Cursor":                             false,
	"(*go.etcd.io/bbolt.Tx).Bucket":                                 false,
	"(*go.etcd.io/bbolt.Tx).Rollback":                               false,
	"(*go.etcd.io/bbolt.Tx).Commit":                                 false,
	"(*github.com/dgraph-io/badger/v4.Txn).Commit":                  false,
	"(*github.com/dgraph-io/badger/v4.DB).NewTransaction":           false,
	"(*go.etcd.io/bbolt.DB).Begin":                                  false,
	"(*go.etcd.io/bbolt.DB).View":                                   false,
	"(*github.com/dgraph-io/badger/v4.DB).View":                     false,
	"(*github.com/dgraph-io/badger/v4.Item).Value":                  false,
	"(*github.com/dgraph-io/badger/v4.Item).Key":                    false,
	"(*github.com/dgraph-io/badger/v4.Item).ValueCopy":              false,
	"(*github.com/dgraph-io/badger/v4.Item).KeyCopy":                false,
	"(*github.com/dgraph-io/badger/v4.Iterator).Item":               false,
	"(*github.com/dgraph-io/badger/v4.Iterator).Seek":               false,
	"(*github.com/dgraph-io/badger/v4.Iterator).Next":               false,
	"(*github.com/dgraph-io/badger/v4.Iterator).Valid":              false,
	"(*github.com/dgraph-io/badger/v4.Iterator).Rewind":             false,
	"(*github.com/dgraph-io/badger/v4.Iterator).ValidForPrefix":     false,
	"(*go.etcd.io/bbolt.Cursor).Seek":                               false,
	"(*go.etcd.io/bbolt.Cursor).Next":                               false,
	"(*go.etcd.io/bbolt.Cursor).Prev":                               false,
	"(*go.etcd.io/bbolt.Cursor).First":                              false,
	"(*go.etcd.io/bbolt.Cursor).Last":                               false,
	"github.com/dgraph-io/badger/v4.Open":                           false,
	"github.com/dgraph-io/badger/v4.DefaultOptions":                 false,
	"go.etcd.io/bbolt.Open":                                         false,
	"(github.com/dgraph-io/badger/v4.Options).WithInMemory":         false,
	"(github.com/dgraph-io/badger/v4.Options).WithLoggingLevel":     false,
	"(github.com/dgraph-io/badger/v4.Options).WithLogger":           false,
	"(github.com/dgraph-io/badger/v4.Options).WithSyncWrites":       false,
	"(github.com/dgraph-io/badger/v4.Options).WithValueLogFileSize": false,
}

// isDocEncode: call to document.Encode (the document codec entry point).
func (c *Ctx) isDocEncode(call ssa.CallInstruction) bool {
	f := staticCallee(call)
	return f != nil && f == c.lookupFunc("document", "Encode")
}

// isUpdaterCallback: dynamic call of a func(*Document) *Document value that
// is a parameter / captured variable (a user supplied updater).
func (c *Ctx) isUpdaterCallback(call ssa.CallInstruction) bool {
	cc := call.Common()
	if cc.IsInvoke() || staticCallee(call) != nil {
		return false
	}
	if _, ok := cc.Value.(*ssa.Builtin); ok {
		return false
	}
	sig := cc.Signature()
	if sig.Params().Len() != 1 || sig.Results().Len() != 1 {
		return false
	}
	return c.isDocPtr(sig.Params().At(0).Type()) && c.isDocPtr(sig.Results().At(0).Type())
}

func (c *Ctx) isDocPtr(t types.Type) bool {
	p, ok := t.(*types.Pointer)
	return ok && c.libNamedIs(p.Elem(), "document", "Document")
}

func (c *Ctx) localEff(fn *ssa.Function) Eff {
	var e Eff
	for _, b := range fn.Blocks {
		for _, in := range b.Instrs {
			if _, ok := in.(*ssa.Go); ok {
				e |= EffGo
			}
			call, ok := in.(ssa.CallInstruction)
			if !ok {
				continue
			}
			switch c.beginKind(call) {
			case "r":
				e |= EffBeginR
			case "w":
				e |= EffBeginW
			}
			if c.isCommit(call) {
				e |= EffCommit
			}
			switch {
			case c.isInvokeOf(call, "store", "Tx", "Get"):
				e |= EffTxGet
			case c.isInvokeOf(call, "store", "Tx", "Set"):
				e |= EffTxSet
				for _, o := range origins(call.Common().Args[1]) {
					if ex, ok := o.(*ssa.Extract); ok {
						if cl, ok := ex.Tuple.(*ssa.Call); ok && c.isDocEncode(cl) {
							e |= EffDocWrite
						}
					}
				}
			case c.isInvokeOf(call, "store", "Tx", "Delete"):
				e |= EffTxDelete
			case c.isInvokeOf(call, "store", "Tx", "Cursor"):
				e |= EffCursor
			case c.isInvokeOf(call, "index", "Index", "Add"):
				e |= EffIdxAdd
			case c.isInvokeOf(call, "index", "Index", "Remove"):
				e |= EffIdxRemove
			case c.isInvokeOf(call, "index", "Index", "Drop"):
				e |= EffIdxDrop
			}
			if backendWriteFuncs[calleeFullName(call)] {
				e |= EffBackendW
			}
			if c.isUpdaterCallback(call) {
				e |= EffUserUpdater
			}
		}
	}
	return e
}

// libImpls returns the library implementations of an interface method.
func (c *Ctx) libImpls(m *types.Func) []*ssa.Function {
	if r, ok := c.implsCache[m]; ok {
		return r
	}
	var out []*ssa.Function
	recv := m.Type().(*types.Signature).Recv()
	if recv != nil {
		if iface, ok := recv.Type().Underlying().(*types.Interface); ok {
			for _, sp := range c.LibPkgs {
				for _, mem := range sp.Members {
					tn, ok := mem.(*ssa.Type)
					if !ok {
						continue
					}
					if _, isIface := tn.Type().Underlying().(*types.Interface); isIface {
						continue
					}
					for _, T := range []types.Type{tn.Type(), types.NewPointer(tn.Type())} {
						if !types.Implements(T, iface) {
							continue
						}
						sel := c.Prog.MethodSets.MethodSet(T).Lookup(m.Pkg(), m.Name())
						if sel == nil {
							continue
						}
						if f := c.Prog.MethodValue(sel); f != nil {
							// unwrap promoted-method wrappers to the declared method
							out = append(out, c.declared(f))
						}
						break
					}
				}
			}
		}
	}
	c.implsCache[m] = out
	return out
}

// declared maps a synthetic wrapper (promoted method, bound method) to the
// source function it forwards to, when that is unambiguous.
func (c *Ctx) declared(f *ssa.Function) *ssa.Function {
	for i := 0; i < 4 && f.Synthetic != "" && f.Syntax() == nil; i++ {
		var next *ssa.Function
		n := 0
		allCalls(f, func(call ssa.CallInstruction) {
			if g := staticCallee(call); g != nil {
				next = g
				n++
			}
		})
		if n != 1 {
			break
		}
		f = next
	}
	return f
}

// succFuncs: functions whose effects are included in fn's effects.
func (c *Ctx) succFuncs(fn *ssa.Function) []*ssa.Function {
	var out []*ssa.Function
	out = append(out, fn.AnonFuncs...)
	allCalls(fn, func(call ssa.CallInstruction) {
		cc := call.Common()
		if cc.IsInvoke() {
			if c.methodIsStoreIface(cc.Method) {
				return
			}
			for _, f := range c.libImpls(cc.Method) {
				if c.IsLib(f) {
					out = append(out, f)
				}
			}
			return
		}
		if g := staticCallee(call); g != nil {
			g = c.declared(g)
			if c.IsLib(g) {
				out = append(out, g)
			}
			return
		}
		// dynamic call of a closure held in a local variable / captured variable
		for _, g := range c.localClosureTargets(call) {
			out = append(out, g)
		}
	})
	return out
}

// localClosureTargets resolves a dynamic call whose callee value is a closure
// created in this function or an enclosing one (bound to a local variable).
func (c *Ctx) localClosureTargets(call ssa.CallInstruction) []*ssa.Function {
	cc := call.Common()
	if cc.IsInvoke() || staticCallee(call) != nil {
		return nil
	}
	if _, isB := cc.Value.(*ssa.Builtin); isB {
		return nil
	}
	var out []*ssa.Function
	for _, o := range origins(cc.Value) {
		if f := closureFn(o); f != nil && c.IsLib(f) {
			out = append(out, f)
		}
	}
	return out
}

func (c *Ctx) methodIsStoreIface(m *types.Func) bool {
	if m == nil || m.Pkg() == nil {
		return false
	}
	return m.Pkg().Path() == c.ModPath+"/store"
}

// eff computes the transitive effect summary of fn.
func (c *Ctx) eff(fn *ssa.Function) Eff {
	if len(c.effCache) == 0 {
		c.computeEffects()
	}
	return c.effCache[fn]
}

func (c *Ctx) computeEffects() {
	local := map[*ssa.Function]Eff{}
	succ := map[*ssa.Function][]*ssa.Function{}
	for _, fn := range c.LibFuncs {
		local[fn] = c.localEff(fn)
		succ[fn] = c.succFuncs(fn)
		c.effCache[fn] = local[fn]
	}
	for changed := true; changed; {
		changed = false
		for _, fn := range c.LibFuncs {
			e := c.effCache[fn]
			for _, s := range succ[fn] {
				e |= c.effCache[s]
			}
			if e != c.effCache[fn] {
				c.effCache[fn] = e
				changed = true
			}
		}
	}
}

// callEff: effects of executing one call instruction (callee summary; closures
// passed as arguments are included because the callee may call them).
func (c *Ctx) callEff(call ssa.CallInstruction) Eff {
	var e Eff
	cc := call.Common()
	switch c.beginKind(call) {
	case "r":
		e |= EffBeginR
	case "w":
		e |= EffBeginW
	}
	if c.isCommit(call) {
		e |= EffCommit
	}
	switch {
	case c.isInvokeOf(call, "store", "Tx", "Get"):
		e |= EffTxGet
	case c.isInvokeOf(call, "store", "Tx", "Set"):
		e |= EffTxSet
	case c.isInvokeOf(call, "store", "Tx", "Delete"):
		e |= EffTxDelete
	case c.isInvokeOf(call, "store", "Tx", "Cursor"):
		e |= EffCursor
	case c.isInvokeOf(call, "index", "Index", "Add"):
		e |= EffIdxAdd
	case c.isInvokeOf(call, "index", "Index", "Remove"):
		e |= EffIdxRemove
	case c.isInvokeOf(call, "index", "Index", "Drop"):
		e |= EffIdxDrop
	}
	if backendWriteFuncs[calleeFullName(call)] {
		e |= EffBackendW
	}
	if cc.IsInvoke() {
		if !c.methodIsStoreIface(cc.Method) {
			for _, f := range c.libImpls(cc.Method) {
				e |= c.eff(f)
			}
		}
	} else if g := staticCallee(call); g != nil {
		g = c.declared(g)
		if c.IsLib(g) {
			e |= c.eff(g)
		}
	} else {
		for _, g := range c.localClosureTargets(call) {
			e |= c.eff(g)
		}
	}
	for _, a := range cc.Args {
		if f := closureFn(a); f != nil && c.IsLib(f) {
			e |= c.eff(f)
		}
	}
	return e
}

// reachFuncs: the set of library functions reachable from fn through the
// summary edges (static calls, lib impls of lib interfaces, closures).
func (c *Ctx) reachFuncs(fn *ssa.Function) map[*ssa.Function]bool {
	seen := map[*ssa.Function]bool{fn: true}
	stack := []*ssa.Function{fn}
	for len(stack) > 0 {
		f := stack[len(stack)-1]
		stack = stack[:len(stack)-1]
		for _, s := range c.succFuncs(f) {
			if !seen[s] {
				seen[s] = true
				stack = append(stack, s)
			}
		}
	}
	return seen
}

// beginFlag: the bool parameter of the enclosing function that decides whether
// this Begin opens an update transaction (Begin(update) in a tx-scope helper).
func (c *Ctx) beginFlag(call ssa.CallInstruction) *ssa.Parameter {
	if c.beginKind(call) == "" {
		return nil
	}
	args := call.Common().Args
	var a ssa.Value
	if call.Common().IsInvoke() {
		a = args[0]
	} else {
		a = args[len(args)-1]
	}
	p, ok := a.(*ssa.Parameter)
	if !ok || p.Parent() != call.Parent() {
		return nil
	}
	return p
}

// txBodies: closures (or named functions) passed as the func(tx) argument of a
// tx-scope helper, i.e. a function that opens a transaction and calls one of
// its func-typed parameters with the transaction. Returned with the call site.
type txBody struct {
	Fn     *ssa.Function // the body
	Helper *ssa.Function
	Site   ssa.CallInstruction
	Kind   string // r | w, resolved at the call site when the helper takes a flag
}

func (c *Ctx) txScopeHelpers() map[*ssa.Function]int {
	out := map[*ssa.Function]int{}
	for _, fn := range c.LibFuncs {
		if c.returnsStoreTx(fn) {
			continue
		}
		var tx ssa.Value
		allCalls(fn, func(call ssa.CallInstruction) {
			if c.beginKind(call) == "" {
				return
			}
			if cl, ok := call.(*ssa.Call); ok {
				if cl.Common().Signature().Results().Len() == 1 {
					tx = cl
				} else if vs := resultValues(cl, 0); len(vs) > 0 {
					tx = vs[0]
				}
			}
		})
		if tx == nil {
			continue
		}
		allCalls(fn, func(call ssa.CallInstruction) {
			cc := call.Common()
			if cc.IsInvoke() || staticCallee(call) != nil {
				return
			}
			p, ok := cc.Value.(*ssa.Parameter)
			if !ok {
				return
			}
			for _, a := range cc.Args {
				if a == tx || sameOrigin(a, tx) {
					out[fn] = paramIndex(fn, p)
				}
			}
		})
	}
	return out
}

func (c *Ctx) txBodies() []txBody {
	helpers := c.txScopeHelpers()
	var out []txBody
	for _, fn := range c.LibFuncs {
		allCalls(fn, func(call ssa.CallInstruction) {
			g := staticCallee(call)
			if g == nil {
				return
			}
			g = c.declared(g)
			pi, ok := helpers[g]
			if !ok || pi >= len(call.Common().Args) {
				return
			}
			body := closureFn(call.Common().Args[pi])
			if body == nil {
				for _, o := range origins(call.Common().Args[pi]) {
					if f := closureFn(o); f != nil {
						body = f
					}
				}
			}
			if body == nil || !c.IsLib(body) {
				return
			}
			kind := "w"
			// the helper's Begin flag, resolved at this site
			allCalls(g, func(b ssa.CallInstruction) {
				if k := c.beginKind(b); k != "" {
					kind = k
					if fp := c.beginFlag(b); fp != nil {
						fi := paramIndex(g, fp)
						if fi >= 0 && fi < len(call.Common().Args) {
							if bv, ok := constBool(call.Common().Args[fi]); ok && !bv {
								kind = "r"
							} else {
								kind = "w"
							}
						}
					}
				}
			})
			out = append(out, txBody{Fn: body, Helper: g, Site: call, Kind: kind})
		})
	}
	return out
}

// liveBlocksUnder: blocks of fn reachable when the bool parameters in env have
// the given values (edges of `if param` contradicting env are cut).
func liveBlocksUnder(fn *ssa.Function, env map[*ssa.Parameter]bool) map[*ssa.BasicBlock]bool {
	live := map[*ssa.BasicBlock]bool{}
	if len(fn.Blocks) == 0 {
		return live
	}
	stack := []*ssa.BasicBlock{fn.Blocks[0]}
	live[fn.Blocks[0]] = true
	for len(stack) > 0 {
		b := stack[len(stack)-1]
		stack = stack[:len(stack)-1]
		var cut = -1
		if len(b.Instrs) > 0 {
			if iff, ok := b.Instrs[len(b.Instrs)-1].(*ssa.If); ok {
				cond := iff.Cond
				neg := false
				if u, ok := cond.(*ssa.UnOp); ok && u.Op == token.NOT {
					cond, neg = u.X, true
				}
				if p, ok := cond.(*ssa.Parameter); ok {
					if v, bound := env[p]; bound {
						if v != neg {
							cut = 1 // condition true: false edge dead
						} else {
							cut = 0
						}
					}
				}
			}
		}
		for i, s := range b.Succs {
			if i == cut {
				continue
			}
			if !live[s] {
				live[s] = true
				stack = append(stack, s)
			}
		}
	}
	return live
}
