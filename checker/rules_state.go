package main

import (
	"fmt"
	"go/token"
	"go/types"
	"sort"
	"strings"

	"golang.org/x/tools/go/ssa"
)

// Rules about state that outlives a step (round p).

// ---------------------------------------------------------------- DEPTH1

// DEPTH1: a walk that carries its depth as an integer parameter hands "own depth + 1" (or the
// own depth) to itself and to the walks it calls, computed from the parameter itself. A depth
// that is incremented in place (`depth++` in the loop over the fields) is one too large for
// every field that follows an embedded struct: names promoted from the embedded struct then
// win over the struct's own later fields.
func ruleDEPTH1(c *Ctx) []Ob {
	o := newObs(c, "DEPTH1")
	n := 0
	for _, fn := range c.LibFuncs {
		if fn.Parent() != nil || c.pkgRel(fn) != "internal" {
			continue
		}
		// integer parameters that some self call receives as something other than the parameter itself
		for pi, p := range fn.Params {
			if !isIntType(p.Type()) {
				continue
			}
			isDepth := false
			allCalls(fn, func(ci ssa.CallInstruction) {
				if g := staticCallee(ci); g != nil && c.declared(g) == fn && pi < len(ci.Common().Args) && ci.Common().Args[pi] != ssa.Value(p) {
					isDepth = true
				}
			})
			if !isDepth {
				continue
			}
			n++
			key := fmt.Sprintf("%s/the depth handed down is computed from the parameter %s itself", c.fname(fn), p.Name())
			bad := ""
			sameLevel := false
			// every integer argument of a library call, and every integer stored into a map, that derives
			// from the parameter is the parameter or parameter + constant
			fromParam := func(v ssa.Value) (derived, direct bool) {
				switch x := v.(type) {
				case *ssa.Parameter:
					return x == p, x == p
				case *ssa.BinOp:
					if x.Op == token.ADD || x.Op == token.SUB {
						if x.X == ssa.Value(p) {
							if _, isK := constInt(x.Y); isK {
								return true, true
							}
						}
						d1, _ := fromParamShallow(x.X, p, 0)
						d2, _ := fromParamShallow(x.Y, p, 0)
						return d1 || d2, false
					}
				case *ssa.Phi:
					d, _ := fromParamShallow(x, p, 0)
					return d, false
				}
				return false, false
			}
			for _, b := range fn.Blocks {
				for _, in := range b.Instrs {
					switch x := in.(type) {
					case *ssa.Call:
						g := staticCallee(x)
						if g == nil || !c.IsLib(c.declared(g)) {
							continue
						}
						// a walk of an embedded struct (this function again, or another self-recursive walk of the
						// package that carries a depth) is one level deeper: it gets the own depth plus a constant
						if gd := c.declared(g); c.pkgRel(gd) == "internal" && gd.Parent() == nil {
							for ai, a := range x.Call.Args {
								if a != ssa.Value(p) || ai >= len(gd.Params) || !isIntType(gd.Params[ai].Type()) {
									continue
								}
								walks := false
								gp := gd.Params[ai]
								allCalls(gd, func(gc ssa.CallInstruction) {
									if h := staticCallee(gc); h != nil && c.declared(h) == gd && ai < len(gc.Common().Args) && gc.Common().Args[ai] != ssa.Value(gp) {
										walks = true
									}
								})
								if walks {
									bad = fmt.Sprintf("%s: %s, which walks the fields of an embedded struct, is given the own depth", relPath(c, x.Pos()), c.fname(gd))
									sameLevel = true
								}
							}
						}
						for _, a := range x.Call.Args {
							if !isIntType(a.Type()) {
								continue
							}
							if derived, direct := fromParam(a); derived && !direct {
								bad = fmt.Sprintf("%s: %s gets a depth that went through a variable changed in a loop", relPath(c, x.Pos()), c.calleeName(x))
							}
						}
					case *ssa.MapUpdate:
						if !isIntType(x.Value.Type()) {
							continue
						}
						if derived, direct := fromParam(x.Value); derived && !direct {
							bad = fmt.Sprintf("%s: the depth recorded for a name went through a variable changed in a loop", relPath(c, x.Pos()))
						}
					}
				}
			}
			if bad != "" && sameLevel {
				o.add(VIOLATED, key, relPath(c, fn.Pos()), "%s instead of depth + 1: the names behind the embedded field are taken at the depth of the enclosing struct, so a field the struct declares after it under the same name finds the name taken and is neither stored nor kept", bad)
			} else if bad != "" {
				o.add(VIOLATED, key, relPath(c, fn.Pos()), "%s: the own depth is incremented in place instead of handing down depth + 1 - after the first embedded struct every later field of the same struct counts as one level deeper, a name promoted from the embedded struct wins over the struct's own field declared after it, and the document no longer agrees with encoding/json on the way back", bad)
			} else {
				o.add(OK, key, relPath(c, fn.Pos()), "every depth handed to a library call or recorded in a map is the parameter or the parameter plus a constant")
			}
		}
	}
	if n == 0 {
		o.add(INFO, "depth-carrying walks", "-", "no self-recursive function of package internal carries a depth parameter")
	}
	return o.list
}

// fromParamShallow: v derives from p through phis and additions.
func fromParamShallow(v ssa.Value, p *ssa.Parameter, depth int) (bool, bool) {
	if depth > 6 || v == nil {
		return false, false
	}
	switch x := v.(type) {
	case *ssa.Parameter:
		return x == p, x == p
	case *ssa.BinOp:
		a, _ := fromParamShallow(x.X, p, depth+1)
		b, _ := fromParamShallow(x.Y, p, depth+1)
		return a || b, false
	case *ssa.Phi:
		for _, e := range x.Edges {
			if e == v {
				continue
			}
			if d, _ := fromParamShallow(e, p, depth+1); d {
				return true, false
			}
		}
	}
	return false, false
}

// ---------------------------------------------------------------- ALIAS4

// ALIAS4: an object allocated before a loop is not put into one slot of a container per
// iteration while the loop rewrites it: every slot then holds the same pointer and shows the
// value written last (one *LocalizedTime wrapper for all the times of an array).
func ruleALIAS4(c *Ctx) []Ob {
	o := newObs(c, "ALIAS4")
	n, bad := 0, 0
	for _, fn := range c.LibFuncs {
		li := c.loops(fn)
		if li == nil || len(li.loops) == 0 {
			continue
		}
		for _, b := range fn.Blocks {
			if !c.inLoop(b) {
				continue
			}
			_, body := c.innermostLoop(b)
			for _, in := range b.Instrs {
				var val ssa.Value
				switch x := in.(type) {
				case *ssa.Store:
					if _, isIA := x.Addr.(*ssa.IndexAddr); isIA {
						val = x.Val
					}
				case *ssa.MapUpdate:
					val = x.Value
				case *ssa.Call:
					if bi, ok := x.Call.Value.(*ssa.Builtin); ok && bi.Name() == "append" && len(x.Call.Args) == 2 {
						// append(s, v): the variadic slice literal holds v
						if sl, ok := x.Call.Args[1].(*ssa.Slice); ok {
							if al, ok := sl.X.(*ssa.Alloc); ok {
								for _, sv := range storesTo(al) {
									val = sv
								}
								_ = al
							}
						}
					}
				}
				if val == nil {
					continue
				}
				v := stripIfaceOnly(val)
				al, ok := v.(*ssa.Alloc)
				if !ok || body[al.Block()] {
					continue
				}
				if _, isPtr := al.Type().Underlying().(*types.Pointer); !isPtr {
					continue
				}
				n++
				// rewritten inside the loop?
				rewritten := false
				if al.Referrers() != nil {
					for _, r := range *al.Referrers() {
						switch x := r.(type) {
						case *ssa.FieldAddr, *ssa.IndexAddr:
							xv := x.(ssa.Value)
							if xv.Referrers() != nil {
								for _, rr := range *xv.Referrers() {
									if st, ok := rr.(*ssa.Store); ok && st.Addr == xv && body[st.Block()] {
										rewritten = true
									}
								}
							}
						case *ssa.Store:
							if x.Addr == ssa.Value(al) && body[x.Block()] {
								rewritten = true
							}
						}
					}
				}
				if rewritten {
					bad++
					o.add(VIOLATED, fmt.Sprintf("%s/one object for every slot #%d", c.fname(fn), bad), relPath(c, in.Pos()), "the object allocated before the loop (%s) is stored into a slot of the container on each iteration and rewritten in between: all the slots hold the same pointer and show what was written last (every time of an array stored as the last one)", relPath(c, al.Pos()))
				}
			}
		}
	}
	if bad == 0 {
		o.add(OK, "library/a slot per object", "-", "%d stores of pre-allocated objects into container slots inside loops inspected: none is rewritten by the loop", n)
	}
	return o.list
}

// ---------------------------------------------------------------- ADP14

// ADP14: Seek replaces the whole position of a cursor. Every field of the cursor that some path
// of a Seek implementation assigns is assigned on every path to its return (directly or by a
// helper given the cursor): a flag set on one path only ("exhausted" for a reverse seek to the
// empty key) survives the next Seek, and the cursor stays dead although it was repositioned.
func ruleADP14(c *Ctx) []Ob {
	o := newObs(c, "ADP14")
	n := 0
	for _, fn := range c.storeImpls("Cursor", "Seek") {
		if len(fn.Params) == 0 {
			continue
		}
		recv := fn.Params[0]
		// writers: instruction -> fields of the receiver it (certainly) assigns
		writes := map[ssa.Instruction]map[string]bool{}
		may := map[string]bool{}
		var fieldsWrittenBy func(g *ssa.Function, p *ssa.Parameter, depth int) (must, mayw map[string]bool)
		fieldsWrittenBy = func(g *ssa.Function, p *ssa.Parameter, depth int) (map[string]bool, map[string]bool) {
			w := map[ssa.Instruction]map[string]bool{}
			mayw := map[string]bool{}
			for _, b := range g.Blocks {
				for _, in := range b.Instrs {
					switch x := in.(type) {
					case *ssa.Store:
						if base, f, _ := fieldOfAddr(x.Addr); f != "" && (base == ssa.Value(p) || sameOrigin(base, p)) {
							w[in] = map[string]bool{f: true}
							mayw[f] = true
						}
					case *ssa.Call:
						h := staticCallee(x)
						if h == nil || depth > 2 {
							continue
						}
						h = c.declared(h)
						if !c.IsLib(h) || h == g {
							continue
						}
						for ai, a := range x.Call.Args {
							if (a == ssa.Value(p) || sameOrigin(a, p)) && ai < len(h.Params) {
								m, my := fieldsWrittenBy(h, h.Params[ai], depth+1)
								if len(m) > 0 {
									w[in] = m
								}
								for f := range my {
									mayw[f] = true
								}
							}
						}
					}
				}
			}
			// must: every path from the entry to a return passes a writer of f
			must := map[string]bool{}
			for f := range mayw {
				if mustPass(g, func(in ssa.Instruction) bool { return w[in][f] }) {
					must[f] = true
				}
			}
			if g == fn {
				writes = w
			}
			return must, mayw
		}
		must, mayw := fieldsWrittenBy(fn, recv, 0)
		may = mayw
		_ = writes
		var fields []string
		for f := range may {
			fields = append(fields, f)
		}
		sort.Strings(fields)
		for _, f := range fields {
			n++
			key := fmt.Sprintf("%s/field %s is assigned on every path", c.fname(fn), f)
			if must[f] {
				o.add(OK, key, relPath(c, fn.Pos()), "every path to a return assigns the field")
			} else {
				o.add(VIOLATED, key, relPath(c, fn.Pos()), "Seek assigns the cursor's field %s on some paths and leaves it as it was on others: what an earlier Seek left there (a reverse seek to the empty key marks the cursor exhausted) survives a later Seek, which moves the backend iterator but not the flag - the cursor stays invalid on badger where the bbolt adapter, which replaces its position on every Seek, finds the key", f)
			}
		}
	}
	if n == 0 {
		o.add(INFO, "cursor fields", "-", "no Seek implementation assigns a field of its cursor")
	}
	return o.list
}

// mustPass: every path from the entry of g to a Return passes an instruction accepted by is.
func mustPass(g *ssa.Function, is func(ssa.Instruction) bool) bool {
	if len(g.Blocks) == 0 {
		return false
	}
	seen := map[*ssa.BasicBlock]bool{}
	ok := true
	var walk func(b *ssa.BasicBlock)
	walk = func(b *ssa.BasicBlock) {
		if seen[b] || !ok {
			return
		}
		seen[b] = true
		for _, in := range b.Instrs {
			if is(in) {
				return
			}
			if _, isRet := in.(*ssa.Return); isRet {
				ok = false
				return
			}
		}
		for _, s := range b.Succs {
			walk(s)
		}
	}
	walk(g.Blocks[0])
	return ok
}

// ---------------------------------------------------------------- IMM5

// IMM5: no package-level object with fields that the library's own code assigns is handed
// around at run time. A visitor, a buffer or a cache kept in a package-level variable and
// passed to (or called on by) the operations is shared by every goroutine and every handle:
// what one operation leaves in its fields (an error found while normalising one query) is
// found there by another.
func ruleIMM5(c *Ctx) []Ob {
	o := newObs(c, "IMM5")
	n := 0
	// struct types one of whose fields is assigned through a parameter (receiver) somewhere in the library
	mutable := map[*types.Named]string{}
	for _, fn := range c.LibFuncs {
		if fn.Name() == "init" || strings.HasPrefix(fn.Name(), "init#") {
			continue
		}
		for _, b := range fn.Blocks {
			for _, in := range b.Instrs {
				st, ok := in.(*ssa.Store)
				if !ok {
					continue
				}
				base, f, nm := fieldOfAddr(st.Addr)
				if f == "" || nm == nil {
					continue
				}
				for _, og := range origins(base) {
					if _, isP := og.(*ssa.Parameter); isP {
						if _, seen := mutable[nm]; !seen {
							mutable[nm] = fmt.Sprintf("%s assigns %s.%s (%s)", c.fname(fn), namedName(nm), f, relPath(c, st.Pos()))
						}
					}
				}
			}
		}
	}
	var pkgs []string
	for p := range c.LibPkgs {
		pkgs = append(pkgs, p)
	}
	sort.Strings(pkgs)
	for _, pp := range pkgs {
		sp := c.LibPkgs[pp]
		var names []string
		for name := range sp.Members {
			names = append(names, name)
		}
		sort.Strings(names)
		for _, name := range names {
			g, ok := sp.Members[name].(*ssa.Global)
			if !ok {
				continue
			}
			t := g.Type().(*types.Pointer).Elem()
			var nm *types.Named
			if pt, ok := t.Underlying().(*types.Pointer); ok {
				nm, _ = pt.Elem().(*types.Named)
			} else {
				nm, _ = t.(*types.Named)
			}
			if nm == nil {
				continue
			}
			why, isMut := mutable[nm]
			if !isMut {
				continue
			}
			// used at run time?
			used := ""
			if g.Referrers() != nil {
				for _, r := range *g.Referrers() {
					f := r.Parent()
					if f == nil || f.Name() == "init" || strings.HasPrefix(f.Name(), "init#") {
						continue
					}
					used = c.fname(f) + " (" + relPath(c, r.Pos()) + ")"
				}
			}
			// go/ssa does not record referrers of globals: scan
			if used == "" {
				for _, fn := range c.LibFuncs {
					if fn.Name() == "init" || strings.HasPrefix(fn.Name(), "init#") {
						continue
					}
					for _, b := range fn.Blocks {
						for _, in := range b.Instrs {
							for _, op := range in.Operands(nil) {
								if op != nil && *op == ssa.Value(g) && used == "" {
									used = c.fname(fn) + " (" + relPath(c, in.Pos()) + ")"
								}
							}
						}
					}
				}
			}
			if used == "" {
				continue
			}
			n++
			o.add(VIOLATED, "global "+c.pkgShort(pp)+"."+name+"/an object with assigned fields is not shared by all operations", relPath(c, g.Pos()), "the package-level %s holds a %s, whose fields the library assigns (%s), and is used at run time by %s: every goroutine and every handle work on the same fields - what one operation leaves there another finds (an invalid operand in one query rejects a valid query running beside it, and the invalid one goes on with a nil criteria)", name, namedName(nm), why, used)
		}
	}
	if n == 0 {
		o.add(OK, "library/no shared object with assigned fields", "-", "no package-level variable holds an object whose fields the library assigns at run time")
	}
	return o.list
}

func (c *Ctx) pkgShort(path string) string {
	if path == c.ModPath {
		return "clover"
	}
	return strings.TrimPrefix(path, c.ModPath+"/")
}

// ---------------------------------------------------------------- STALE1

// STALE1: what a loop computes from one element is not applied to the next. A variable that
// lives across the iterations of a loop over the elements of a container, that is assigned from
// the current element on some paths through the body only, and whose value is then handed to a
// call on (or with) the current element, carries the previous element's value whenever the
// assigning path is not taken (the expiration parsed from one imported document set on the
// documents that follow it).
func ruleSTALE1(c *Ctx) []Ob {
	o := newObs(c, "STALE1")
	n, bad := 0, 0
	for _, fn := range c.LibFuncs {
		li := c.loops(fn)
		if li == nil {
			continue
		}
		var headers []*ssa.BasicBlock
		for h := range li.loops {
			headers = append(headers, h)
		}
		sort.Slice(headers, func(i, j int) bool { return headers[i].Index < headers[j].Index })
		for _, h := range headers {
			body := li.loops[h]
			// the element of the iteration: values defined in the body from the loop's index / range
			isElem := func(v ssa.Value) bool { return false }
			elemVals := map[ssa.Value]bool{}
			for b := range body {
				for _, in := range b.Instrs {
					switch x := in.(type) {
					case *ssa.IndexAddr:
						if c.isLoopCounter(x.Index, h) {
							elemVals[x] = true
						}
					case *ssa.Index:
						if c.isLoopCounter(x.Index, h) {
							elemVals[x] = true
						}
					case *ssa.Extract:
						if _, isNext := x.Tuple.(*ssa.Next); isNext {
							elemVals[x] = true
						}
					}
				}
			}
			if len(elemVals) == 0 {
				continue
			}
			// closure under derivation inside the body
			for changed := true; changed; {
				changed = false
				for b := range body {
					for _, in := range b.Instrs {
						v, ok := in.(ssa.Value)
						if !ok || elemVals[v] {
							continue
						}
						switch in.(type) {
						case *ssa.UnOp, *ssa.FieldAddr, *ssa.Field, *ssa.TypeAssert, *ssa.Extract, *ssa.Lookup, *ssa.MakeInterface, *ssa.ChangeType, *ssa.Call, *ssa.Convert, *ssa.Slice:
						default:
							continue
						}
						for _, op := range in.Operands(nil) {
							if op != nil && *op != nil && elemVals[*op] {
								elemVals[v] = true
								changed = true
							}
						}
					}
				}
			}
			isElem = func(v ssa.Value) bool { return elemVals[v] }
			for _, in := range h.Instrs {
				phi, ok := in.(*ssa.Phi)
				if !ok {
					break
				}
				if c.isLoopCounter(phi, h) {
					continue
				}
				// back-edge values: unchanged on some path, assigned from the element on another
				keeps, fromElem, dependsOnSelf := false, false, false
				seen := map[ssa.Value]bool{}
				var walk func(v ssa.Value)
				walk = func(v ssa.Value) {
					if seen[v] {
						return
					}
					seen[v] = true
					if v == ssa.Value(phi) {
						keeps = true
						return
					}
					if p, ok := v.(*ssa.Phi); ok && body[p.Block()] {
						for _, e := range p.Edges {
							walk(e)
						}
						return
					}
					if isElem(v) {
						fromElem = true
					}
					// an accumulator: the new value is computed from the old one
					if usesValue(v, phi, 0) {
						dependsOnSelf = true
					}
				}
				for i, e := range phi.Edges {
					if body[h.Preds[i]] {
						walk(e)
					}
				}
				if !keeps || !fromElem || dependsOnSelf {
					continue
				}
				n++
				// the merged value handed to a call that also works on the element
				var site ssa.Instruction
				merged := map[ssa.Value]bool{phi: true}
				for b := range body {
					for _, bi := range b.Instrs {
						if p, ok := bi.(*ssa.Phi); ok {
							for _, e := range p.Edges {
								if merged[e] {
									merged[p] = true
								}
							}
						}
					}
				}
				for b := range body {
					for _, bi := range b.Instrs {
						call, ok := bi.(*ssa.Call)
						if !ok {
							continue
						}
						takesMerged, takesElem := false, false
						for _, a := range call.Call.Args {
							if merged[stripIfaceOnly(a)] || merged[a] {
								takesMerged = true
							}
							if isElem(a) || isElem(stripIfaceOnly(a)) {
								takesElem = true
							}
						}
						if call.Call.IsInvoke() && isElem(call.Call.Value) {
							takesElem = true
						}
						if takesMerged && takesElem {
							site = call
						}
					}
				}
				if site != nil {
					bad++
					name := phi.Comment
					if name == "" {
						name = phi.Name()
					}
					o.add(VIOLATED, fmt.Sprintf("%s/a value computed from one element is not applied to the next #%d", c.fname(fn), bad), relPath(c, site.Pos()), "the variable %s lives across the iterations, is assigned from the current element on some paths through the loop body only, and is handed to a call on the current element: when the assigning path is not taken the element gets what an earlier element left there (a document without an expiration imported with the expiration of the one before it)", name)
				}
			}
		}
	}
	if bad == 0 {
		o.add(OK, "library/per-element values", "-", "%d loop-carried variables assigned from the element on some paths inspected: none is applied to a later element", n)
	}
	return o.list
}

// usesValue: v is computed from target (through arithmetic, calls, conversions).
func usesValue(v ssa.Value, target ssa.Value, depth int) bool {
	if v == nil || depth > 5 {
		return false
	}
	if v == target {
		return true
	}
	in, ok := v.(ssa.Instruction)
	if !ok {
		return false
	}
	if _, isPhi := v.(*ssa.Phi); isPhi {
		return false
	}
	for _, op := range in.Operands(nil) {
		if op != nil && *op != nil && usesValue(*op, target, depth+1) {
			return true
		}
	}
	return false
}

// isLoopCounter: v is the induction variable of the loop headed by h (a phi of h advanced by a
// constant), or derived from it by adding a constant.
func (c *Ctx) isLoopCounter(v ssa.Value, h *ssa.BasicBlock) bool {
	switch x := v.(type) {
	case *ssa.Phi:
		if x.Block() != h {
			return false
		}
		for _, e := range x.Edges {
			if bo, ok := e.(*ssa.BinOp); ok && (bo.Op == token.ADD || bo.Op == token.SUB) {
				if bo.X == ssa.Value(x) {
					if _, isK := constInt(bo.Y); isK {
						return true
					}
				}
			}
		}
	case *ssa.BinOp:
		if x.Op == token.ADD || x.Op == token.SUB {
			if _, isK := constInt(x.Y); isK {
				return c.isLoopCounter(x.X, h)
			}
		}
	}
	return false
}

// ---------------------------------------------------------------- NIL9

// NIL9: a pointer kept in a field that may have been stored there as nil is tested before it is
// used. A field assigned the pointer result of a call that also returns an error, at a place
// where that error has not been found nil (inside a sync.Once body, say), holds nil when the call
// failed: a method call or dereference of the field's value in another function must lie behind
// a nil test of that value - a test of an error variable of its own tells nothing on the second
// use, when the once-only body no longer runs.
func ruleNIL9(c *Ctx) []Ob {
	o := newObs(c, "NIL9")
	type fkey struct {
		n *types.Named
		f string
	}
	risky := map[fkey]string{}
	for _, fn := range c.LibFuncs {
		for _, b := range fn.Blocks {
			for _, in := range b.Instrs {
				st, ok := in.(*ssa.Store)
				if !ok {
					continue
				}
				_, f, nm := fieldOfAddr(st.Addr)
				if f == "" || nm == nil {
					continue
				}
				if _, isPtr := st.Val.Type().Underlying().(*types.Pointer); !isPtr {
					continue
				}
				for _, og := range origins(st.Val) {
					ex, ok := og.(*ssa.Extract)
					if !ok {
						continue
					}
					call, ok := ex.Tuple.(*ssa.Call)
					if !ok {
						continue
					}
					sig := call.Call.Signature()
					ei := errResultIndex(sig)
					if ei < 0 || ei == ex.Index {
						continue
					}
					// the paired error found nil on the way to the store?
					isErr := func(x ssa.Value) bool {
						for _, eo := range origins(x) {
							if e2, ok := eo.(*ssa.Extract); ok && e2.Tuple == ssa.Value(call) && e2.Index == ei {
								return true
							}
						}
						return false
					}
					if guardedBy(fn, b, nilEdges(fn, isErr)) {
						continue
					}
					// the error travels with the object: the function hands it back, its callers test it
					handedBack := false
					for _, ret := range returnsOf(fn) {
						for i := range ret.Results {
							if rv, ok := returnedValue(ret, i); ok && isErr(rv) {
								handedBack = true
							}
						}
					}
					if handedBack {
						continue
					}
					risky[fkey{nm, f}] = fmt.Sprintf("%s stores what %s returned without having found its error nil (%s)", c.fname(fn), calleeFullName(call), relPath(c, st.Pos()))
				}
			}
		}
	}
	n := 0
	var keys []fkey
	for k := range risky {
		keys = append(keys, k)
	}
	sort.Slice(keys, func(i, j int) bool { return namedName(keys[i].n)+keys[i].f < namedName(keys[j].n)+keys[j].f })
	for _, k := range keys {
		cnt := 0
		for _, fn := range c.LibFuncs {
			for _, b := range fn.Blocks {
				for _, in := range b.Instrs {
					call, ok := in.(*ssa.Call)
					if !ok || call.Call.IsInvoke() || len(call.Call.Args) == 0 {
						continue
					}
					g := staticCallee(call)
					if g == nil || g.Signature.Recv() == nil {
						continue
					}
					recv := call.Call.Args[0]
					_, f, nm := fieldLoad(recv)
					if f != k.f || nm == nil || !types.Identical(nm, k.n) {
						continue
					}
					n++
					cnt++
					key := fmt.Sprintf("%s/%s.%s is tested before it is used", c.fname(fn), namedName(k.n), k.f)
					if cnt > 1 {
						key += fmt.Sprintf(" #%d", cnt)
					}
					same := func(x ssa.Value) bool { return x == recv || samePath(x, recv, 0) }
					if guardedBy(fn, b, nonNilEdges(fn, same)) {
						o.add(OK, key, relPath(c, call.Pos()), "behind a nil test of the field's value")
					} else {
						o.add(VIOLATED, key, relPath(c, call.Pos()), "%s is called on the value of the field %s.%s with no nil test of that value, and %s: when that call failed the field holds nil, and a guard on an error variable of this function tells nothing once the storing code no longer runs (a sync.Once body runs on the first use only) - nil pointer dereference on the second evaluation", calleeFullName(call), namedName(k.n), k.f, risky[k])
					}
				}
			}
		}
	}
	if n == 0 {
		o.add(INFO, "possibly-nil fields", "-", "no field is assigned a pointer whose paired error was not found nil")
	}
	return o.list
}
