// cloverlint: repository-specific static analysis deciding structural clauses
// of the properties in /verif/properties.jsonl for ostafen/clover.
// Nothing of clover is executed: packages are type-checked, built to SSA and
// inspected (dominance, dataflow, call summaries, constant tables).
package main

import (
	"encoding/json"
	"flag"
	"fmt"
	"os"
	"path/filepath"
	"regexp"
	"runtime/debug"
	"sort"
	"strconv"
	"strings"
	"time"
)

func main() {
	var (
		prop     = flag.String("property", "", "property id (C01..C20), comma list, or 'all'")
		tier     = flag.String("tier", "quick", "quick | thorough")
		repo     = flag.String("repo", "/repo", "repository to analyse")
		verif    = flag.String("verif", "/verif", "verification directory (evidence, known findings)")
		rulesF   = flag.String("rules", "", "run only these rules (comma list) and print obligations; no evidence written")
		noEv     = flag.Bool("no-evidence", false, "do not write evidence/replay files")
		dumpKeys = flag.Bool("dump-keys", false, "print key sinks and templates")
		verbose  = flag.Bool("v", false, "print every obligation")
		manifest = flag.Bool("manifest", false, "print MANIFEST.json generated from the property table")
		rulesMD  = flag.Bool("rules-md", false, "print the rules serving each property, with their one-line documentation, as markdown")
		rulesOf  = flag.String("rules-of", "", "print a regexp matching the rules serving a property")
		selfJSON = flag.String("selftest-json", "", "self-test result file to embed into the evidence (thorough tier)")
	)
	flag.Parse()
	if *manifest {
		os.Exit(printManifest())
	}
	if *rulesMD {
		os.Exit(printRulesMD())
	}
	if *rulesOf != "" {
		p, ok := propertyTable()[*rulesOf]
		if !ok {
			os.Exit(2)
		}
		var names []string
		for _, r := range p.Rules {
			if i := strings.Index(r, "~"); i >= 0 {
				r = r[:i]
			}
			names = append(names, r)
		}
		fmt.Printf("^(%s)$\n", strings.Join(names, "|"))
		os.Exit(0)
	}
	selftestJSON = *selfJSON
	code := run(*prop, *tier, *repo, *verif, *rulesF, *noEv, *dumpKeys, *verbose)
	os.Exit(code)
}

var selftestJSON string

func run(prop, tier, repo, verif, rulesF string, noEv, dumpKeys, verbose bool) (code int) {
	defer func() {
		if r := recover(); r != nil {
			fmt.Fprintf(os.Stderr, "CHECKER-FAILURE: analyser panic: %v\n%s\n", r, debug.Stack())
			code = 2
		}
	}()
	if tier != "quick" && tier != "thorough" {
		fmt.Fprintln(os.Stderr, "CHECKER-FAILURE: tier must be quick or thorough")
		return 2
	}
	t0 := time.Now()
	repo, _ = filepath.Abs(repo)
	c, err := Load(repo, tier)
	if err != nil {
		fmt.Fprintf(os.Stderr, "CHECKER-FAILURE: %v\n", err)
		return 2
	}
	loadS := time.Since(t0).Seconds()

	if dumpKeys {
		for _, s := range c.keySinks() {
			fmt.Printf("%-10s %-40s %s\n", s.Op, c.fname(s.Fn), relPath(c, s.Call.Pos()))
			for _, t := range s.Tmpls {
				fmt.Printf("      %s   [%s]\n", t, t.skeleton())
			}
		}
		return 0
	}

	reg := registry()
	if rulesF != "" {
		bad := 0
		for _, rn := range strings.Split(rulesF, ",") {
			r, ok := reg[rn]
			if !ok {
				fmt.Fprintf(os.Stderr, "CHECKER-FAILURE: unknown rule %s\n", rn)
				return 2
			}
			obl := dedupe(r.Run(c))
			sortObs(obl)
			n, okc, viol, undec, info := summarise(obl)
			fmt.Printf("== %s: %d obligations, %d discharged, %d violated, %d undecided, %d info (floor %d)\n", rn, n, okc, viol, undec, info, r.Floor)
			for _, o := range obl {
				fmt.Printf("  %-10s %-70s %s  %s\n", o.Status, o.Key, o.Pos, o.Msg)
			}
			bad += viol + undec
			if n < r.Floor {
				fmt.Printf("  FLOOR: %d < %d\n", n, r.Floor)
				bad++
			}
		}
		if bad > 0 {
			return 1
		}
		return 0
	}

	props := propertyTable()
	if tier == "thorough" {
		for _, p := range props {
			p.Rules = append(append([]string{}, p.Rules...), "CG1")
		}
	}
	var ids []string
	if prop == "all" {
		for id := range props {
			ids = append(ids, id)
		}
		sort.Strings(ids)
	} else {
		for _, id := range strings.Split(prop, ",") {
			if _, ok := props[id]; !ok {
				fmt.Fprintf(os.Stderr, "CHECKER-FAILURE: unknown property %q\n", id)
				return 2
			}
			ids = append(ids, id)
		}
	}
	if len(ids) == 0 {
		fmt.Fprintln(os.Stderr, "CHECKER-FAILURE: no property given")
		return 2
	}
	ff, err := loadFindings(filepath.Join(verif, "known_findings.json"))
	if err != nil {
		fmt.Fprintf(os.Stderr, "CHECKER-FAILURE: %v\n", err)
		return 2
	}
	seed := 0
	if s := os.Getenv("VERIF_SEED"); s != "" {
		if v, err := strconv.Atoi(s); err == nil {
			seed = v
		}
	}

	// run every needed rule once
	cache := map[string][]Ob{}
	ruleWall := map[string]float64{}
	exit := 0
	for _, id := range ids {
		p := props[id]
		tp := time.Now()
		var all []Ob
		var ruleNotes []string
		floorFail := 0
		for _, spec := range p.Rules {
			// "RULE" or "RULE~regexp": the regexp scopes the rule's obligations (matched
			// against the key without the rule prefix) to the constructs this property is about
			rn, scope := spec, ""
			if i := strings.Index(spec, "~"); i >= 0 {
				rn, scope = spec[:i], spec[i+1:]
			}
			r, ok := reg[rn]
			if !ok {
				fmt.Fprintf(os.Stderr, "CHECKER-FAILURE: property %s names unknown rule %s\n", id, rn)
				return 2
			}
			obl, done := cache[rn]
			if !done {
				tr := time.Now()
				obl = dedupe(r.Run(c))
				sortObs(obl)
				cache[rn] = obl
				ruleWall[rn] = time.Since(tr).Seconds()
			}
			nAll, _, _, _, _ := summarise(obl)
			if scope != "" {
				re, err := regexp.Compile(scope)
				if err != nil {
					fmt.Fprintf(os.Stderr, "CHECKER-FAILURE: bad scope %q: %v\n", spec, err)
					return 2
				}
				var kept []Ob
				for _, ob := range obl {
					if re.MatchString(shortKey(ob.Key)) {
						kept = append(kept, ob)
					}
				}
				obl = kept
			}
			n, okc, viol, undec, _ := summarise(obl)
			if scope != "" && n == 0 {
				// the functions the scope names no longer exist (renamed / restructured): judge the
				// property on the whole rule instead of passing vacuously or raising a false alarm
				obl = cache[rn]
				n, okc, viol, undec, _ = summarise(obl)
				spec += " (scope matched nothing: unscoped)"
			}
			ruleNotes = append(ruleNotes, fmt.Sprintf("%s[%d obligations: %d discharged, %d violated, %d undecided; floor %d]", spec, n, okc, viol, undec, r.Floor))
			if nAll < r.Floor {
				floorFail++
				all = append(all, Ob{Rule: rn, Key: rn + "/floor", Pos: "-", Status: UNDECIDED,
					Msg: fmt.Sprintf("rule matched %d sites, fewer than the %d confirmed by hand: the rule's slot no longer resolves (vacuous pass refused)", nAll, r.Floor)})
			}
			all = append(all, obl...)
		}
		n, okc, viol, undec, info := summarise(all)
		// report
		nviol := 0
		replayDir := filepath.Join(verif, "evidence", "replay")
		var samples []interface{}
		var bad []Ob
		var knownHits []string
		for _, o := range all {
			if o.Status == VIOLATED || o.Status == UNDECIDED {
				bad = append(bad, o)
			}
		}
		for i, o := range bad {
			if kf := ff.known(id, o.Key); kf != nil && o.Status == VIOLATED {
				fmt.Printf("KNOWN-FINDING: property=%s %s [%s at %s]\n", id, kf.What, o.Key, o.Pos)
				knownHits = append(knownHits, o.Key+" at "+o.Pos)
				continue
			}
			nviol++
			rp := filepath.Join(replayDir, fmt.Sprintf("%s-%d.json", id, i+1))
			if !noEv {
				_ = writeJSON(rp, map[string]interface{}{
					"property": id, "rule": o.Rule, "key": o.Key, "pos": o.Pos, "status": o.Status, "msg": o.Msg,
					"rule_doc": reg[o.Rule].Doc,
					"replay":   fmt.Sprintf("cd %s && ./check.sh --rules %s", verif, o.Rule),
				})
			}
			fmt.Printf("%s %s: %s at %s: %s\n", strings.ToUpper(o.Status), id, o.Key, o.Pos, o.Msg)
			fmt.Printf("VIOLATION property=%s replay=%s\n", id, rp)
		}
		if verbose {
			for _, o := range all {
				fmt.Printf("  %-10s %-70s %s  %s\n", o.Status, o.Key, o.Pos, o.Msg)
			}
		}
		// samples: a spread of actual obligations (all violated/undecided first)
		for _, o := range bad {
			samples = append(samples, o)
		}
		perRule := map[string]int{}
		for _, o := range all {
			if o.Status == OK && perRule[o.Rule] < 4 {
				perRule[o.Rule]++
				samples = append(samples, o)
			}
		}
		distinct := map[string]bool{}
		for _, o := range all {
			if o.Status != INFO {
				distinct[o.Key] = true
			}
		}
		var infos []string
		for _, o := range all {
			if o.Status == INFO {
				infos = append(infos, fmt.Sprintf("%s at %s: %s", o.Key, o.Pos, o.Msg))
			}
		}
		wall := time.Since(tp).Seconds() + loadS
		ev := Evidence{
			PropertyID: id, Tier: tier, Seed: seed, Level: "other",
			Coverage: map[string]interface{}{
				"explanation":         fullExplanation(p),
				"not_decided":         p.NotDecided,
				"obligations":         n,
				"discharged":          okc,
				"violated":            viol,
				"undecided":           undec,
				"evaluations":         n,
				"distinct_nontrivial": len(distinct),
				"rule": "every construct of /repo's current source matching a rule slot (transaction opener, store call, key expression, visitor return, type assertion, comparator operation, table row ...) yields one obligation keyed rule/function/construct; distinct = distinct keys; info-only notes are not counted. Rules run: " +
					strings.Join(ruleNotes, "; "),
				"rules":              p.Rules,
				"samples":            samples,
				"information":        infos,
				"known_findings":     knownHits,
				"packages_analysed":  c.NPackages,
				"functions_analysed": c.NFuncs,
				"call_sites_scanned": c.NCalls,
				"whole_program_ssa":  c.Whole,
				"checker_cmd":        fmt.Sprintf("./check.sh %s %s", id, tier),
				"trusted_base": []string{
					"go/types type checker and go/ssa construction (golang.org/x/tools v0.29.0)",
					"transactional semantics of bbolt and badger (rollback discards, read-only transactions refuse writes)",
					"the frozen tables named in DESIGN.md (canonical value types, read-operation list, expected rank/negation/range tables)",
				},
				"exhaustive":     true,
				"selftest":       loadSelftest(),
				"floor_failures": floorFail,
			},
			Assumptions: p.Assumptions,
			WallS:       wall,
			Violations:  nviol,
		}
		if !noEv {
			if err := writeJSON(filepath.Join(verif, "evidence", id+".json"), ev); err != nil {
				fmt.Fprintf(os.Stderr, "CHECKER-FAILURE: writing evidence: %v\n", err)
				return 2
			}
		}
		verdict := "HELD"
		if nviol > 0 {
			verdict = "VIOLATED"
			exit = 1
		}
		fmt.Printf("%s %s tier=%s rules=%d obligations=%d discharged=%d violated=%d undecided=%d info=%d funcs=%d wall=%.1fs\n",
			id, verdict, tier, len(p.Rules), n, okc, viol, undec, info, c.NFuncs, wall)
	}
	return exit
}

// loadSelftest embeds the mutation self-test summary produced by selftest.sh (thorough tier).
func loadSelftest() interface{} {
	if selftestJSON == "" {
		return "not run in this tier"
	}
	b, err := os.ReadFile(selftestJSON)
	if err != nil {
		return "self-test result unreadable: " + err.Error()
	}
	var v interface{}
	if json.Unmarshal(b, &v) != nil {
		return "self-test result unreadable"
	}
	return v
}
