#!/bin/sh
# thorough.sh <property-id> [repo]: thorough tier =
#   (1) mutation self-test of every rule serving the property on scratch copies of the current tree
#       (a surviving mutant is a checker failure: exit 2, no VIOLATION line), then
#   (2) the analysis with whole-program SSA and the VTA call-graph cross-check (rule CG1).
cd "$(dirname "$0")" || exit 2
export GOFLAGS=-mod=mod GOPROXY=off GOSUMDB=off GOTOOLCHAIN=local GOWORK=off
ID="$1"; REPO="${2:-${CLOVER_REPO:-/repo}}"
[ -x bin/cloverlint ] || ./setup.sh >/dev/null || exit 2
if [ "$ID" = all ]; then RE=.; else RE=$(bin/cloverlint -rules-of "$ID") || { echo "CHECKER-FAILURE: unknown property $ID" >&2; exit 2; }; fi
ST=$(mktemp "${TMPDIR:-/tmp}/cloverlint-st.XXXXXX.json")
trap 'rm -f "$ST"' EXIT
CLOVER_REPO="$REPO" SELFTEST_OUT="$ST" ./selftest.sh "$RE" > "$ST.log" 2>&1; src=$?
tail -1 "$ST.log"
if [ $src -ne 0 ]; then
  grep -E "^(survived|error)" "$ST.log" >&2
  rm -f "$ST.log"
  echo "CHECKER-FAILURE: the checker's mutation self-test failed for the rules of $ID (see above); no verdict" >&2
  exit 2
fi
rm -f "$ST.log"
bin/cloverlint -property "$ID" -tier thorough -repo "$REPO" -verif "$(pwd)" -selftest-json "$ST"
exit $?   # (no exec: the trap removes the scratch file)
