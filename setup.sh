#!/bin/sh
# Builds the analyser from files on disk only (offline).
set -e
cd "$(dirname "$0")"
export GOFLAGS=-mod=mod GOPROXY=off GOSUMDB=off GOTOOLCHAIN=local GOWORK=off
mkdir -p bin evidence
(cd checker && go build -o ../bin/cloverlint .)
echo "built bin/cloverlint"
