#!/bin/sh
# selftest.sh [rule-regexp]: mutation self-test of the checker.
# Each mutant diff is applied to a scratch copy of the CURRENT /repo tree (outside /repo and /verif), the copy
# must still build, the named rule is run on it and must report the expected obligation; the copy is removed.
# Exit 0: every applicable mutant was reported.  Exit 2: a mutant survived (checker failure, not a clover violation).
cd "$(dirname "$0")" || exit 2
export GOFLAGS=-mod=mod GOPROXY=off GOSUMDB=off GOTOOLCHAIN=local GOWORK=off
REPO="${CLOVER_REPO:-/repo}"
FILTER="${1:-.}"
OUTJSON="${SELFTEST_OUT:-}"
TMPBASE=$(mktemp -d "${TMPDIR:-/tmp}/cloverlint-selftest.XXXXXX") || exit 2
trap 'rm -rf "$TMPBASE"' EXIT
[ -x bin/cloverlint ] || ./setup.sh >/dev/null || exit 2
python3 - "$REPO" "$FILTER" "$TMPBASE" "$OUTJSON" <<'PY'
import json, os, re, shutil, subprocess, sys, concurrent.futures as cf
repo, flt, tmp, outjson = sys.argv[1:5]
here = os.getcwd()
muts = json.load(open('selftest/mutants/MUTANTS.json'))
muts = [m for m in muts if re.search(flt, m['rule']) or re.search(flt, m['name'])]
def run(m):
    d = os.path.join(tmp, m['name'])
    try:
        shutil.copytree(repo, d, ignore=shutil.ignore_patterns('.git', '*.db'))
        diff = os.path.join(here, 'selftest', 'mutants', m['name'] + '.diff')
        args = ['patch', '-p1', '-s', '-f', '--no-backup-if-mismatch', '-i', diff]
        if m.get('reverse'):
            args.insert(1, '-R')
        p = subprocess.run(args, cwd=d, capture_output=True, text=True)
        if p.returncode != 0:
            return (m, 'skipped', 'diff does not apply to the current tree')
        b = subprocess.run(['go', 'build', './...'], cwd=d, capture_output=True, text=True)
        if b.returncode != 0:
            return (m, 'skipped', 'mutant does not build: ' + b.stderr.strip().splitlines()[-1][:120] if b.stderr.strip() else 'mutant does not build')
        r = subprocess.run([os.path.join(here, 'bin', 'cloverlint'), '-rules', m['rule'], '-repo', d, '-verif', here], capture_output=True, text=True)
        if r.returncode == 2:
            return (m, 'error', (r.stderr.strip().splitlines() or ['?'])[-1][:200])
        hit = [l for l in r.stdout.splitlines() if re.match(r'\s+(violated|undecided)\s', l) and m['expect'] in l]
        if hit and m.get('full_property'):
            # a known finding on another construct of the same rule must not suppress this one
            f = subprocess.run([os.path.join(here, 'bin', 'cloverlint'), '-property', m['full_property'], '-tier', 'quick', '-repo', d, '-verif', here, '-no-evidence'], capture_output=True, text=True)
            if f.returncode != 1 or ('VIOLATION property=' + m['full_property']) not in f.stdout or m['expect'] not in f.stdout:
                return (m, 'survived', 'rule reports it, but the property check printed no VIOLATION line for it (exit %d)' % f.returncode)
            if 'KNOWN-FINDING: property=' + m['full_property'] not in f.stdout:
                return (m, 'survived', 'the known finding is no longer reported next to the new violation')
        if hit:
            return (m, 'killed', hit[0].split()[1][:120])
        anyv = [l for l in r.stdout.splitlines() if re.match(r'\s+(violated|undecided)\s', l)]
        return (m, 'survived', 'rule reported: ' + (anyv[0].split()[1] if anyv else 'nothing'))
    finally:
        shutil.rmtree(d, ignore_errors=True)
res = []
with cf.ThreadPoolExecutor(max_workers=8) as ex:
    for m, st, msg in ex.map(run, muts):
        res.append({'mutant': m['name'], 'rule': m['rule'], 'status': st, 'detail': msg})
        print('%-9s %-45s %-7s %s' % (st, m['name'], m['rule'], msg))
n = {k: sum(1 for r in res if r['status'] == k) for k in ('killed', 'survived', 'skipped', 'error')}
print('SELFTEST mutants=%d killed=%d survived=%d skipped=%d error=%d' % (len(res), n['killed'], n['survived'], n['skipped'], n['error']))
if outjson:
    json.dump({'summary': n, 'results': res}, open(outjson, 'w'), indent=1)
sys.exit(2 if n['survived'] or n['error'] else 0)
PY
