// place in: document
package document_test

import (
	"encoding/json"
	"os"
	"os/exec"
	"reflect"
	"runtime/debug"
	"strings"
	"testing"

	d "github.com/ostafen/clover/v2/document"
)

// auditJSONRoundTrip is the reference the audited commits appeal to ("the rule of Go and
// encoding/json"): a struct which goes through encoding/json and back.
func auditJSONRoundTrip(t *testing.T, in interface{}, out interface{}) {
	t.Helper()
	b, err := json.Marshal(in)
	if err != nil {
		t.Fatal(err)
	}
	if err := json.Unmarshal(b, out); err != nil {
		t.Fatal(err)
	}
}

// auditCloverRoundTrip converts a struct to a document and unmarshals the document back.
func auditCloverRoundTrip(t *testing.T, in interface{}, out interface{}) *d.Document {
	t.Helper()
	doc := d.NewDocumentOf(in)
	if doc == nil {
		t.Fatal("NewDocumentOf returned nil")
	}
	if err := doc.Unmarshal(out); err != nil {
		t.Fatalf("Unmarshal: %v", err)
	}
	return doc
}

// ---------------------------------------------------------------------------------------------
// 3a9a517, finding 1: two fields at the SAME depth compete for a name. encoding/json gives the
// name to the field which carries it in a tag. Both walks of 3a9a517 now give it to the field
// visited first (before the commit: to the one visited last), so that the value of the untagged
// field is stored, and Unmarshal hands it to the tagged field.
// ---------------------------------------------------------------------------------------------

type AuditTieOwn struct {
	X    string
	Name string `json:"X" clover:"X"`
}

func TestAuditEqualDepthTaggedFieldGetsValueOfOtherField(t *testing.T) {
	in := AuditTieOwn{X: "value-of-X", Name: "value-of-Name"}

	var got, want AuditTieOwn
	doc := auditCloverRoundTrip(t, in, &got)
	auditJSONRoundTrip(t, in, &want) // {X:"" Name:"value-of-Name"}

	if got.Name == in.X {
		t.Errorf("the value of field X came back in field Name: document %v, Unmarshal returned %+v (encoding/json: %+v; before 3a9a517: %+v)",
			doc.ToMap(), got, want, want)
	}
	if !reflect.DeepEqual(got, want) {
		t.Errorf("round trip through the document %+v, through encoding/json %+v", got, want)
	}
}

type AuditTieA struct{ ID string }
type AuditTieB struct {
	Key string `json:"ID"`
}
type AuditTieEmbedded struct {
	AuditTieA
	AuditTieB
}

func TestAuditEqualDepthPromotedTaggedFieldGetsValueOfOtherField(t *testing.T) {
	in := AuditTieEmbedded{AuditTieA{ID: "value-of-A.ID"}, AuditTieB{Key: "value-of-B.Key"}}

	var got, want AuditTieEmbedded
	doc := auditCloverRoundTrip(t, in, &got)
	auditJSONRoundTrip(t, in, &want) // B.Key keeps its value, A.ID is hidden

	// the document holds both values ({ID: value-of-A.ID, Key: value-of-B.Key}): nothing was lost when
	// it was built, the rename walk of Unmarshal drops the right one
	if got.Key == in.AuditTieA.ID {
		t.Errorf("the value of A.ID came back in B.Key: document %v, Unmarshal returned %+v (encoding/json and the code before 3a9a517: %+v)",
			doc.ToMap(), got, want)
	}
	if !reflect.DeepEqual(got, want) {
		t.Errorf("round trip through the document %+v, through encoding/json %+v", got, want)
	}
}

// ---------------------------------------------------------------------------------------------
// 3a9a517, finding 2: "a field hides the fields of the same name promoted from a greater depth,
// whether it is stored or omitted". A field promoted through a nil embedded pointer is omitted,
// but it does not take its name: the deeper field is stored under it, and Unmarshal (encoding/json
// gives the name to the smallest depth, allocating the pointer) hands the value to the other field.
// ---------------------------------------------------------------------------------------------

type AuditShallow struct{ ID string }
type AuditDeep struct{ ID string }
type AuditMid struct{ AuditDeep }
type AuditNilShallow struct {
	*AuditShallow
	AuditMid
}

func TestAuditNilEmbeddedPointerDoesNotTakeItsNames(t *testing.T) {
	in := AuditNilShallow{AuditMid: AuditMid{AuditDeep{ID: "deep"}}}

	var got, want AuditNilShallow
	doc := auditCloverRoundTrip(t, in, &got)
	auditJSONRoundTrip(t, in, &want) // {AuditShallow: nil, Deep.ID: ""}: the name ID belongs to depth 1

	if got.AuditShallow != nil && got.AuditShallow.ID == "deep" {
		t.Errorf("the value of AuditMid.AuditDeep.ID (depth 2) came back in AuditShallow.ID (depth 1), which was a nil pointer: document %v, Unmarshal returned Shallow=%+v Deep=%+v",
			doc.ToMap(), got.AuditShallow, got.AuditDeep)
	}
	if !reflect.DeepEqual(got, want) {
		t.Errorf("round trip through the document: Shallow=%+v Deep=%+v; through encoding/json: Shallow=%+v Deep=%+v",
			got.AuditShallow, got.AuditDeep, want.AuditShallow, want.AuditDeep)
	}
}

// ---------------------------------------------------------------------------------------------
// 3a9a517, finding 3: the walk which builds the document records the depths by the names used in
// the document (Go or clover name), the walk of Unmarshal by the names used by encoding/json. A
// promoted field which lost its name in the document to a shallower field, but has another json
// name, is filled by Unmarshal with the value of the field which hid it.
// ---------------------------------------------------------------------------------------------

type AuditBaseCode struct {
	Code string `json:"base_code"`
}
type AuditItem struct {
	AuditBaseCode
	Code string `json:"code"`
}

func TestAuditHiddenPromotedFieldGetsValueOfHidingField(t *testing.T) {
	in := AuditItem{AuditBaseCode{Code: "base"}, "item"}

	var got AuditItem
	doc := auditCloverRoundTrip(t, in, &got)

	// the document is {Code: item}: the field of the struct hides the promoted one. The promoted
	// field may come back empty, or with its own value: never with the value of another field
	if got.AuditBaseCode.Code == "item" {
		t.Errorf("the value of AuditItem.Code (depth 0) came back in AuditBaseCode.Code (depth 1) too: document %v, Unmarshal returned %+v",
			doc.ToMap(), got)
	}
}

type AuditBaseID struct{ ID string }
type AuditDashed struct {
	ID string `json:"-"`
	AuditBaseID
}

func TestAuditFieldIgnoredByJSONLeaksIntoPromotedField(t *testing.T) {
	in := AuditDashed{ID: "own", AuditBaseID: AuditBaseID{ID: "base"}}

	var got AuditDashed
	doc := auditCloverRoundTrip(t, in, &got)

	if got.AuditBaseID.ID == "own" {
		t.Errorf("the value of AuditDashed.ID (depth 0) came back in AuditBaseID.ID (depth 1): document %v, Unmarshal returned %+v",
			doc.ToMap(), got)
	}
}

// ---------------------------------------------------------------------------------------------
// 3a9a517 / 9ba5093 (other): for encoding/json an embedded struct with a json name is a field
// like any other, at the depth of the struct (it is not "promoted"). Both walks treat it as
// flattened: its fields are lost by Unmarshal, and they compete with the fields of the struct.
// ---------------------------------------------------------------------------------------------

type AuditNamedBase struct{ ID string }
type AuditNamedEmbedded struct {
	AuditNamedBase `json:"base"`
}

func TestAuditEmbeddedStructWithJSONNameIsLost(t *testing.T) {
	in := AuditNamedEmbedded{AuditNamedBase{ID: "base"}}

	var got, want AuditNamedEmbedded
	doc := auditCloverRoundTrip(t, in, &got)
	auditJSONRoundTrip(t, in, &want)

	if !reflect.DeepEqual(got, want) {
		t.Errorf("document %v: Unmarshal returned %+v, a round trip through encoding/json %+v", doc.ToMap(), got, want)
	}
}

// ---------------------------------------------------------------------------------------------
// 43cacb0 (sibling walk): the type which embeds itself through a pointer still kills the process
// with a stack overflow on the way in, when a value points to itself. encoding/json handles this
// value too ({"Name":"root"}: it never enters a type again while it follows embedded fields). The
// stack overflow cannot be recovered: it is provoked in a child process.
// ---------------------------------------------------------------------------------------------

type AuditCategory struct {
	*AuditCategory
	Name string
}

func TestAuditSelfEmbeddingValueOverflowsTheStack(t *testing.T) {
	if os.Getenv("AUDIT_SELF_EMBEDDING_CHILD") == "1" {
		debug.SetMaxStack(32 << 20) // fail fast
		category := &AuditCategory{Name: "root"}
		category.AuditCategory = category
		if b, err := json.Marshal(category); err != nil || string(b) != `{"Name":"root"}` {
			t.Fatalf("encoding/json is expected to handle the value: %s, %v", b, err)
		}
		doc := d.NewDocumentOf(category) // expected: {Name: root}, and in any case not the death of the process
		t.Logf("document: %v", doc)
		return
	}

	cmd := exec.Command(os.Args[0], "-test.run=^TestAuditSelfEmbeddingValueOverflowsTheStack$", "-test.v")
	cmd.Env = append(os.Environ(), "AUDIT_SELF_EMBEDDING_CHILD=1")
	out, err := cmd.CombinedOutput()
	if err != nil {
		lines := strings.Split(string(out), "\n")
		if len(lines) > 4 {
			lines = lines[:4]
		}
		t.Fatalf("NewDocumentOf of a value of type struct{ *AuditCategory; Name string } which points to itself killed the process: %v\n%s",
			err, strings.Join(lines, "\n"))
	}
}
