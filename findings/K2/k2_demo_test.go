// place in: document
package document

// Demonstration of known finding K2 (property C18) against the real code: fails on the current tree.

import (
	"math"
	"reflect"
	"testing"
)

type huntFloat struct {
	F float64
}

func TestHuntRoundTripInfinity(t *testing.T) {
	in := &huntFloat{F: math.Inf(1)}
	doc := NewDocumentOf(in)
	if got := doc.Get("F"); got != math.Inf(1) {
		t.Fatalf("F = %#v", got)
	}
	out := &huntFloat{}
	if err := doc.Unmarshal(out); err != nil {
		t.Fatalf("Unmarshal of a document made from %+v failed: %v", in, err)
	}
	if !reflect.DeepEqual(in, out) {
		t.Fatalf("round trip changed the struct: in=%+v out=%+v", in, out)
	}
}
