// place in: .
package clover_test

import (
	"fmt"
	"os"
	"testing"
	"time"

	clover "github.com/ostafen/clover/v2"
	"github.com/ostafen/clover/v2/document"
	"github.com/ostafen/clover/v2/query"
	"github.com/ostafen/clover/v2/store"
	auditbadger "github.com/ostafen/clover/v2/store/badger"
	auditbbolt "github.com/ostafen/clover/v2/store/bbolt"
)

// commit ec74b62: before it, clover.Open("") opened (and created) data.db in the current
// directory, as bbolt.Open(filepath.Join("", "data.db")) does; "." still works. Since the
// commit the empty path fails in os.MkdirAll("") with "mkdir : no such file or directory".
func TestAuditOpenEmptyPathStillOpensCurrentDirectory(t *testing.T) {
	dir, err := os.MkdirTemp("", "audit-open")
	if err != nil {
		t.Fatal(err)
	}
	defer os.RemoveAll(dir)

	wd, err := os.Getwd()
	if err != nil {
		t.Fatal(err)
	}
	if err := os.Chdir(dir); err != nil {
		t.Fatal(err)
	}
	defer os.Chdir(wd)

	// the equivalent spelling of the same directory is accepted
	db, err := clover.Open(".")
	if err != nil {
		t.Fatalf("Open(\".\"): %v", err)
	}
	if err := db.CreateCollection("c"); err != nil {
		t.Fatal(err)
	}
	if err := db.Close(); err != nil {
		t.Fatal(err)
	}

	db, err = clover.Open("")
	if err != nil {
		t.Fatalf("Open(\"\") used to open data.db of the current directory, now: %v", err)
	}
	defer db.Close()

	has, err := db.HasCollection("c")
	if err != nil || !has {
		t.Fatalf("the database of the current directory was not opened: has=%v err=%v", has, err)
	}
}

type auditFactory struct {
	name string
	open func(dir string) (store.Store, error)
}

func auditFactories() []auditFactory {
	return []auditFactory{{"bbolt", auditbbolt.Open}, {"badger", auditbadger.Open}}
}

// not caused by one of the audited commits (found while checking b392ce1/e26c747, indexed
// against un-indexed): the index key of a time is uint64(UnixNano()), so that an instant
// before 1970 (also the zero time.Time) gets a key after every later instant.
func TestAuditIndexedTimeBefore1970(t *testing.T) {
	for _, f := range auditFactories() {
		t.Run(f.name, func(t *testing.T) {
			dir, err := os.MkdirTemp("", "audit-time")
			if err != nil {
				t.Fatal(err)
			}
			defer os.RemoveAll(dir)

			s, err := f.open(dir)
			if err != nil {
				t.Fatal(err)
			}
			db, _ := clover.OpenWithStore(s)
			defer db.Close()

			for _, coll := range []string{"plain", "indexed"} {
				if err := db.CreateCollection(coll); err != nil {
					t.Fatal(err)
				}
				for _, year := range []int{1960, 1980, 2000} {
					doc := document.NewDocument()
					doc.Set("year", year)
					doc.Set("t", time.Date(year, 1, 1, 0, 0, 0, 0, time.UTC))
					if err := db.Insert(coll, doc); err != nil {
						t.Fatal(err)
					}
				}
			}
			if err := db.CreateIndex("indexed", "t"); err != nil {
				t.Fatal(err)
			}

			years := func(q *query.Query) string {
				docs, err := db.FindAll(q)
				if err != nil {
					t.Fatal(err)
				}
				res := ""
				for _, doc := range docs {
					res += fmt.Sprint(doc.Get("year"), " ")
				}
				return res
			}

			epoch := time.Date(1970, 1, 1, 0, 0, 0, 0, time.UTC)
			for _, dir := range []int{1, -1} {
				opt := query.SortOption{Field: "t", Direction: dir}

				plain := years(query.NewQuery("plain").Sort(opt))
				indexed := years(query.NewQuery("indexed").Sort(opt))
				if plain != indexed {
					t.Errorf("sort by t, direction %d: without index %q, with index %q", dir, plain, indexed)
				}

				plain = years(query.NewQuery("plain").Where(query.Field("t").Lt(epoch)).Sort(opt))
				indexed = years(query.NewQuery("indexed").Where(query.Field("t").Lt(epoch)).Sort(opt))
				if plain != indexed {
					t.Errorf("t < 1970, direction %d: without index %q, with index %q", dir, plain, indexed)
				}
			}
		})
	}
}

// commit 087725b ("byte arrays and named byte-slice types are normalised like other
// containers"): every other container is rebuilt by the normalisation, so that the document
// shares nothing with the value handed to Set; a slice of bytes (plain or of a named type) is
// stored as reflect.Value.Bytes(), which is the caller's own backing array.
func TestAuditSetByteSliceSharesNothingWithTheCaller(t *testing.T) {
	type blob []byte

	ints := []int{1, 2}
	plain := []byte{1, 2}
	named := blob{1, 2}

	doc := document.NewDocument()
	doc.Set("ints", ints)
	doc.Set("plain", plain)
	doc.Set("named", named)

	// the caller reuses its buffers
	ints[0], plain[0], named[0] = 9, 9, 9

	if got := fmt.Sprint(doc.Get("ints")); got != "[1 2]" {
		t.Errorf("ints: %s", got)
	}
	if got := fmt.Sprint(doc.Get("plain")); got != "[1 2]" {
		t.Errorf("a []byte field changed with the caller's buffer: %s, want [1 2] (a []int field stays %v)", got, doc.Get("ints"))
	}
	if got := fmt.Sprint(doc.Get("named")); got != "[1 2]" {
		t.Errorf("a named byte-slice field changed with the caller's buffer: %s, want [1 2]", got)
	}
}
