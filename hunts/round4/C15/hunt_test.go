// place in: .
package clover_test

// Hunt for property C15: "The same sequence of operations produces the same observable
// results - returned documents and their order, counts, catalog, and errors (the same sentinel
// error, or an error in both) - on the bbolt backend and on the badger backend (on disk and in
// memory)."
//
// Every test runs one short history on three twin handles (bbolt, badger on disk, badger in
// memory) and requires each step to fail on all of them or on none.

import (
	"fmt"
	"strings"
	"testing"

	badger "github.com/dgraph-io/badger/v4"
	c "github.com/ostafen/clover/v2"
	d "github.com/ostafen/clover/v2/document"
	q "github.com/ostafen/clover/v2/query"
	badgerstore "github.com/ostafen/clover/v2/store/badger"
	"github.com/ostafen/clover/v2/store/bbolt"
)

type huntBackend struct {
	name string
	db   *c.DB
}

func huntOpenAll(t *testing.T) []huntBackend {
	boltStore, err := bbolt.Open(t.TempDir())
	if err != nil {
		t.Fatal(err)
	}
	diskStore, err := badgerstore.OpenWithOptions(badger.DefaultOptions(t.TempDir()).WithLoggingLevel(badger.ERROR))
	if err != nil {
		t.Fatal(err)
	}
	// as in examples/custom-store
	memStore, err := badgerstore.OpenWithOptions(badger.DefaultOptions("").WithInMemory(true).WithLoggingLevel(badger.ERROR))
	if err != nil {
		t.Fatal(err)
	}

	boltDB, _ := c.OpenWithStore(boltStore)
	diskDB, _ := c.OpenWithStore(diskStore)
	memDB, _ := c.OpenWithStore(memStore)

	backends := []huntBackend{{"bbolt", boltDB}, {"badger-disk", diskDB}, {"badger-memory", memDB}}
	t.Cleanup(func() {
		for _, b := range backends {
			b.db.Close()
		}
	})
	return backends
}

// huntSameOutcome runs step on every backend and fails unless it returns an error on all of them or on none
func huntSameOutcome(t *testing.T, backends []huntBackend, what string, step func(db *c.DB) error) {
	t.Helper()

	outcomes := make([]string, 0)
	failed := 0
	for _, b := range backends {
		err := step(b.db)
		if err != nil {
			failed++
		}
		outcomes = append(outcomes, fmt.Sprintf("%s: %s", b.name, huntErrText(err)))
	}
	if failed != 0 && failed != len(backends) {
		t.Fatalf("%s: the backends disagree:\n  %s", what, strings.Join(outcomes, "\n  "))
	}
}

// huntErrText returns the first line of the message of err, shortened (badger dumps the refused value)
func huntErrText(err error) string {
	if err == nil {
		return "<nil>"
	}
	text := strings.SplitN(err.Error(), "\n", 2)[0]
	if len(text) > 80 {
		text = text[:80] + "..."
	}
	return text
}

func huntId(n int) string {
	return fmt.Sprintf("00000000-0000-4000-8000-%012d", n)
}

// A 40000 bytes string stored in an indexed field: the key of the index entry is longer than
// the 32768 bytes bbolt accepts, but shorter than the 65000 bytes badger accepts.
func TestHuntLongIndexedStringBoltOnlyFails(t *testing.T) {
	backends := huntOpenAll(t)

	huntSameOutcome(t, backends, "CreateCollection", func(db *c.DB) error { return db.CreateCollection("c") })
	huntSameOutcome(t, backends, "CreateIndex", func(db *c.DB) error { return db.CreateIndex("c", "text") })
	huntSameOutcome(t, backends, "Insert of a 40000 bytes indexed string", func(db *c.DB) error {
		doc := d.NewDocument()
		doc.Set("_id", huntId(1))
		doc.Set("text", strings.Repeat("x", 40000))
		return db.Insert("c", doc)
	})
}

// A document of 2 MB: the in-memory badger store refuses every value above 1 MB (its value
// threshold), bbolt and badger on disk store it.
func TestHuntTwoMegabytesDocumentMemoryOnlyFails(t *testing.T) {
	backends := huntOpenAll(t)

	huntSameOutcome(t, backends, "CreateCollection", func(db *c.DB) error { return db.CreateCollection("c") })
	huntSameOutcome(t, backends, "Insert of a 2 MB document", func(db *c.DB) error {
		doc := d.NewDocument()
		doc.Set("_id", huntId(1))
		doc.Set("text", strings.Repeat("x", 2<<20))
		return db.Insert("c", doc)
	})
}

// Twelve documents of 1 MB each in one Insert call: a badger transaction is limited to about
// 10 MB (15% of the memtable size), a bbolt one is not.
func TestHuntTwelveMegabytesInsertBadgerOnlyFails(t *testing.T) {
	backends := huntOpenAll(t)

	huntSameOutcome(t, backends, "CreateCollection", func(db *c.DB) error { return db.CreateCollection("c") })
	huntSameOutcome(t, backends, "Insert of 12 documents of 1 MB", func(db *c.DB) error {
		docs := make([]*d.Document, 0)
		for i := 0; i < 12; i++ {
			doc := d.NewDocument()
			doc.Set("_id", huntId(i))
			doc.Set("text", strings.Repeat("x", 1000000))
			docs = append(docs, doc)
		}
		return db.Insert("c", docs...)
	})
}

// 36000 small documents with two indexes, inserted 6000 at a time (which every backend accepts):
// dropping the collection takes three deletions per document inside one transaction, more
// entries than a badger transaction may hold, so that the collection can be dropped on bbolt only.
func TestHuntDropOfLargeCollectionBadgerOnlyFails(t *testing.T) {
	backends := huntOpenAll(t)

	huntSameOutcome(t, backends, "CreateCollection", func(db *c.DB) error { return db.CreateCollection("c") })
	huntSameOutcome(t, backends, "CreateIndex a", func(db *c.DB) error { return db.CreateIndex("c", "a") })
	huntSameOutcome(t, backends, "CreateIndex b", func(db *c.DB) error { return db.CreateIndex("c", "b") })

	for base := 0; base < 36000; base += 6000 {
		huntSameOutcome(t, backends, "Insert of 6000 documents", func(db *c.DB) error {
			docs := make([]*d.Document, 0)
			for i := base; i < base+6000; i++ {
				doc := d.NewDocument()
				doc.Set("_id", huntId(i))
				doc.Set("a", i)
				doc.Set("b", -i)
				docs = append(docs, doc)
			}
			return db.Insert("c", docs...)
		})
	}

	huntSameOutcome(t, backends, "Count", func(db *c.DB) error {
		n, err := db.Count(q.NewQuery("c"))
		if err == nil && n != 36000 {
			return fmt.Errorf("%d documents", n)
		}
		return err
	})
	huntSameOutcome(t, backends, "DropCollection of 36000 documents with two indexes", func(db *c.DB) error {
		return db.DropCollection("c")
	})
}

// Two handles opened with OpenWithStore on one store, both closed: the second Close returns nil
// on bbolt and panics (send on closed channel) on badger.
func TestHuntCloseOfTwoHandlesOnOneStorePanicsOnBadgerOnly(t *testing.T) {
	boltStore, err := bbolt.Open(t.TempDir())
	if err != nil {
		t.Fatal(err)
	}
	memStore, err := badgerstore.OpenWithOptions(badger.DefaultOptions("").WithInMemory(true).WithLoggingLevel(badger.ERROR))
	if err != nil {
		t.Fatal(err)
	}

	closeBoth := func(first, second *c.DB) (outcome string) {
		defer func() {
			if r := recover(); r != nil {
				outcome = fmt.Sprint("panic: ", r)
			}
		}()
		if err := first.Close(); err != nil {
			return "first Close: " + err.Error()
		}
		return fmt.Sprint("second Close: ", second.Close())
	}

	bolt1, _ := c.OpenWithStore(boltStore)
	bolt2, _ := c.OpenWithStore(boltStore)
	badger1, _ := c.OpenWithStore(memStore)
	badger2, _ := c.OpenWithStore(memStore)

	onBolt, onBadger := closeBoth(bolt1, bolt2), closeBoth(badger1, badger2)
	if onBolt != onBadger {
		t.Fatalf("the backends disagree:\n  bbolt: %s\n  badger-memory: %s", onBolt, onBadger)
	}
}
