// place in: .
package clover_test

// Hunt round 4, property C06 ("Documents, index entries and counts stay consistent; drops
// leave no residue"). Every test fails on the unmodified code.
//
// All the tests below come from one family: the stored keys are built by pasting names
// together with ';' and ':' as separators ("c:<collection>;d:<id>", "c:<collection>;i:<field>;t:<type>;v:..."),
// but neither a collection name nor an index field name is escaped or refused when it
// contains the separator itself. The key spaces of two collections, or of two indexes, can
// therefore be nested one inside the other.

import (
	"os"
	"testing"

	"github.com/stretchr/testify/require"

	c "github.com/ostafen/clover/v2"
	d "github.com/ostafen/clover/v2/document"
	q "github.com/ostafen/clover/v2/query"
	badgerstore "github.com/ostafen/clover/v2/store/badger"
	"github.com/ostafen/clover/v2/store/bbolt"
)

func huntRun(t *testing.T, test func(t *testing.T, db *c.DB)) {
	backends := []struct {
		name string
		open func(dir string) (*c.DB, error)
	}{
		{"bbolt", func(dir string) (*c.DB, error) {
			st, err := bbolt.Open(dir)
			if err != nil {
				return nil, err
			}
			return c.OpenWithStore(st)
		}},
		{"badger", func(dir string) (*c.DB, error) {
			st, err := badgerstore.Open(dir)
			if err != nil {
				return nil, err
			}
			return c.OpenWithStore(st)
		}},
	}

	for _, backend := range backends {
		backend := backend
		t.Run(backend.name, func(t *testing.T) {
			dir, err := os.MkdirTemp("", "hunt4-C06")
			require.NoError(t, err)
			defer os.RemoveAll(dir)

			db, err := backend.open(dir)
			require.NoError(t, err)
			defer db.Close()

			test(t, db)
		})
	}
}

func huntInsert(t *testing.T, db *c.DB, collection string, n int, fields ...string) {
	for i := 0; i < n; i++ {
		doc := d.NewDocument()
		for _, field := range fields {
			doc.Set(field, i)
		}
		require.NoError(t, db.Insert(collection, doc))
	}
}

// Sentence: "every index holds exactly one entry per document of its collection, under that
// document's current field value, and nothing else" (quantifier: "indexes on fields whose names
// are prefixes of other indexed fields"; observed through "queries through each index vs full scans").
//
// "a" is a prefix of "a;b". The entries of the index on "a;b" live under "c:c;i:a;b;", which
// lies inside the key space "c:c;i:a;" of the index on "a": a scan of the index on "a" meets
// the entries of both indexes, and each document is returned twice.
func TestHuntIndexOnPrefixFieldHoldsEntriesOfSiblingIndex(t *testing.T) {
	huntRun(t, func(t *testing.T, db *c.DB) {
		require.NoError(t, db.CreateCollection("c"))
		require.NoError(t, db.CreateIndex("c", "a"))
		require.NoError(t, db.CreateIndex("c", "a;b"))
		huntInsert(t, db, "c", 3, "a", "a;b")

		scan, err := db.FindAll(q.NewQuery("c"))
		require.NoError(t, err)
		require.Len(t, scan, 3)

		// served by the index on "a"
		sorted, err := db.FindAll(q.NewQuery("c").Sort(q.SortOption{Field: "a", Direction: 1}))
		require.NoError(t, err)
		require.Len(t, sorted, 3, "the index on \"a\" yields more than one entry per document")
	})
}

// Sentence: "the document count used by Count equals the number of stored documents".
//
// Same layout as above: a bulk delete driven by the index on "a" meets each document twice,
// and subtracts it twice from the counter of the collection. The counter is then wrong
// for every later history (here: two documents stored, Count says 0).
func TestHuntCountDriftsAfterDeleteThroughPrefixFieldIndex(t *testing.T) {
	huntRun(t, func(t *testing.T, db *c.DB) {
		require.NoError(t, db.CreateCollection("c"))
		require.NoError(t, db.CreateIndex("c", "a"))
		require.NoError(t, db.CreateIndex("c", "a;b"))
		huntInsert(t, db, "c", 3, "a", "a;b")

		require.NoError(t, db.Delete(q.NewQuery("c").Sort(q.SortOption{Field: "a", Direction: 1})))
		huntInsert(t, db, "c", 2, "a", "a;b")

		stored, err := db.FindAll(q.NewQuery("c"))
		require.NoError(t, err)
		require.Len(t, stored, 2)

		n, err := db.Count(q.NewQuery("c"))
		require.NoError(t, err)
		require.Equal(t, len(stored), n, "Count differs from the number of stored documents")
	})
}

// Sentence: "Dropping an index ... never disturbs any other collection or index"
// (quantifier: "indexes on fields whose names are prefixes of other indexed fields").
//
// DropIndex("c", "a") deletes by prefix scan every key starting with "c:c;i:a;", which
// includes all the entries of the index on "a;b": that index is still listed, but empty.
func TestHuntDropIndexEmptiesSiblingIndexOnLongerName(t *testing.T) {
	huntRun(t, func(t *testing.T, db *c.DB) {
		require.NoError(t, db.CreateCollection("c"))
		require.NoError(t, db.CreateIndex("c", "a"))
		require.NoError(t, db.CreateIndex("c", "a;b"))
		huntInsert(t, db, "c", 3, "a", "a;b")

		require.NoError(t, db.DropIndex("c", "a"))

		has, err := db.HasIndex("c", "a;b")
		require.NoError(t, err)
		require.True(t, has)

		// served by the index on "a;b"
		sorted, err := db.FindAll(q.NewQuery("c").Sort(q.SortOption{Field: "a;b", Direction: 1}))
		require.NoError(t, err)
		require.Len(t, sorted, 3, "the index on \"a;b\" lost its entries when the index on \"a\" was dropped")
	})
}

// Sentence: "Dropping an index or a collection ... never disturbs any other collection or index".
//
// The documents of the collection "c;i:x" are stored under "c:c;i:x;d:<id>", inside the key
// space "c:c;i:x;" of the index on "x" of the collection "c": dropping that index deletes
// every document of the other collection (whose counter still says 3).
func TestHuntDropIndexDeletesDocumentsOfAnotherCollection(t *testing.T) {
	huntRun(t, func(t *testing.T, db *c.DB) {
		require.NoError(t, db.CreateCollection("c"))
		require.NoError(t, db.CreateCollection("c;i:x"))
		require.NoError(t, db.CreateIndex("c", "x"))
		huntInsert(t, db, "c", 3, "x")
		huntInsert(t, db, "c;i:x", 3, "x")

		require.NoError(t, db.DropIndex("c", "x"))

		n, err := db.Count(q.NewQuery("c;i:x"))
		require.NoError(t, err)
		require.Equal(t, 3, n)

		stored, err := db.FindAll(q.NewQuery("c;i:x"))
		require.NoError(t, err)
		require.Len(t, stored, 3, "the documents of \"c;i:x\" were deleted by DropIndex(\"c\", \"x\")")
	})
}

// Sentences: "the document count used by Count equals the number of stored documents" and
// "re-creating the same name yields an empty collection".
//
// The documents of the collection "c;d:" are stored under "c:c;d:;d:<id>", inside the document
// key space "c:c;d:" of the collection "c": they are listed as documents of "c" too, they survive
// DropCollection("c"), and they are there again when "c" is created anew.
func TestHuntRecreatedCollectionIsNotEmpty(t *testing.T) {
	huntRun(t, func(t *testing.T, db *c.DB) {
		require.NoError(t, db.CreateCollection("c"))
		require.NoError(t, db.CreateCollection("c;d:"))
		huntInsert(t, db, "c", 2, "x")
		huntInsert(t, db, "c;d:", 3, "x")

		require.NoError(t, db.DropCollection("c"))
		require.NoError(t, db.CreateCollection("c"))

		n, err := db.Count(q.NewQuery("c"))
		require.NoError(t, err)
		require.Equal(t, 0, n)

		stored, err := db.FindAll(q.NewQuery("c"))
		require.NoError(t, err)
		require.Empty(t, stored, "a collection which has just been re-created holds documents")
	})
}
