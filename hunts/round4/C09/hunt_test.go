// place in: .
package clover_test

import (
	"os"
	"testing"

	"github.com/stretchr/testify/require"

	c "github.com/ostafen/clover/v2"
	d "github.com/ostafen/clover/v2/document"
	q "github.com/ostafen/clover/v2/query"
)

// huntC09Run runs the test on a fresh bbolt database (clover.Open) and on a fresh badger one.
func huntC09Run(t *testing.T, test func(t *testing.T, db *c.DB)) {
	for _, createDB := range []dbFactory{getBBoltDB, getBadgerDB} {
		dir, err := os.MkdirTemp("", "hunt4-C09")
		require.NoError(t, err)
		defer os.RemoveAll(dir)

		db, err := createDB(dir)
		require.NoError(t, err)
		test(t, db)
		require.NoError(t, db.Close())
	}
}

// Property C09, first sentence: "Count(q) equals the length of FindAll(q)" (and "Exists(q) holds
// iff that length is positive"; "FindFirst(q) is the first element of FindAll(q) or nil").
//
// History: two collections "a" and "a;d:b" are created, one document is inserted into "a;d:b".
// Collection "a" has never received a document: Count answers 0 from the stored counter, but the
// scan of the keys starting with "c:a;d:" also meets the document of "a;d:b" (key "c:a;d:b;d:<id>"),
// so FindAll, Exists, FindFirst and ForEach report one document.
func TestHuntC09CountVsFindAllCollectionNamePrefix(t *testing.T) {
	huntC09Run(t, func(t *testing.T, db *c.DB) {
		require.NoError(t, db.CreateCollection("a"))
		require.NoError(t, db.CreateCollection("a;d:b"))

		doc := d.NewDocument()
		doc.Set("x", 1)
		require.NoError(t, db.Insert("a;d:b", doc))

		query := q.NewQuery("a")

		all, err := db.FindAll(query)
		require.NoError(t, err)

		n, err := db.Count(query)
		require.NoError(t, err)

		require.Equal(t, len(all), n, "Count(q) must be equal to len(FindAll(q))")
	})
}

// Property C09, first sentence: "Count(q) equals the length of FindAll(q)".
//
// History: collection "a" gets an index on the field "f" and one on the field "f;g", then ONE
// document. The query has no criteria and sorts by "f": Count answers 1 (stored counter), while
// FindAll walks the entries of the index on "f" by the key prefix "c:a;i:f;", which is also a
// prefix of the entries of the index on "f;g" ("c:a;i:f;g;..."): the document is returned twice
// (and ForEach visits it twice).
func TestHuntC09CountVsFindAllIndexFieldNamePrefix(t *testing.T) {
	huntC09Run(t, func(t *testing.T, db *c.DB) {
		require.NoError(t, db.CreateCollection("a"))
		require.NoError(t, db.CreateIndex("a", "f"))
		require.NoError(t, db.CreateIndex("a", "f;g"))

		doc := d.NewDocument()
		doc.Set("f", 1)
		require.NoError(t, db.Insert("a", doc))

		query := q.NewQuery("a").Sort(q.SortOption{Field: "f", Direction: 1})

		all, err := db.FindAll(query)
		require.NoError(t, err)

		n, err := db.Count(query)
		require.NoError(t, err)

		require.Equal(t, len(all), n, "Count(q) must be equal to len(FindAll(q))")
	})
}
