// place in: .
package clover_test

import (
	"os"
	"testing"

	"github.com/stretchr/testify/require"

	c "github.com/ostafen/clover/v2"
	d "github.com/ostafen/clover/v2/document"
	q "github.com/ostafen/clover/v2/query"
)

func huntRun(t *testing.T, test func(t *testing.T, db *c.DB)) {
	backends := []struct {
		name string
		open dbFactory
	}{{"badger", getBadgerDB}, {"bbolt", getBBoltDB}}

	for _, backend := range backends {
		backend := backend
		t.Run(backend.name, func(t *testing.T) {
			dir, err := os.MkdirTemp("", "hunt4-C12")
			require.NoError(t, err)
			defer os.RemoveAll(dir)

			db, err := backend.open(dir)
			require.NoError(t, err)
			defer db.Close()

			test(t, db)
		})
	}
}

const huntId = "00000000-0000-4000-8000-000000000001"

func TestHuntUpdateOverwritesDocOfOtherCollection(t *testing.T) {
	huntRun(t, func(t *testing.T, db *c.DB) {
		require.NoError(t, db.CreateCollection("a"))
		require.NoError(t, db.CreateCollection("a;d:b"))

		docA := d.NewDocument()
		docA.Set("_id", huntId)
		docA.Set("owner", "a")
		require.NoError(t, db.Insert("a", docA))

		docB := d.NewDocument()
		docB.Set("_id", huntId)
		docB.Set("owner", "b")
		require.NoError(t, db.Insert("a;d:b", docB))

		// no document of "a" satisfies the criteria
		err := db.Update(q.NewQuery("a").Where(q.Field("owner").Eq("b")), map[string]interface{}{"touched": true})
		require.NoError(t, err)

		got, err := db.FindById("a", huntId)
		require.NoError(t, err)
		require.NotNil(t, got)
		require.Equal(t, "a", got.Get("owner"), "the document of collection a has been overwritten")
		require.False(t, got.Has("touched"))
	})
}

func TestHuntFindByIdReturnsDocWithOtherId(t *testing.T) {
	huntRun(t, func(t *testing.T, db *c.DB) {
		require.NoError(t, db.CreateCollection("a"))
		require.NoError(t, db.CreateCollection("a;d:b"))

		docB := d.NewDocument()
		docB.Set("_id", huntId)
		require.NoError(t, db.Insert("a;d:b", docB))

		id := "b;d:" + huntId
		got, err := db.FindById("a", id)
		require.NoError(t, err)
		if got != nil {
			require.Equal(t, id, got.ObjectId(), "FindById(c, id) returned a document whose _id is not id")
		}
	})
}
