// place in: .
package clover_test

import (
	"os"
	"testing"

	c "github.com/ostafen/clover/v2"
	d "github.com/ostafen/clover/v2/document"
	"github.com/ostafen/clover/v2/query"
	"github.com/stretchr/testify/require"
)

func huntC16Open(t *testing.T) *c.DB {
	dir, err := os.MkdirTemp("", "hunt4-c16")
	require.NoError(t, err)
	db, err := c.Open(dir)
	require.NoError(t, err)
	t.Cleanup(func() {
		db.Close()
		os.RemoveAll(dir)
	})
	return db
}

// Sentence: "Not, And and Or follow their truth tables", observed at "DB.FindAll result sets
// for algebraically equivalent criteria": p and Or(p, p) are the same predicate.
//
// The only document has x = 2^53+1 (an int64, stored and compared exactly). p = x > 2^53 holds
// for it (p.Satisfy says so, and so does FindAll(Or(p, p)), which scans the collection), but
// FindAll(p) answers from the index on x, whose keys are the values rounded to float64:
// 2^53+1 gets the key of 2^53, and the exclusive lower bound skips every entry carrying it.
func TestHuntC16_OrIdempotenceIndexedIntegerBeyond2p53(t *testing.T) {
	db := huntC16Open(t)
	require.NoError(t, db.CreateCollection("c"))
	require.NoError(t, db.CreateIndex("c", "x"))

	doc := d.NewDocument()
	doc.Set("x", int64(1<<53+1))
	require.NoError(t, db.Insert("c", doc))

	p := query.Field("x").Gt(int64(1 << 53))
	require.True(t, p.Satisfy(doc), "2^53+1 > 2^53")

	orDocs, err := db.FindAll(query.NewQuery("c").Where(p.Or(p)))
	require.NoError(t, err)
	require.Len(t, orDocs, 1, "Or(p, p) selects the document")

	pDocs, err := db.FindAll(query.NewQuery("c").Where(p))
	require.NoError(t, err)
	require.Len(t, pDocs, len(orDocs), "p must select what Or(p, p) selects")
}

// Sentence: "In matches iff the field compares equal to one of the listed values".
// A document without the field has no value which compares equal to anything: Eq(nil) does not
// match it (that is why IsNilOrNotExists exists), but In(nil) does, so In(v) is not Eq(v).
func TestHuntC16_InNilMatchesAbsentField(t *testing.T) {
	doc := d.NewDocument()
	doc.Set("other", 1)

	require.False(t, query.Field("x").Exists().Satisfy(doc))
	require.False(t, query.Field("x").Eq(nil).Satisfy(doc), "the absent field does not compare equal to nil")
	require.Equal(t,
		query.Field("x").Eq(nil).Satisfy(doc),
		query.Field("x").In(nil).Satisfy(doc),
		"In(nil) must match iff the field compares equal to nil")
}

// Sentence: "`$name` strings or Field(name) operands are read from the document under test".
// With name = "$a" the operand "$" + name must read the field "$a", as Field("$a") does; every
// leading '$' is stripped instead and the field "a" is read.
func TestHuntC16_DollarNameOfFieldStartingWithDollar(t *testing.T) {
	doc := d.NewDocument()
	doc.Set("$a", 1)
	doc.Set("a", 2)
	doc.Set("one", 1)

	require.True(t, query.Field("one").Eq(query.Field("$a")).Satisfy(doc), "Field(\"$a\") reads the field $a")
	require.True(t, query.Field("one").Eq("$"+"$a").Satisfy(doc), "\"$\"+name must read the field $a too")
}

// Sentence: "A literal yields the same result whatever Go numeric type it was supplied as"
// (quantifier: "all Go numeric kinds for the same number"). uintptr is one of Go's integer
// kinds: the literal uintptr(1) never matches (Satisfy) and makes FindAll fail, while uint(1) matches.
func TestHuntC16_UintptrLiteral(t *testing.T) {
	db := huntC16Open(t)
	require.NoError(t, db.CreateCollection("c"))

	doc := d.NewDocument()
	doc.Set("x", 1)
	require.NoError(t, db.Insert("c", doc))

	require.True(t, query.Field("x").Eq(uint(1)).Satisfy(doc))
	require.True(t, query.Field("x").Eq(uintptr(1)).Satisfy(doc), "uintptr(1) is the number 1")

	docs, err := db.FindAll(query.NewQuery("c").Where(query.Field("x").Eq(uintptr(1))))
	require.NoError(t, err)
	require.Len(t, docs, 1)
}
