// place in: .
package clover_test

import (
	"testing"
	"time"

	c "github.com/ostafen/clover/v2"
	d "github.com/ostafen/clover/v2/document"
	"github.com/ostafen/clover/v2/query"
	"github.com/stretchr/testify/require"
)

// Property C11, last sentence: "Times denote the same instant and zone offset wherever they
// occur, including inside arrays and inside objects nested in arrays" (quantifier: "times with
// arbitrary locations and nanoseconds").
//
// A time whose zone offset is negative and not a whole number of minutes is read back with a
// different zone offset. -4h56m02s is the offset America/New_York has before 1883-11-18 (local
// mean time); a fixed zone is used so that the test does not depend on the tz database.
func TestHuntNegativeSubMinuteZoneOffsetIsAltered(t *testing.T) {
	runCloverTest(t, func(t *testing.T, db *c.DB) {
		require.NoError(t, db.CreateCollection("hunt"))

		const offset = -(4*3600 + 56*60 + 2)
		written := time.Date(1880, 3, 1, 12, 0, 0, 123456789, time.FixedZone("LMT", offset))

		doc := d.NewDocument()
		doc.Set("t", written)
		doc.Set("arr", []interface{}{written, map[string]interface{}{"t": written}})

		id, err := db.InsertOne("hunt", doc)
		require.NoError(t, err)

		check := func(name string, v interface{}) {
			read, isTime := v.(time.Time)
			require.True(t, isTime, "%s: a time.Time is expected, got %T", name, v)

			require.True(t, written.Equal(read), "%s: the instant has changed: written %v, read %v", name, written, read)

			_, readOffset := read.Zone()
			require.Equal(t, offset, readOffset, "%s: the zone offset has changed: written %v, read %v", name, written, read)
		}

		byId, err := db.FindById("hunt", id)
		require.NoError(t, err)
		require.NotNil(t, byId)
		check("FindById t", byId.Get("t"))
		check("FindById arr[0]", byId.Get("arr").([]interface{})[0])
		check("FindById arr[1].t", byId.Get("arr").([]interface{})[1].(map[string]interface{})["t"])

		all, err := db.FindAll(query.NewQuery("hunt"))
		require.NoError(t, err)
		require.Len(t, all, 1)
		check("FindAll t", all[0].Get("t"))
	})
}
