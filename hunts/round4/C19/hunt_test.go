// place in: .
package clover_test

import (
	"os"
	"path/filepath"
	"testing"

	c "github.com/ostafen/clover/v2"
	d "github.com/ostafen/clover/v2/document"
	q "github.com/ostafen/clover/v2/query"
	badgerstore "github.com/ostafen/clover/v2/store/badger"
)

func huntC19Dir(t *testing.T) string {
	dir, err := os.MkdirTemp("", "hunt-c19")
	if err != nil {
		t.Fatal(err)
	}
	t.Cleanup(func() { os.RemoveAll(dir) })
	return dir
}

// C19, first sentence: "Exporting a collection and importing the file under a new name reproduces
// it: the same number of documents, the same _ids ...", for all collections of JSON-representable
// documents, on either store. A collection of 105000 small documents ({"_id", "i"}), filled by 21
// calls of Insert on the badger store, is exported without error, but the file cannot be imported:
// ImportCollection puts the whole collection in one badger transaction.
func TestHuntC19ImportOfLargeCollectionOnBadger(t *testing.T) {
	dir := huntC19Dir(t)

	store, err := badgerstore.Open(filepath.Join(dir, "db"))
	if err != nil {
		t.Fatal(err)
	}
	db, err := c.OpenWithStore(store)
	if err != nil {
		t.Fatal(err)
	}
	defer db.Close()

	if err := db.CreateCollection("src"); err != nil {
		t.Fatal(err)
	}

	const batches, batchSize = 21, 5000
	for i := 0; i < batches; i++ {
		docs := make([]*d.Document, 0, batchSize)
		for j := 0; j < batchSize; j++ {
			doc := d.NewDocument()
			doc.Set("i", i*batchSize+j)
			docs = append(docs, doc)
		}
		if err := db.Insert("src", docs...); err != nil {
			t.Fatal(err)
		}
	}

	path := filepath.Join(dir, "src.json")
	if err := db.ExportCollection("src", path); err != nil {
		t.Fatal(err)
	}

	if err := db.ImportCollection("copy", path); err != nil {
		t.Fatalf("the file exported from a collection of %d documents cannot be imported: %v", batches*batchSize, err)
	}

	n, err := db.Count(q.NewQuery("copy"))
	if err != nil || n != batches*batchSize {
		t.Fatalf("copy: %d documents (%v), expected %d", n, err, batches*batchSize)
	}
}

// C19, first sentence: after "importing the file under a new name" the two collections hold "the
// same number of documents, the same _ids" (observed with FindAll on both collections). The new
// name is "src;d:copy": the keys of its documents ("c:src;d:copy;d:<id>") start with the prefix
// under which the documents of "src" are looked for ("c:src;d:"), so that from then on FindAll on
// the source returns every document twice, while the copy holds each of them once.
func TestHuntC19ImportUnderNameExtendingTheSourceName(t *testing.T) {
	dir := huntC19Dir(t)

	db, err := c.Open(filepath.Join(dir, "db"))
	if err != nil {
		t.Fatal(err)
	}
	defer db.Close()

	if err := db.CreateCollection("src"); err != nil {
		t.Fatal(err)
	}
	for i := 0; i < 3; i++ {
		doc := d.NewDocument()
		doc.Set("i", i)
		if err := db.Insert("src", doc); err != nil {
			t.Fatal(err)
		}
	}

	path := filepath.Join(dir, "src.json")
	if err := db.ExportCollection("src", path); err != nil {
		t.Fatal(err)
	}
	if err := db.ImportCollection("src;d:copy", path); err != nil {
		t.Fatal(err)
	}

	srcDocs, err := db.FindAll(q.NewQuery("src"))
	if err != nil {
		t.Fatal(err)
	}
	copyDocs, err := db.FindAll(q.NewQuery("src;d:copy"))
	if err != nil {
		t.Fatal(err)
	}

	if len(srcDocs) != len(copyDocs) {
		t.Errorf("FindAll returns %d documents on the source and %d on the imported copy", len(srcDocs), len(copyDocs))
	}

	seen := make(map[string]bool)
	for _, doc := range srcDocs {
		if seen[doc.ObjectId()] {
			t.Errorf("after the import FindAll on the source returns the document %s more than once", doc.ObjectId())
		}
		seen[doc.ObjectId()] = true
	}
}

// C19, first sentence, with the quantifier "nested maps/slices": a document holding a string
// inside 10000 nested slices is inserted, stored, read back and exported without error, but the
// exported file is refused by ImportCollection (encoding/json decodes 10000 levels at most, and
// the list of documents and the document itself take two of them).
func TestHuntC19ImportOfDeeplyNestedDocument(t *testing.T) {
	dir := huntC19Dir(t)

	db, err := c.Open(filepath.Join(dir, "db"))
	if err != nil {
		t.Fatal(err)
	}
	defer db.Close()

	if err := db.CreateCollection("src"); err != nil {
		t.Fatal(err)
	}

	var value interface{} = "leaf"
	for i := 0; i < 10000; i++ {
		value = []interface{}{value}
	}

	doc := d.NewDocument()
	doc.Set("v", value)
	if err := db.Insert("src", doc); err != nil {
		t.Fatal(err)
	}

	path := filepath.Join(dir, "src.json")
	if err := db.ExportCollection("src", path); err != nil {
		t.Fatal(err)
	}

	if err := db.ImportCollection("copy", path); err != nil {
		t.Fatalf("the exported file cannot be imported: %v", err)
	}

	n, err := db.Count(q.NewQuery("copy"))
	if err != nil || n != 1 {
		t.Fatalf("copy: %d documents (%v), expected 1", n, err)
	}
}
