// place in: .
package clover_test

// Hunt round 4, property C20: "No public operation panics on well-typed input".
//
// Every test below asserts one sentence of the property only:
//   "every public operation returns normally with a result or an error. It never panics"
// (the call is wrapped in recover() and the test fails when a panic is recovered).

import (
	"fmt"
	"os"
	"runtime/debug"
	"testing"

	"github.com/gofrs/uuid/v5"

	c "github.com/ostafen/clover/v2"
	d "github.com/ostafen/clover/v2/document"
	q "github.com/ostafen/clover/v2/query"
	badgerstore "github.com/ostafen/clover/v2/store/badger"
)

// huntCall runs a public operation and reports the panic it raised, if any.
func huntCall(f func()) (panicked interface{}, stack string) {
	defer func() {
		if r := recover(); r != nil {
			panicked = r
			stack = string(debug.Stack())
		}
	}()
	f()
	return nil, ""
}

func huntOpen(t *testing.T) (*c.DB, func()) {
	dir, err := os.MkdirTemp("", "hunt4-C20")
	if err != nil {
		t.Fatal(err)
	}
	db, err := c.Open(dir)
	if err != nil {
		t.Fatal(err)
	}
	return db, func() {
		db.Close()
		os.RemoveAll(dir)
	}
}

// A value implementing encoding.BinaryMarshaler (here the uuid.UUID of gofrs/uuid, the library
// clover itself uses for its ids) is accepted as the value of a field: Normalize keeps it as it
// is and the document is stored (the first Insert below succeeds). Used as the operand of In
// (or Contains) it makes the query panic as soon as one document of the collection has no value
// (or nil) for the field: internal.Compare takes whatever is neither nil, number, string, bool,
// time nor slice for a map[string]interface{}.
func TestHuntInOperandBinaryMarshalerPanics(t *testing.T) {
	db, cleanup := huntOpen(t)
	defer cleanup()

	if err := db.CreateCollection("things"); err != nil {
		t.Fatal(err)
	}

	owner := uuid.Must(uuid.FromString("c289515b-df0c-42a3-ae76-1fae4c0ec1a6"))

	owned := d.NewDocument()
	owned.Set("owner", owner)
	if err := db.Insert("things", owned); err != nil {
		t.Fatalf("a document with a uuid.UUID field is refused: %v", err)
	}

	orphan := d.NewDocument()
	orphan.Set("name", "no owner")
	if err := db.Insert("things", orphan); err != nil {
		t.Fatal(err)
	}

	var docs []*d.Document
	var err error
	p, stack := huntCall(func() {
		docs, err = db.FindAll(q.NewQuery("things").Where(q.Field("owner").In(owner)))
	})
	if p != nil {
		t.Fatalf("C20 violated: FindAll(owner In [uuid]) panicked instead of returning a result or an error: %v\n%s", p, stack)
	}
	t.Logf("returned normally: %d docs, err=%v", len(docs), err)
}

// Same family of operands, different place: with an index on the field, an Eq (or Gt, Lt, ...)
// criterion is turned into an index range and Range.IsEmpty / Range.Intersect hand the operand
// to internal.Compare before a single key is read. The collection may even be empty.
func TestHuntEqOperandBinaryMarshalerOnIndexedFieldPanics(t *testing.T) {
	db, cleanup := huntOpen(t)
	defer cleanup()

	if err := db.CreateCollection("things"); err != nil {
		t.Fatal(err)
	}
	if err := db.CreateIndex("things", "owner"); err != nil {
		t.Fatal(err)
	}

	owner := uuid.Must(uuid.FromString("c289515b-df0c-42a3-ae76-1fae4c0ec1a6"))

	var docs []*d.Document
	var err error
	p, stack := huntCall(func() {
		docs, err = db.FindAll(q.NewQuery("things").Where(q.Field("owner").Eq(owner)))
	})
	if p != nil {
		t.Fatalf("C20 violated: FindAll(owner Eq uuid) on an indexed field panicked instead of returning a result or an error: %v\n%s", p, stack)
	}
	t.Logf("returned normally: %d docs, err=%v", len(docs), err)
}

// Two DB handles opened (OpenWithStore) on one badger store: closing the first one closes the
// store; every operation on the second handle then fails with an error, as the property asks
// ("and also after Close"), except Close, which panics with "send on closed channel"
// (badgerStore.stopGC sends on, and then closes, its quit channel on every call). The same
// history on the bbolt store returns nil. The same panic is raised by db.Close() after the
// program has closed the store itself (defer store.Close(); defer db.Close()).
func TestHuntCloseOfSecondHandleOnBadgerStorePanics(t *testing.T) {
	dir, err := os.MkdirTemp("", "hunt4-C20")
	if err != nil {
		t.Fatal(err)
	}
	defer os.RemoveAll(dir)

	store, err := badgerstore.Open(dir)
	if err != nil {
		t.Fatal(err)
	}

	first, err := c.OpenWithStore(store)
	if err != nil {
		t.Fatal(err)
	}
	second, err := c.OpenWithStore(store)
	if err != nil {
		t.Fatal(err)
	}

	if err := first.Close(); err != nil {
		t.Fatal(err)
	}

	// after Close every operation of the other handle returns an error ...
	if err := second.CreateCollection("things"); err == nil {
		t.Fatal("expected an error on a closed store")
	}

	// ... but Close
	var closeErr error
	p, stack := huntCall(func() { closeErr = second.Close() })
	if p != nil {
		t.Fatalf("C20 violated: Close of the second handle panicked instead of returning nil or an error: %v\n%s", p, stack)
	}
	t.Logf("returned normally: %v", fmt.Sprint(closeErr))
}
