// place in: .
package clover_test

import (
	"strings"
	"testing"

	"github.com/stretchr/testify/require"

	c "github.com/ostafen/clover/v2"
	d "github.com/ostafen/clover/v2/document"
	q "github.com/ostafen/clover/v2/query"
	badgerstore "github.com/ostafen/clover/v2/store/badger"
)

// C03, first sentence: "each of them is updated (the update function runs on it exactly
// once, on its pre-call value)"; quantifier: "all index sets".
//
// The index set is {"x", "x;y"}. The keys of the index on "x;y" ("c:coll;i:x;y;t:..") start
// with the prefix of the index on "x" ("c:coll;i:x;"), so that a scan of the index on "x"
// (here: a query sorted on x) also walks the entries of the other index and yields every
// document a second time: UpdateFunc runs the update function twice on each document.
func TestHuntUpdateFuncRunsTwiceWithIndexFieldNamesSharingSeparator(t *testing.T) {
	db, err := c.Open(t.TempDir()) // bbolt; the badger store behaves in the same way
	require.NoError(t, err)
	defer db.Close()

	require.NoError(t, db.CreateCollection("coll"))
	require.NoError(t, db.CreateIndex("coll", "x"))
	require.NoError(t, db.CreateIndex("coll", "x;y"))

	for i := 0; i < 5; i++ {
		doc := d.NewDocument()
		doc.Set("x", i)
		doc.Set("x;y", i)
		require.NoError(t, db.Insert("coll", doc))
	}

	query := q.NewQuery("coll").Sort(q.SortOption{Field: "x", Direction: 1})

	calls := make(map[string]int)
	err = db.UpdateFunc(query, func(doc *d.Document) *d.Document {
		calls[doc.ObjectId()]++
		doc.Set("touched", true)
		return doc
	})
	require.NoError(t, err)

	require.Len(t, calls, 5)
	for id, n := range calls {
		require.Equal(t, 1, n, "the update function ran %d times on document %s", n, id)
	}
}

// C03, first sentence: "Delete applied to a query change exactly the documents that FindAll on
// that query would have returned immediately before the call: each of them is ... removed".
//
// The document keys of the collection "a;d:b" ("c:a;d:b;d:<id>") start with the document
// prefix of the collection "a" ("c:a;d:"): FindAll on "a" returns them, but Delete on the
// same query computes their keys from the name "a" and removes nothing (it only lowers
// the size recorded for "a"): the documents the query selects are still there afterwards.
func TestHuntDeleteLeavesSelectedDocumentsWithCollectionNamesSharingSeparator(t *testing.T) {
	db, err := c.Open(t.TempDir()) // bbolt; the badger store behaves in the same way
	require.NoError(t, err)
	defer db.Close()

	require.NoError(t, db.CreateCollection("a"))
	require.NoError(t, db.CreateCollection("a;d:b"))

	for i := 0; i < 3; i++ {
		doc := d.NewDocument()
		doc.Set("x", i)
		require.NoError(t, db.Insert("a", doc))

		doc = d.NewDocument()
		doc.Set("x", 100+i)
		require.NoError(t, db.Insert("a;d:b", doc))
	}

	query := q.NewQuery("a")

	selected, err := db.FindAll(query)
	require.NoError(t, err)
	t.Logf("FindAll selects %d documents before Delete", len(selected))

	require.NoError(t, db.Delete(query))

	// every document FindAll returned before the call has to be gone
	for _, doc := range selected {
		left, err := db.FindAll(query.Where(q.Field("_id").Eq(doc.ObjectId())))
		require.NoError(t, err)
		require.Empty(t, left, "document %s (x=%v) was selected by the query but survived Delete", doc.ObjectId(), doc.Get("x"))
	}
}

// C03: "Update ... applied to a query change exactly the documents that FindAll on that query
// would have returned ...: each of them is updated ... This holds for every collection size,
// index set and storage backend"; quantifier: "from empty to several thousand documents
// (spanning many storage pages) ... and both bundled backends".
//
// 6000 documents of about 2 KiB, no index, default options of the bundled badger store: the
// single transaction of the bulk update exceeds badger's transaction size and Update fails with
// ErrTxnTooBig, no document being updated (the same call succeeds on the bbolt store).
func TestHuntBulkUpdateOfSeveralThousandDocumentsOnBadger(t *testing.T) {
	store, err := badgerstore.Open(t.TempDir())
	require.NoError(t, err)
	db, err := c.OpenWithStore(store)
	require.NoError(t, err)
	defer db.Close()

	require.NoError(t, db.CreateCollection("coll"))

	pad := strings.Repeat("x", 2048)
	for batch := 0; batch < 6; batch++ {
		docs := make([]*d.Document, 0, 1000)
		for i := 0; i < 1000; i++ {
			doc := d.NewDocument()
			doc.Set("i", batch*1000+i)
			doc.Set("pad", pad)
			docs = append(docs, doc)
		}
		require.NoError(t, db.Insert("coll", docs...))
	}

	query := q.NewQuery("coll")
	selected, err := db.FindAll(query)
	require.NoError(t, err)
	require.Len(t, selected, 6000)

	err = db.Update(query, map[string]interface{}{"flag": true})
	require.NoError(t, err)

	updated, err := db.FindAll(query.Where(q.Field("flag").IsTrue()))
	require.NoError(t, err)
	require.Len(t, updated, 6000)
}
