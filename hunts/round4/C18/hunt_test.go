// place in: document
package document

import (
	"net"
	"net/url"
	"reflect"
	"testing"
	"time"
)

// ---------------------------------------------------------------------------------------------
// 1. A nil embedded pointer is stored under the name of its type, and that pseudo-field takes
//    part in the name-conflict rules of the struct walk (internal/encoding.go normalizeFields
//    falls through to cloverName/depths after reserveFieldNames).
//
// Property: "structs become maps honouring `clover` tags (... embedded flattening)" and
// "a struct converted to a document and unmarshalled back is unchanged".
// ---------------------------------------------------------------------------------------------

type HuntInner struct{ X int }

type HuntBase struct{ HuntInner int } // an ordinary field which happens to be called like the type

type HuntOuter struct {
	*HuntInner // embedded pointer: flattened when it is not nil, contributes nothing when nil
	HuntBase   // embedded struct: its field HuntInner is stored as "HuntInner"
}

func TestHuntNilEmbeddedPointerHidesPromotedField(t *testing.T) {
	// control: with a non-nil pointer the promoted field HuntBase.HuntInner is stored
	ctl := NewDocumentOf(HuntOuter{&HuntInner{X: 1}, HuntBase{HuntInner: 7}})
	if got := ctl.Get("HuntInner"); got != int64(7) {
		t.Fatalf("control: HuntInner = %#v, want int64(7)", got)
	}

	in := HuntOuter{nil, HuntBase{HuntInner: 7}}
	doc := NewDocumentOf(in)
	if got := doc.Get("HuntInner"); got != int64(7) {
		t.Errorf("nil embedded pointer: field HuntInner = %#v, want int64(7) (document: %v)", got, doc.ToMap())
	}

	var out HuntOuter
	if err := doc.Unmarshal(&out); err != nil {
		t.Fatal(err)
	}
	if !reflect.DeepEqual(in, out) {
		t.Errorf("round trip changed the struct: in=%+v out=%+v", in, out)
	}
}

// ---------------------------------------------------------------------------------------------
// 2. A struct which embeds a time.Time is not converted at all: it satisfies
//    encoding.BinaryMarshaler through the promoted method, and Normalize returns every
//    BinaryMarshaler as it is.
//
// Property: "structs become maps honouring `clover` tags" / "convert Go values to clover's
// canonical types" (a Go struct is not a canonical type; once inserted it is read back as []byte).
// ---------------------------------------------------------------------------------------------

type HuntEvent struct {
	time.Time
	Name string `clover:"name"`
}

func TestHuntStructEmbeddingTimeIsNotConverted(t *testing.T) {
	ev := HuntEvent{Time: time.Date(2020, 1, 2, 3, 4, 5, 0, time.UTC), Name: "launch"}

	if doc := NewDocumentOf(ev); doc == nil {
		t.Errorf("NewDocumentOf(struct embedding time.Time) = nil, want a document with the fields Time and name")
	}

	doc := NewDocument()
	doc.Set("ev", ev)
	if _, isMap := doc.Get("ev").(map[string]interface{}); !isMap {
		t.Errorf("Set stored a %T, want the struct converted to a map[string]interface{}", doc.Get("ev"))
	}
	if got := doc.Get("ev.name"); got != "launch" {
		t.Errorf("Get(ev.name) = %#v, want \"launch\"", got)
	}
}

// ---------------------------------------------------------------------------------------------
// 3. Same root cause as 2, other sentence: a pointer to a struct whose pointer type has a
//    MarshalBinary method (here *url.URL, a struct of strings and bools) is not followed: the
//    document holds the caller's pointer, whereas the same struct passed by value becomes a map.
//
// Property: "pointers are followed to nil or a value, structs become maps".
// ---------------------------------------------------------------------------------------------

func TestHuntPointerToStructNotFollowed(t *testing.T) {
	u := &url.URL{Scheme: "https", Host: "example.org"}

	byValue := NewDocument()
	byValue.Set("u", *u)
	byPointer := NewDocument()
	byPointer.Set("u", u)

	if !reflect.DeepEqual(byValue.Get("u"), byPointer.Get("u")) {
		t.Errorf("Set(*u) stored %T, Set(u) stored %T: the pointer has not been followed", byValue.Get("u"), byPointer.Get("u"))
	}

	u.Host = "changed.example.org"
	if got := byPointer.Get("u.Host"); got != "example.org" {
		t.Errorf("Get(u.Host) = %#v after the caller changed its own value, want \"example.org\"", got)
	}
}

// ---------------------------------------------------------------------------------------------
// 4. A time whose zone offset is not a whole number of minutes comes back as another instant.
//
// Property: "a struct converted to a document and unmarshalled back is unchanged".
// ---------------------------------------------------------------------------------------------

type HuntStamp struct{ At time.Time }

func TestHuntZoneOffsetWithSecondsRoundTrip(t *testing.T) {
	// e.g. the local mean time of Amsterdam before 1937 is +00:19:32
	lmt := time.FixedZone("LMT", 19*60+32)
	in := HuntStamp{At: time.Date(1900, 1, 1, 12, 0, 0, 0, lmt)}

	doc := NewDocumentOf(in)
	if at, _ := doc.Get("At").(time.Time); !at.Equal(in.At) {
		t.Fatalf("the document holds %v, want %v", doc.Get("At"), in.At)
	}

	var out HuntStamp
	if err := doc.Unmarshal(&out); err != nil {
		t.Fatal(err)
	}
	if !out.At.Equal(in.At) {
		t.Errorf("round trip moved the instant by %v: in=%v out=%v", out.At.Sub(in.At), in.At, out.At)
	}
}

// ---------------------------------------------------------------------------------------------
// 5. uintptr, one of Go's unsigned integer types, is refused.
//
// Property: "signed integers become int64, unsigned uint64" for "every integer width".
// ---------------------------------------------------------------------------------------------

func TestHuntUintptrIsRefused(t *testing.T) {
	doc := NewDocument()
	doc.Set("n", uintptr(42))
	if got := doc.Get("n"); got != uint64(42) {
		t.Errorf("Set(n, uintptr(42)): Get = %#v, want uint64(42)", got)
	}
}

// ---------------------------------------------------------------------------------------------
// 6. A byte slice type with its own text form (net.IP) cannot be unmarshalled back.
//
// Property: "slices and arrays become generic slices" (bytes: []byte) and "a struct converted to
// a document and unmarshalled back is unchanged".
// ---------------------------------------------------------------------------------------------

type HuntHost struct{ Addr net.IP }

func TestHuntNetIPRoundTrip(t *testing.T) {
	in := HuntHost{Addr: net.IPv4(10, 0, 0, 1)}
	doc := NewDocumentOf(in)

	var out HuntHost
	if err := doc.Unmarshal(&out); err != nil {
		t.Fatalf("Unmarshal of a document made from %+v: %v", in, err)
	}
	if !reflect.DeepEqual(in, out) {
		t.Errorf("round trip changed the struct: in=%+v out=%+v", in, out)
	}
}
