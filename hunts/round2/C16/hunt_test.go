// place in: .
package clover_test

import (
	"math"
	"os"
	"sort"
	"testing"

	c "github.com/ostafen/clover/v2"
	d "github.com/ostafen/clover/v2/document"
	q "github.com/ostafen/clover/v2/query"
	"github.com/stretchr/testify/require"
)

// Property C16, sentence "A literal yields the same result whatever Go numeric type it
// was supplied as" (quantifier: "all Go numeric kinds for the same number").
//
// The number 2^53 = 9007199254740992 is exactly representable as int64, uint64, float64
// and float32. The document holds the integer 2^53+1, which is a different number, so
// Eq(2^53) must be false whatever Go type carries the literal.
func TestHuntLiteralKindChangesEqResult(t *testing.T) {
	doc := d.NewDocument()
	doc.Set("x", int64(1<<53+1))

	asInt64 := q.Field("x").Eq(int64(1 << 53)).Satisfy(doc)
	asUint64 := q.Field("x").Eq(uint64(1 << 53)).Satisfy(doc)
	asFloat64 := q.Field("x").Eq(float64(1 << 53)).Satisfy(doc)
	asFloat32 := q.Field("x").Eq(float32(1 << 53)).Satisfy(doc)

	require.False(t, asInt64, "2^53+1 == int64(2^53)")
	require.Equal(t, asInt64, asUint64, "uint64 literal differs from int64 literal")
	require.Equal(t, asInt64, asFloat64, "float64 literal differs from int64 literal")
	require.Equal(t, asInt64, asFloat32, "float32 literal differs from int64 literal")
}

func huntKeys(docs []*d.Document) []int64 {
	keys := make([]int64, 0)
	for _, doc := range docs {
		keys = append(keys, doc.Get("k").(int64))
	}
	sort.Slice(keys, func(i, j int) bool { return keys[i] < keys[j] })
	return keys
}

// Property C16, sentence "Not, And and Or follow their truth tables (...) for every
// document", observed at "DB.FindAll result sets": every document of a collection is
// selected by exactly one of c and Not(c), and FindAll(c) selects the documents that
// satisfy c.
//
// With an index on x, the document holding x = NaN is selected neither by x < 5 nor by
// Not(x < 5). (Satisfy says NaN < 5: the comparison orders NaN before every number.)
func TestHuntNotIsNotTheComplementWithIndexedNaN(t *testing.T) {
	dir, err := os.MkdirTemp("", "hunt-c16")
	require.NoError(t, err)
	defer os.RemoveAll(dir)

	db, err := c.Open(dir)
	require.NoError(t, err)
	defer db.Close()

	for _, coll := range []string{"plain", "indexed"} {
		require.NoError(t, db.CreateCollection(coll))
		if coll == "indexed" {
			require.NoError(t, db.CreateIndex(coll, "x"))
		}

		docs := make([]*d.Document, 0)
		for k, x := range []interface{}{math.NaN(), 1, 10} {
			doc := d.NewDocument()
			doc.Set("k", k)
			doc.Set("x", x)
			docs = append(docs, doc)
		}
		require.NoError(t, db.Insert(coll, docs...))

		crit := q.Field("x").Lt(5)

		expected := make([]*d.Document, 0)
		for _, doc := range docs {
			if crit.Satisfy(doc) {
				expected = append(expected, doc)
			}
		}
		require.Equal(t, []int64{0, 1}, huntKeys(expected)) // NaN and 1 satisfy x < 5

		pos, err := db.FindAll(q.NewQuery(coll).Where(crit))
		require.NoError(t, err)
		neg, err := db.FindAll(q.NewQuery(coll).Where(crit.Not()))
		require.NoError(t, err)

		union := append(append([]*d.Document{}, pos...), neg...)
		require.Equal(t, []int64{0, 1, 2}, huntKeys(union), "collection %s: c and Not(c) do not partition the collection", coll)
		require.Equal(t, huntKeys(expected), huntKeys(pos), "collection %s: FindAll(c)", coll)
	}
}

// Property C16, sentence "Contains matches iff an array field contains every listed
// element".
//
// An array of uint8 numbers is an array field like an array of uint16 numbers, but
// Contains never matches it.
func TestHuntContainsOnArrayOfUint8(t *testing.T) {
	control := d.NewDocument()
	control.Set("arr", []uint16{1, 5})
	require.True(t, q.Field("arr").Contains(5).Satisfy(control))

	doc := d.NewDocument()
	doc.Set("arr", []uint8{1, 5})
	require.True(t, q.Field("arr").Contains(5).Satisfy(doc), "[]uint8{1,5} contains 5")
}

// Property C16, sentence "A literal yields the same result whatever Go numeric type it
// was supplied as".
//
// The array literal [1, 5] equals the array field [1, 5] when its elements are supplied
// as uint16 (or int, float64, [2]uint8...), but not when they are supplied as uint8 in
// a slice.
func TestHuntArrayLiteralOfUint8(t *testing.T) {
	doc := d.NewDocument()
	doc.Set("arr", []int{1, 5})

	require.True(t, q.Field("arr").Eq([]uint16{1, 5}).Satisfy(doc))
	require.True(t, q.Field("arr").Eq([2]uint8{1, 5}).Satisfy(doc))
	require.True(t, q.Field("arr").Eq([]uint8{1, 5}).Satisfy(doc), "[]uint8{1,5} literal")
}

type huntRef string

// Property C16, sentence "`$name` strings or Field(name) operands are read from the
// document under test", observed at Criteria.Satisfy and at DB.FindAll.
//
// A "$b" string supplied through a named string type (or a *string) is compared as the
// literal text "$b" by Satisfy, but is read from the document by every DB operation
// (the normalisation visitor turns it into a plain string first): the two observation
// points disagree on the same criteria and document.
func TestHuntDollarStringOfNamedType(t *testing.T) {
	dir, err := os.MkdirTemp("", "hunt-c16")
	require.NoError(t, err)
	defer os.RemoveAll(dir)

	db, err := c.Open(dir)
	require.NoError(t, err)
	defer db.Close()

	require.NoError(t, db.CreateCollection("coll"))

	doc := d.NewDocument()
	doc.Set("a", 1)
	doc.Set("b", 1)
	require.NoError(t, db.Insert("coll", doc))

	crit := q.Field("a").Eq(huntRef("$b"))

	n, err := db.Count(q.NewQuery("coll").Where(crit))
	require.NoError(t, err)
	require.Equal(t, 1, n) // through the DB, a == $b is read from the document: 1 == 1

	require.True(t, crit.Satisfy(doc), "Satisfy compares a with the text \"$b\" instead of the field b")
}
