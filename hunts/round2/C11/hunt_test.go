// place in: .
package clover_test

import (
	"os"
	"testing"
	"time"

	c "github.com/ostafen/clover/v2"
	d "github.com/ostafen/clover/v2/document"
	q "github.com/ostafen/clover/v2/query"
	badgerstore "github.com/ostafen/clover/v2/store/badger"
	"github.com/ostafen/clover/v2/store/bbolt"
)

// huntC11Backends runs test once on a bbolt database and once on a badger database.
func huntC11Backends(t *testing.T, test func(t *testing.T, db *c.DB, reopen func() *c.DB)) {
	open := map[string]func(dir string) (*c.DB, error){
		"bbolt": func(dir string) (*c.DB, error) {
			s, err := bbolt.Open(dir)
			if err != nil {
				return nil, err
			}
			return c.OpenWithStore(s)
		},
		"badger": func(dir string) (*c.DB, error) {
			s, err := badgerstore.Open(dir)
			if err != nil {
				return nil, err
			}
			return c.OpenWithStore(s)
		},
	}
	for _, name := range []string{"bbolt", "badger"} {
		t.Run(name, func(t *testing.T) {
			dir, err := os.MkdirTemp("", "hunt2-C11-")
			if err != nil {
				t.Fatal(err)
			}
			defer os.RemoveAll(dir)

			db, err := open[name](dir)
			if err != nil {
				t.Fatal(err)
			}
			defer func() { db.Close() }()

			reopen := func() *c.DB {
				if err := db.Close(); err != nil {
					t.Fatal(err)
				}
				db, err = open[name](dir)
				if err != nil {
					t.Fatal(err)
				}
				return db
			}
			test(t, db, reopen)
		})
	}
}

// Property C11, last sentence: "Times denote the same instant and zone offset wherever they
// occur"; quantifier: "times with arbitrary locations and nanoseconds".
//
// A time whose location lies west of Greenwich by an amount that is not a whole number of
// minutes (every "LMT" zone of the Americas in the tz database is such a location, e.g.
// America/New_York before 1883 is UTC-4:56:02) is read back with a zone offset which is 256
// seconds larger than the one written. The instant is preserved, the offset is not.
func TestHuntC11_TimeZoneOffsetWithNegativeSecondsIsShifted(t *testing.T) {
	lmt := time.FixedZone("LMT", -(4*3600 + 56*60 + 2)) // UTC-4:56:02
	written := time.Date(2024, time.January, 2, 3, 4, 5, 6, lmt)

	huntC11Backends(t, func(t *testing.T, db *c.DB, reopen func() *c.DB) {
		if err := db.CreateCollection("c"); err != nil {
			t.Fatal(err)
		}

		doc := d.NewDocument()
		doc.Set("t", written)
		doc.Set("arr", []interface{}{map[string]interface{}{"t": written}})
		if err := db.Insert("c", doc); err != nil {
			t.Fatal(err)
		}

		// the normalised document holds the time as it was given
		_, wantOffset := doc.Get("t").(time.Time).Zone()
		if wantOffset != -17762 {
			t.Fatalf("unexpected offset in the written document: %d", wantOffset)
		}

		check := func(stage string, got *d.Document) {
			t.Helper()
			for _, where := range []string{"t", "arr[0].t"} {
				var v interface{}
				if where == "t" {
					v = got.Get("t")
				} else {
					v = got.Get("arr").([]interface{})[0].(map[string]interface{})["t"]
				}
				read, isTime := v.(time.Time)
				if !isTime {
					t.Fatalf("%s: %s is a %T", stage, where, v)
				}
				if !read.Equal(written) {
					t.Errorf("%s: %s: instant %v, written %v", stage, where, read.UTC(), written.UTC())
				}
				if _, offset := read.Zone(); offset != wantOffset {
					t.Errorf("%s: %s: zone offset %d s (%v), written %d s (%v)", stage, where, offset, read, wantOffset, written)
				}
			}
		}

		got, err := db.FindById("c", doc.ObjectId())
		if err != nil || got == nil {
			t.Fatal(got, err)
		}
		check("FindById", got)

		db = reopen()
		all, err := db.FindAll(q.NewQuery("c"))
		if err != nil || len(all) != 1 {
			t.Fatal(all, err)
		}
		check("FindAll after reopen", all[0])
	})
}

// Property C11, first sentence: a document read back "is deeply equal to the normalised
// document that was written: the same field set ..., the same Go types (..., nil, map, slice)
// and the same values"; quantifier: "including ... empty strings/maps/slices".
//
// A nil byte slice (doc.Set("data", []byte(nil)), or the Data []byte field of a struct which
// has not been assigned) is normalised to a value of type []byte, like every other byte slice
// (an empty, non-nil one is read back as a []byte). Once stored, it is read back as an untyped
// nil: the Go type of the field changes from slice to nil.
func TestHuntC11_NilByteSliceReadBackAsNil(t *testing.T) {
	type file struct {
		Name string
		Data []byte
	}

	huntC11Backends(t, func(t *testing.T, db *c.DB, reopen func() *c.DB) {
		if err := db.CreateCollection("c"); err != nil {
			t.Fatal(err)
		}

		doc := d.NewDocumentOf(&file{Name: "empty.txt"})
		if doc == nil {
			t.Fatal("no document")
		}
		if err := db.Insert("c", doc); err != nil {
			t.Fatal(err)
		}

		// the normalised document, as it was written
		if _, isBytes := doc.Get("Data").([]byte); !isBytes {
			t.Fatalf("the written document holds a %T", doc.Get("Data"))
		}

		got, err := db.FindById("c", doc.ObjectId())
		if err != nil || got == nil {
			t.Fatal(got, err)
		}
		if _, isBytes := got.Get("Data").([]byte); !isBytes {
			t.Errorf("FindById: Data was written as %T and is read back as %T (%#v)", doc.Get("Data"), got.Get("Data"), got.Get("Data"))
		}

		db = reopen()
		all, err := db.FindAll(q.NewQuery("c"))
		if err != nil || len(all) != 1 {
			t.Fatal(all, err)
		}
		if _, isBytes := all[0].Get("Data").([]byte); !isBytes {
			t.Errorf("FindAll after reopen: Data was written as %T and is read back as %T (%#v)", doc.Get("Data"), all[0].Get("Data"), all[0].Get("Data"))
		}
	})
}
