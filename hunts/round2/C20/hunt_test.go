// place in: .
package clover_test

import (
	"bytes"
	"encoding/json"
	"fmt"
	"os"
	"os/exec"
	"runtime/debug"
	"testing"
	"time"

	"github.com/gofrs/uuid/v5"
	c "github.com/ostafen/clover/v2"
	d "github.com/ostafen/clover/v2/document"
	q "github.com/ostafen/clover/v2/query"
)

// huntCall runs f and reports a panic as a test failure instead of killing the test binary.
func huntCall(t *testing.T, what string, f func()) {
	t.Helper()
	defer func() {
		if r := recover(); r != nil {
			t.Fatalf("C20 violated: %s panicked: %v\n%s", what, r, debug.Stack())
		}
	}()
	f()
}

// Property C20, first sentence: "Whatever the criteria shape (including ... field-reference
// operands) ... set of indexes ... every public operation returns normally with a result or an
// error. It never panics".
//
// A field reference that is an ELEMENT of the list given to Eq (x == [ref(y)]) is left
// un-normalised by normalizeOperand (visit.go), and FieldRangeVisitor only refuses a range when the
// WHOLE operand is a reference. With an index on x the list becomes both bounds of an index.Range,
// and Range.IsEmpty -> internal.Compare(list, list) -> Compare(*query.field, *query.field) ends in
// the unchecked v1.(map[string]interface{}) assertion. Without the index the very same call returns
// (0, nil).
func TestHuntEqListHoldingFieldRefOnIndexedField(t *testing.T) {
	dir, err := os.MkdirTemp("", "hunt-c20")
	if err != nil {
		t.Fatal(err)
	}
	defer os.RemoveAll(dir)

	db, err := c.Open(dir)
	if err != nil {
		t.Fatal(err)
	}
	defer db.Close()

	if err := db.CreateCollection("c"); err != nil {
		t.Fatal(err)
	}

	doc := d.NewDocument()
	doc.Set("x", []interface{}{1})
	doc.Set("y", 1)
	if err := db.Insert("c", doc); err != nil {
		t.Fatal(err)
	}

	query := q.NewQuery("c").Where(q.Field("x").Eq([]interface{}{q.Field("y")}))

	// control: no index on x, the call returns normally
	huntCall(t, "Count without index", func() {
		if _, err := db.Count(query); err != nil {
			t.Fatalf("control failed: %v", err)
		}
	})

	if err := db.CreateIndex("c", "x"); err != nil {
		t.Fatal(err)
	}

	huntCall(t, "Count(x == [Field(y)]) with an index on x", func() {
		n, err := db.Count(query)
		t.Logf("returned normally: %d, %v", n, err)
	})
}

// HuntCategory embeds a pointer to its own type (a legal Go type; encoding/json, through which
// Unmarshal goes, handles it).
type HuntCategory struct {
	*HuntCategory
	Name string
}

// Property C20: "every public operation returns normally with a result or an error. It never
// panics and never blocks forever" - for all calls of the public ... document ... APIs with non-nil,
// well-typed arguments.
//
// Document.Unmarshal(&HuntCategory{}) never returns: internal.renameStructFields follows the TYPE of
// every flattened (embedded) field, and for a type that embeds a pointer to itself it calls itself
// with the same arguments until the goroutine stack is exhausted - a fatal "stack overflow" that
// recover() cannot stop, so the whole process dies. The call is therefore made in a child process.
func TestHuntUnmarshalIntoSelfEmbeddingStruct(t *testing.T) {
	if os.Getenv("HUNT_C20_CHILD") == "1" {
		debug.SetMaxStack(16 << 20) // fail fast instead of eating 1 GB of stack first
		doc := d.NewDocument()
		doc.Set("Name", "books")
		var out HuntCategory
		err := doc.Unmarshal(&out)
		fmt.Printf("UNMARSHAL RETURNED err=%v name=%q\n", err, out.Name)
		return
	}

	// control: encoding/json itself has no problem with the type
	var viaJSON HuntCategory
	if err := json.Unmarshal([]byte(`{"Name":"books"}`), &viaJSON); err != nil || viaJSON.Name != "books" {
		t.Fatalf("control failed: %v %+v", err, viaJSON)
	}

	// control: the same value converts to a document without trouble
	if doc := d.NewDocumentOf(&HuntCategory{Name: "books"}); doc == nil || doc.Get("Name") != "books" {
		t.Fatalf("control failed: NewDocumentOf gave %v", doc)
	}

	cmd := exec.Command(os.Args[0], "-test.run=^TestHuntUnmarshalIntoSelfEmbeddingStruct$", "-test.count=1")
	cmd.Env = append(os.Environ(), "HUNT_C20_CHILD=1")
	var out bytes.Buffer
	cmd.Stdout = &out
	cmd.Stderr = &out

	if err := cmd.Start(); err != nil {
		t.Fatal(err)
	}
	done := make(chan error, 1)
	go func() { done <- cmd.Wait() }()

	var runErr error
	select {
	case runErr = <-done:
	case <-time.After(2 * time.Minute):
		cmd.Process.Kill()
		t.Fatalf("C20 violated: Document.Unmarshal(&HuntCategory{}) did not return within 2 minutes")
	}

	text := out.String()
	if runErr != nil || !bytes.Contains(out.Bytes(), []byte("UNMARSHAL RETURNED")) {
		if len(text) > 1500 {
			text = text[:1500] + "\n..."
		}
		t.Fatalf("C20 violated: Document.Unmarshal(&HuntCategory{}) did not return normally (child: %v):\n%s", runErr, text)
	}
}

// LOW CONFIDENCE (the domain is debatable: a uuid.UUID is a [16]byte array, and arrays are in the
// supported domain, but it is also an encoding.BinaryMarshaler).
//
// Property C20: "Whatever the criteria shape ... set of indexes, document content within the
// supported domain ... every public operation returns normally with a result or an error. It never
// panics".
//
// internal.Normalize returns every encoding.BinaryMarshaler unchanged BEFORE looking at its kind, so
// a uuid.UUID (the type of the library's own ids, a [16]byte) is neither turned into a generic
// slice like every other array nor refused: it reaches internal.Compare, which does not know it
// (TypeId 0, then the unchecked v1.(map[string]interface{}) assertion). With an index on the field,
// Eq(u) panics in Range.IsEmpty even on an empty collection; in memory,
// Field("ref").Eq(u).Satisfy(doc) panics once doc.Set("ref", u) was called.
func TestHuntBinaryMarshalerArrayOperandOnIndexedField(t *testing.T) {
	dir, err := os.MkdirTemp("", "hunt-c20")
	if err != nil {
		t.Fatal(err)
	}
	defer os.RemoveAll(dir)

	db, err := c.Open(dir)
	if err != nil {
		t.Fatal(err)
	}
	defer db.Close()

	if err := db.CreateCollection("c"); err != nil {
		t.Fatal(err)
	}

	u := uuid.Must(uuid.FromString("6ba7b810-9dad-11d1-80b4-00c04fd430c8"))
	query := q.NewQuery("c").Where(q.Field("ref").Eq(u))

	// control: without an index the call returns normally
	huntCall(t, "Count without index", func() {
		if _, err := db.Count(query); err != nil {
			t.Fatalf("control failed: %v", err)
		}
	})

	if err := db.CreateIndex("c", "ref"); err != nil {
		t.Fatal(err)
	}

	huntCall(t, "Count(ref == uuid.UUID) with an index on ref", func() {
		n, err := db.Count(query)
		t.Logf("returned normally: %d, %v", n, err)
	})
}
