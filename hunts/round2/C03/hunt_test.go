// place in: .
package clover_test

import (
	"os"
	"testing"

	c "github.com/ostafen/clover/v2"
	d "github.com/ostafen/clover/v2/document"
	q "github.com/ostafen/clover/v2/query"
	badgerstore "github.com/ostafen/clover/v2/store/badger"
	"github.com/ostafen/clover/v2/store/bbolt"
)

func huntOpen(t *testing.T, backend string) (*c.DB, func()) {
	dir, err := os.MkdirTemp("", "hunt2-C03")
	if err != nil {
		t.Fatal(err)
	}

	var db *c.DB
	if backend == "badger" {
		s, err := badgerstore.Open(dir)
		if err != nil {
			t.Fatal(err)
		}
		db, _ = c.OpenWithStore(s)
	} else {
		s, err := bbolt.Open(dir)
		if err != nil {
			t.Fatal(err)
		}
		db, _ = c.OpenWithStore(s)
	}
	return db, func() {
		db.Close()
		os.RemoveAll(dir)
	}
}

// Property C03: "Update ... applied to a query change exactly the documents that FindAll on
// that query would have returned immediately before the call: each of them is updated".
//
// Update(q, m) with a value the library cannot store (here a map with integer keys, which
// Insert/Save refuse) returns nil, yet NO matched document is updated: Document.Set drops the
// error of internal.Normalize and Update has no way to notice. With a mixed map the call
// succeeds and applies only a part of the update.
func TestHuntUpdateReportsSuccessButLeavesMatchedDocumentsUnchanged(t *testing.T) {
	for _, backend := range []string{"bbolt", "badger"} {
		db, cleanup := huntOpen(t, backend)

		if err := db.CreateCollection("c"); err != nil {
			t.Fatal(err)
		}
		for i := 0; i < 3; i++ {
			doc := d.NewDocument()
			doc.Set("k", i)
			if err := db.Insert("c", doc); err != nil {
				t.Fatal(err)
			}
		}

		query := q.NewQuery("c").Where(q.Field("k").GtEq(0))

		matched, err := db.FindAll(query)
		if err != nil || len(matched) != 3 {
			t.Fatalf("%s: FindAll: %d docs, err %v", backend, len(matched), err)
		}

		err = db.Update(query, map[string]interface{}{
			"done": true,
			"tags": map[int]string{1: "a"},
		})

		if err == nil {
			// the call reported success: each matched document has to carry the whole update
			after, _ := db.FindAll(q.NewQuery("c"))
			for _, doc := range after {
				if !doc.Has("done") || !doc.Has("tags") {
					t.Errorf("%s: Update returned nil but document %s was not (fully) updated: %v",
						backend, doc.ObjectId(), doc.AsMap())
				}
			}
		} else {
			// an error is fine too, provided that nothing has been changed
			after, _ := db.FindAll(q.NewQuery("c"))
			for _, doc := range after {
				if doc.Has("done") || doc.Has("tags") {
					t.Errorf("%s: Update failed (%v) but document %s was changed: %v",
						backend, err, doc.ObjectId(), doc.AsMap())
				}
			}
		}
		cleanup()
	}
}
