// place in: .
package clover_test

import (
	"os"
	"testing"

	c "github.com/ostafen/clover/v2"
	d "github.com/ostafen/clover/v2/document"
	q "github.com/ostafen/clover/v2/query"
)

// Property C12, last sentence: "FindById(c, id) only ever returns a document whose _id is id:
// ReplaceById, Save, UpdateById and Update never overwrite another document ..."; the quantifier
// includes "updates that attempt to rewrite _id".
//
// The update below attempts to rewrite _id from inside the predicate of its query: the bulk
// update derives the key it writes to from the _id of the in-memory document after the
// predicate has run, instead of from the key of the record that was read. The update of
// document A is therefore written over document B.
func TestHuntUpdateOverwritesAnotherDocument(t *testing.T) {
	dir, err := os.MkdirTemp("", "hunt-c12")
	if err != nil {
		t.Fatal(err)
	}
	defer os.RemoveAll(dir)

	db, err := c.Open(dir)
	if err != nil {
		t.Fatal(err)
	}
	defer db.Close()

	if err := db.CreateCollection("coll"); err != nil {
		t.Fatal(err)
	}

	idA, idB := c.NewObjectId(), c.NewObjectId()

	docA := d.NewDocument()
	docA.Set("_id", idA)
	docA.Set("name", "A")

	docB := d.NewDocument()
	docB.Set("_id", idB)
	docB.Set("name", "B")

	if err := db.Insert("coll", docA, docB); err != nil {
		t.Fatal(err)
	}

	// selects document A only, and tries to rewrite its _id into the one of B
	query := q.NewQuery("coll").MatchFunc(func(doc *d.Document) bool {
		if doc.Get("name") == "A" {
			doc.Set("_id", idB)
			return true
		}
		return false
	})

	err = db.Update(query, map[string]interface{}{"touched": true})
	t.Logf("Update returned: %v", err)

	// whatever Update returned, B must not have been overwritten
	gotB, err := db.FindById("coll", idB)
	if err != nil {
		t.Fatal(err)
	}
	if gotB == nil {
		t.Fatalf("document B disappeared")
	}
	if gotB.ObjectId() != idB {
		t.Fatalf("FindById(%s) returned a document with _id %s", idB, gotB.ObjectId())
	}
	if gotB.Get("name") != "B" || gotB.Has("touched") {
		t.Fatalf("an update selecting only document A has overwritten document B: FindById(B) = %v", gotB.ToMap())
	}
}
