// place in: .
package clover_test

import (
	"os"
	"path/filepath"
	"testing"

	c "github.com/ostafen/clover/v2"
	d "github.com/ostafen/clover/v2/document"
	q "github.com/ostafen/clover/v2/query"
)

func huntOpenDB(t *testing.T) *c.DB {
	db, err := c.Open(t.TempDir())
	if err != nil {
		t.Fatal(err)
	}
	t.Cleanup(func() { db.Close() })
	return db
}

func huntWriteFile(t *testing.T, content string) string {
	path := filepath.Join(t.TempDir(), "import.json")
	if err := os.WriteFile(path, []byte(content), 0600); err != nil {
		t.Fatal(err)
	}
	return path
}

// Property C19, last sentence: "importing ... from an unreadable or ill-formed file fails".
// A file holding the JSON value null is not a list of documents (ExportCollection never writes
// it: an empty collection is exported as []), yet the import succeeds and creates a collection.
func TestHuntImportNullFile(t *testing.T) {
	db := huntOpenDB(t)
	path := huntWriteFile(t, "null")

	err := db.ImportCollection("fromnull", path)
	has, hasErr := db.HasCollection("fromnull")
	if hasErr != nil {
		t.Fatal(hasErr)
	}
	if err == nil || has {
		t.Fatalf("importing a file containing only `null`: err=%v, collection created=%v; want an error and no collection", err, has)
	}
}

// Property C19, last sentence: "importing ... from an ... ill-formed file fails". JSON text is
// UTF-8 (RFC 8259, 8.1): a file with a byte sequence that is not UTF-8 inside a string is
// ill-formed, but it is imported, the offending bytes being silently replaced by U+FFFD
// (two distinct keys "a\xff" and "a\xfe" even collapse into one field).
func TestHuntImportInvalidUTF8File(t *testing.T) {
	db := huntOpenDB(t)
	path := huntWriteFile(t, "[{\"a\xff\":1,\"a\xfe\":2,\"s\":\"x\xffy\"}]")

	err := db.ImportCollection("badutf8", path)
	has, hasErr := db.HasCollection("badutf8")
	if hasErr != nil {
		t.Fatal(hasErr)
	}
	if err == nil || has {
		var got interface{}
		if docs, _ := db.FindAll(q.NewQuery("badutf8")); len(docs) == 1 {
			m := docs[0].AsMap()
			delete(m, d.ObjectIdField)
			got = m
		}
		t.Fatalf("importing a file that is not valid UTF-8: err=%v, collection created=%v, stored %q; want an error and no collection", err, has, got)
	}
}

// Property C19, first sentence: "Exporting a collection and importing the file under a new name
// reproduces it", for all documents made of "nested maps/slices". A value nested 10001 levels deep
// is inserted, read back and exported without error, but the file ExportCollection produced
// cannot be imported (encoding/json's decoder stops at depth 10000, its encoder has no limit).
func TestHuntRoundTripDeepNesting(t *testing.T) {
	db := huntOpenDB(t)
	if err := db.CreateCollection("src"); err != nil {
		t.Fatal(err)
	}

	var v interface{} = int64(1)
	for i := 0; i < 10001; i++ {
		v = []interface{}{v}
	}
	doc := d.NewDocument()
	doc.Set("a", v)
	if err := db.Insert("src", doc); err != nil {
		t.Fatal(err)
	}
	docs, err := db.FindAll(q.NewQuery("src"))
	if err != nil || len(docs) != 1 {
		t.Fatalf("source not readable: %v", err)
	}

	path := filepath.Join(t.TempDir(), "export.json")
	if err := db.ExportCollection("src", path); err != nil {
		t.Fatalf("export: %v", err)
	}
	if err := db.ImportCollection("dst", path); err != nil {
		t.Fatalf("the file written by ExportCollection cannot be imported: %v", err)
	}
	n, err := db.Count(q.NewQuery("dst"))
	if err != nil || n != 1 {
		t.Fatalf("imported %d documents (%v), want 1", n, err)
	}
}
