// place in: .
package clover_test

import (
	"fmt"
	"math"
	"testing"

	c "github.com/ostafen/clover/v2"
	d "github.com/ostafen/clover/v2/document"
	q "github.com/ostafen/clover/v2/query"
)

// All the tests below build two collections with the same contents (same _id, same fields):
// "plain" has no index, "indexed" has an index on the field x. Property C02 says that every
// query selects the same documents (and the same sequence of sort-key values) on both.

func huntId(n int) string {
	return fmt.Sprintf("00000000-0000-4000-8000-%012d", n)
}

// huntTwins creates the two collections and writes one document {_id: huntId(i), x: values[i]} for each
// value in both of them. The index on x is created before the writes when indexFirst is set, after them otherwise.
func huntTwins(t *testing.T, values []interface{}, indexFirst bool) *c.DB {
	db, err := c.Open(t.TempDir())
	if err != nil {
		t.Fatal(err)
	}
	t.Cleanup(func() { db.Close() })

	for _, coll := range []string{"plain", "indexed"} {
		if err := db.CreateCollection(coll); err != nil {
			t.Fatal(err)
		}
	}

	if indexFirst {
		if err := db.CreateIndex("indexed", "x"); err != nil {
			t.Fatal(err)
		}
	}

	for _, coll := range []string{"plain", "indexed"} {
		for i, v := range values {
			doc := d.NewDocument()
			doc.Set("_id", huntId(i+1))
			doc.Set("x", v)
			if err := db.Insert(coll, doc); err != nil {
				t.Fatalf("insert into %s: %v", coll, err)
			}
		}
	}

	if !indexFirst {
		if err := db.CreateIndex("indexed", "x"); err != nil {
			t.Fatal(err)
		}
	}
	return db
}

func huntSortKeys(docs []*d.Document) []string {
	keys := make([]string, 0, len(docs))
	for _, doc := range docs {
		keys = append(keys, fmt.Sprintf("%v", doc.Get("x")))
	}
	return keys
}

func huntIds(docs []*d.Document) []string {
	ids := make([]string, 0, len(docs))
	for _, doc := range docs {
		ids = append(ids, doc.ObjectId())
	}
	return ids
}

// Sentence: "when a sort is given, the same sequence of sort-key values - whether the collection has no index
// [or] an index ... on the sort field".
// A float64 NaN is a storable value (Insert accepts it, Compare orders it before every other number), but
// the index key of a number is the orderedcode of its float64, where NaN sorts after +Inf.
func TestHuntNaNIsOrderedDifferentlyByTheIndex(t *testing.T) {
	db := huntTwins(t, []interface{}{1.0, math.NaN(), 2.0}, true)

	sortByX := func(coll string) []string {
		docs, err := db.FindAll(q.NewQuery(coll).Sort(q.SortOption{Field: "x", Direction: 1}))
		if err != nil {
			t.Fatal(err)
		}
		return huntSortKeys(docs)
	}

	plain, indexed := sortByX("plain"), sortByX("indexed")
	if fmt.Sprint(plain) != fmt.Sprint(indexed) {
		t.Errorf("Sort(x asc): sort keys without index %v, with an index on x %v", plain, indexed)
	}

	// same cause: the NaN document satisfies x < 5 (it is ordered before every number) but the
	// range scan (.., 5) of the index does not reach it
	crit := q.Field("x").Lt(5)
	nPlain, err := db.Count(q.NewQuery("plain").Where(crit))
	if err != nil {
		t.Fatal(err)
	}
	nIndexed, err := db.Count(q.NewQuery("indexed").Where(crit))
	if err != nil {
		t.Fatal(err)
	}
	if nPlain != nIndexed {
		t.Errorf("Count(x < 5): %d without index, %d with an index on x", nPlain, nIndexed)
	}
}

// Sentence: "FindAll, Count, Update and Delete with any criteria ... select the same documents".
// Here no document holds a NaN, only the operand of the comparison is one: every number is >= NaN
// for the filter, while the index scan starts at the key of NaN, which lies after the key of +Inf.
func TestHuntNaNBoundSelectsNothingThroughTheIndex(t *testing.T) {
	db := huntTwins(t, []interface{}{1.0, 2.0, 3.0}, false)

	crit := q.Field("x").GtEq(math.NaN())

	plain, err := db.FindAll(q.NewQuery("plain").Where(crit).Sort())
	if err != nil {
		t.Fatal(err)
	}
	indexed, err := db.FindAll(q.NewQuery("indexed").Where(crit).Sort())
	if err != nil {
		t.Fatal(err)
	}

	if fmt.Sprint(huntIds(plain)) != fmt.Sprint(huntIds(indexed)) {
		t.Errorf("x >= NaN selects %v without index and %v with an index on x", huntIds(plain), huntIds(indexed))
	}
}

// Sentence: "FindAll, Count, Update and Delete with any criteria ... select the same documents ... whether the
// collection has no index [or] an index on a filtered field".
// A []byte is a value the library stores and compares (it ranks with the arrays, before the generic ones), but
// the index key encoder has no encoding for it: as soon as x is indexed, a comparison of x with a []byte fails.
func TestHuntByteSliceOperandFailsOnlyWithIndex(t *testing.T) {
	db := huntTwins(t, []interface{}{"a string", []interface{}{1}, true}, true)

	crit := q.Field("x").Gt([]byte{1}) // the generic array and the bool are greater than any []byte

	nPlain, err := db.Count(q.NewQuery("plain").Where(crit))
	if err != nil {
		t.Fatal(err)
	}
	if nPlain != 2 {
		t.Fatalf("unexpected count without index: %d", nPlain)
	}

	nIndexed, err := db.Count(q.NewQuery("indexed").Where(crit))
	if err != nil || nIndexed != nPlain {
		t.Errorf("Count(x > []byte{1}): %d without index; with an index on x: %d, error %v", nPlain, nIndexed, err)
	}
}

// Sentence: "any criteria ... select the same documents" (criteria trees with field references).
// normalizeOperand keeps a field reference found inside any list operand, whatever the operator: for Eq the
// list becomes the bound of an index range, and comparing the bound panics. Without index the query is answered.
func TestHuntFieldReferenceInsideEqListPanicsOnlyWithIndex(t *testing.T) {
	db := huntTwins(t, []interface{}{[]interface{}{1}, 2}, true)

	crit := q.Field("x").Eq([]interface{}{q.Field("y")})

	nPlain, err := db.Count(q.NewQuery("plain").Where(crit))
	if err != nil {
		t.Fatal(err)
	}

	var nIndexed int
	var panicked interface{}
	func() {
		defer func() { panicked = recover() }()
		nIndexed, err = db.Count(q.NewQuery("indexed").Where(crit))
	}()

	if panicked != nil || err != nil || nIndexed != nPlain {
		t.Errorf("Count(x == [Field(y)]): %d without index; with an index on x: %d, error %v, panic %v", nPlain, nIndexed, err, panicked)
	}
}

// Sentence: "FindAll, Count, Update and Delete with any criteria, sort, skip and limit select the same documents".
// Two documents share the sort key. The sort node keeps them in _id order in both directions, a reverse index
// scan yields them in descending _id order: Sort(x desc).Limit(1) selects another document once x is indexed.
func TestHuntDescendingSortWithLimitSelectsAnotherDocumentAmongTies(t *testing.T) {
	db := huntTwins(t, []interface{}{7, 7, 1}, true)

	query := func(coll string) *q.Query {
		return q.NewQuery(coll).Sort(q.SortOption{Field: "x", Direction: -1}).Limit(1)
	}

	plain, err := db.FindAll(query("plain"))
	if err != nil {
		t.Fatal(err)
	}
	indexed, err := db.FindAll(query("indexed"))
	if err != nil {
		t.Fatal(err)
	}

	if fmt.Sprint(huntIds(plain)) != fmt.Sprint(huntIds(indexed)) {
		t.Errorf("Sort(x desc).Limit(1) selects %v without index and %v with an index on x", huntIds(plain), huntIds(indexed))
	}
}

// Sentence: "FindAll, Count, Update and Delete with any criteria, sort, skip and limit select the same documents
// ... whether the collection has no index [or] an index on a filtered field".
// Without a sort, the documents reach skip/limit in _id order when the collection is scanned and in the order
// of x when the criteria is served by the index on x: Delete(x > 0, Limit(1)) removes a different document.
func TestHuntUnsortedLimitSelectsAnotherDocumentThroughIndex(t *testing.T) {
	db := huntTwins(t, []interface{}{5, 3}, true)

	for _, coll := range []string{"plain", "indexed"} {
		if err := db.Delete(q.NewQuery(coll).Where(q.Field("x").Gt(0)).Limit(1)); err != nil {
			t.Fatal(err)
		}
	}

	plain, err := db.FindAll(q.NewQuery("plain"))
	if err != nil {
		t.Fatal(err)
	}
	indexed, err := db.FindAll(q.NewQuery("indexed"))
	if err != nil {
		t.Fatal(err)
	}

	if fmt.Sprint(huntIds(plain)) != fmt.Sprint(huntIds(indexed)) {
		t.Errorf("after Delete(x > 0, Limit(1)) the collection without index holds %v, the one with an index on x holds %v", huntIds(plain), huntIds(indexed))
	}
}
