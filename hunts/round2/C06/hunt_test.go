// place in: .
package clover_test

import (
	"os"
	"strings"
	"testing"

	c "github.com/ostafen/clover/v2"
	d "github.com/ostafen/clover/v2/document"
	q "github.com/ostafen/clover/v2/query"
	"github.com/ostafen/clover/v2/store"
	badgerstore "github.com/ostafen/clover/v2/store/badger"
	"github.com/ostafen/clover/v2/store/bbolt"
)

// huntListKeys returns every key of the store ("raw key/value listing through the store interface")
func huntListKeys(t *testing.T, st store.Store) []string {
	tx, err := st.Begin(false)
	if err != nil {
		t.Fatal(err)
	}
	defer tx.Rollback()

	cursor, err := tx.Cursor(true)
	if err != nil {
		t.Fatal(err)
	}
	defer cursor.Close()

	keys := make([]string, 0)
	if err := cursor.Seek([]byte{0}); err != nil {
		t.Fatal(err)
	}
	for ; cursor.Valid(); cursor.Next() {
		item, err := cursor.Item()
		if err != nil {
			t.Fatal(err)
		}
		keys = append(keys, string(item.Key))
	}
	return keys
}

func huntBackends() map[string]func(string) (store.Store, error) {
	return map[string]func(string) (store.Store, error){
		"bbolt":  bbolt.Open,
		"badger": func(dir string) (store.Store, error) { return badgerstore.Open(dir) },
	}
}

// Property C06, sentences "every index holds exactly one entry per document of its collection
// [...] and nothing else" and "Dropping [...] a collection leaves nothing behind".
//
// The bulk write path (replaceDocs, behind Delete, Update, UpdateFunc and DropCollection) removes the
// index entries of a document using the field values of the in-memory document handed over by the
// scan. A MatchFunc predicate receives that very document: when it touches it (here: it lower-cases
// a field to compare it case-insensitively), the entry under the *stored* value is never removed.
func TestHuntC06DeleteWithPredicateLeavesIndexEntry(t *testing.T) {
	for name, open := range huntBackends() {
		t.Run(name, func(t *testing.T) {
			dir, err := os.MkdirTemp("", "hunt-c06")
			if err != nil {
				t.Fatal(err)
			}
			defer os.RemoveAll(dir)

			st, err := open(dir)
			if err != nil {
				t.Fatal(err)
			}
			db, _ := c.OpenWithStore(st)
			defer db.Close()

			must := func(err error) {
				t.Helper()
				if err != nil {
					t.Fatal(err)
				}
			}

			must(db.CreateCollection("users"))
			must(db.CreateIndex("users", "name"))

			id := c.NewObjectId()
			doc := d.NewDocument()
			doc.Set("_id", id)
			doc.Set("name", "Bob")
			must(db.Insert("users", doc))

			isBob := func(doc *d.Document) bool { // case-insensitive match
				name, _ := doc.Get("name").(string)
				doc.Set("name", strings.ToLower(name))
				return doc.Get("name") == "bob"
			}
			must(db.Delete(q.NewQuery("users").MatchFunc(isBob)))

			n, err := db.Count(q.NewQuery("users"))
			must(err)
			if n != 0 {
				t.Fatalf("Count = %d after deleting the only document", n)
			}

			// the collection is empty: the store must hold its record and nothing else
			if keys := huntListKeys(t, st); len(keys) != 1 || keys[0] != "coll:users" {
				t.Errorf("stored keys after the delete: %q, expected only \"coll:users\"", keys)
			}

			// the residue survives dropping the collection, and shows up in the re-created one
			must(db.DropCollection("users"))
			if keys := huntListKeys(t, st); len(keys) != 0 {
				t.Errorf("stored keys after DropCollection: %q, expected none", keys)
			}

			must(db.CreateCollection("users"))
			must(db.CreateIndex("users", "name"))

			doc = d.NewDocument()
			doc.Set("_id", id)
			doc.Set("name", "Carl")
			must(db.Insert("users", doc))

			n, err = db.Count(q.NewQuery("users"))
			must(err)
			docs, err := db.FindAll(q.NewQuery("users").Sort(q.SortOption{Field: "name"}))
			must(err)
			if n != 1 || len(docs) != 1 {
				t.Errorf("re-created collection with one document: Count = %d, sorted FindAll (through the index) returns %d documents", n, len(docs))
			}
		})
	}
}
