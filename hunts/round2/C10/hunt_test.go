// place in: .
package clover_test

// Tests written while hunting for violations of property C10 ("values are totally ordered
// and index keys sort in exactly that order"). Each test fails on the unmodified library.

import (
	"fmt"
	"math"
	"os"
	"sort"
	"testing"

	clover "github.com/ostafen/clover/v2"
	"github.com/ostafen/clover/v2/document"
	"github.com/ostafen/clover/v2/query"
)

// huntOpenC10 opens a bbolt-backed database holding the collections "plain" and "idx", the
// latter with an index on the field "x".
func huntOpenC10(t *testing.T) *clover.DB {
	dir, err := os.MkdirTemp("", "hunt-c10")
	if err != nil {
		t.Fatal(err)
	}
	db, err := clover.Open(dir)
	if err != nil {
		t.Fatal(err)
	}
	t.Cleanup(func() {
		db.Close()
		os.RemoveAll(dir)
	})
	for _, coll := range []string{"plain", "idx"} {
		if err := db.CreateCollection(coll); err != nil {
			t.Fatal(err)
		}
	}
	if err := db.CreateIndex("idx", "x"); err != nil {
		t.Fatal(err)
	}
	return db
}

func huntInsertC10(t *testing.T, db *clover.DB, values ...interface{}) {
	for i, v := range values {
		for _, coll := range []string{"plain", "idx"} {
			doc := document.NewDocument()
			doc.Set("x", v)
			doc.Set("n", i)
			if err := db.Insert(coll, doc); err != nil {
				t.Fatalf("insert of %#v into %s: %v", v, coll, err)
			}
		}
	}
}

// huntFindC10 returns the values of "n" of the documents selected by q, in the order in
// which they are returned (sorted when inOrder is false).
func huntFindC10(db *clover.DB, q *query.Query, inOrder bool) (string, error) {
	docs, err := db.FindAll(q)
	if err != nil {
		return "", err
	}
	ns := make([]int, 0)
	for _, doc := range docs {
		ns = append(ns, int(doc.Get("n").(int64)))
	}
	if !inOrder {
		sort.Ints(ns)
	}
	return fmt.Sprint(ns), nil
}

// "The byte keys under which values are indexed sort in exactly that order [...] so that an
// index range scan and a comparison-based filter always agree."
//
// The comparison orders NaN before every other number (Compare(NaN, x) < 0, see
// compareFloat64), but the key of NaN (its IEEE bits) sorts after the key of +Inf.
func TestHuntNaNKeySortsAfterEveryNumber(t *testing.T) {
	db := huntOpenC10(t)
	huntInsertC10(t, db, math.NaN(), math.Inf(-1), 1.0, 2.0, math.Inf(1)) // n = 0..4

	// filter: x < 2 is true of NaN, -Inf and 1
	lt := query.Field("x").Lt(2.0)
	plain, err := huntFindC10(db, query.NewQuery("plain").Where(lt), false)
	if err != nil {
		t.Fatal(err)
	}
	indexed, err := huntFindC10(db, query.NewQuery("idx").Where(lt), false)
	if err != nil {
		t.Fatal(err)
	}
	if plain != "[0 1 2]" {
		t.Fatalf("comparison-based filter x < 2: expected [0 1 2], got %s", plain)
	}
	if indexed != plain {
		t.Errorf("x < 2: the filter selects %s, the index range scan %s", plain, indexed)
	}

	// sort: the comparison puts NaN first, the index last
	opt := query.SortOption{Field: "x", Direction: 1}
	plain, err = huntFindC10(db, query.NewQuery("plain").Sort(opt), true)
	if err != nil {
		t.Fatal(err)
	}
	indexed, err = huntFindC10(db, query.NewQuery("idx").Sort(opt), true)
	if err != nil {
		t.Fatal(err)
	}
	if indexed != plain {
		t.Errorf("sort by x: comparison order %s, index order %s", plain, indexed)
	}
}

// "[...] with equal values having equal keys [...]"
//
// All NaNs are equal for the comparison (compareFloat64 returns 0 for two NaNs), but their
// keys are their IEEE bit patterns: a NaN with the sign bit set and one without have
// different keys (at the two opposite ends of the numbers).
func TestHuntEqualNaNsHaveDifferentKeys(t *testing.T) {
	db := huntOpenC10(t)
	negNaN := math.Float64frombits(0xFFF8000000000001)
	if !math.IsNaN(negNaN) {
		t.Fatal("not a NaN")
	}
	huntInsertC10(t, db, math.NaN(), negNaN, 1.0) // n = 0..2

	eq := query.Field("x").Eq(math.NaN())
	plain, err := huntFindC10(db, query.NewQuery("plain").Where(eq), false)
	if err != nil {
		t.Fatal(err)
	}
	indexed, err := huntFindC10(db, query.NewQuery("idx").Where(eq), false)
	if err != nil {
		t.Fatal(err)
	}
	if plain != "[0 1]" {
		t.Fatalf("comparison-based filter x == NaN: expected [0 1], got %s", plain)
	}
	if indexed != plain {
		t.Errorf("x == NaN: the filter selects %s, the index range scan %s", plain, indexed)
	}
}

// "The byte keys under which values are indexed sort in exactly that order [...] so that an
// index range scan and a comparison-based filter always agree."
//
// A byte slice is a value of the comparison (it is ranked with the arrays, before the
// generic ones), but the key encoder has no case for it.
func TestHuntByteSliceHasNoKey(t *testing.T) {
	db := huntOpenC10(t)
	huntInsertC10(t, db, int64(1), "a", []interface{}{int64(1)}, true) // n = 0..3

	// every generic array, bool and time is greater than a byte slice
	gt := query.Field("x").Gt([]byte{1, 2})
	plain, err := huntFindC10(db, query.NewQuery("plain").Where(gt), false)
	if err != nil {
		t.Fatal(err)
	}
	if plain != "[2 3]" {
		t.Fatalf("comparison-based filter x > bytes: expected [2 3], got %s", plain)
	}
	indexed, err := huntFindC10(db, query.NewQuery("idx").Where(gt), false)
	if err != nil {
		t.Errorf("x > bytes: the filter selects %s, the index range scan fails: %v", plain, err)
	} else if indexed != plain {
		t.Errorf("x > bytes: the filter selects %s, the index range scan %s", plain, indexed)
	}

	// and a document holding a byte slice cannot be written at all once the field is indexed
	for _, coll := range []string{"plain", "idx"} {
		doc := document.NewDocument()
		doc.Set("x", []byte{1, 2})
		if err := db.Insert(coll, doc); err != nil {
			t.Errorf("insert of a byte slice into %s: %v", coll, err)
		}
	}
}
