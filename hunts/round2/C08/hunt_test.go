// place in: .
package clover_test

import (
	"fmt"
	"math"
	"testing"

	c "github.com/ostafen/clover/v2"
	d "github.com/ostafen/clover/v2/document"
	"github.com/ostafen/clover/v2/internal"
	q "github.com/ostafen/clover/v2/query"
	"github.com/stretchr/testify/require"
)

func huntKeys(docs []*d.Document, field string) []interface{} {
	keys := make([]interface{}, 0, len(docs))
	for _, doc := range docs {
		keys = append(keys, doc.Get(field))
	}
	return keys
}

// huntRequireOrdered checks the first sentence of C08: the returned sequence is ordered by
// clover's total order (internal.Compare) on the sort field, in the requested direction.
func huntRequireOrdered(t *testing.T, keys []interface{}, direction int, what string) {
	for i := 0; i < len(keys); i++ {
		for j := i + 1; j < len(keys); j++ {
			if internal.Compare(keys[i], keys[j])*direction > 0 {
				t.Errorf("%s: result %v is not ordered: position %d (%v) sorts after position %d (%v) in clover's total order",
					what, keys, i, keys[i], j, keys[j])
				return
			}
		}
	}
}

// C08, sentence 1 ("results are ordered by clover's total order on the listed fields ...
// whatever mix of types the fields hold") and sentence 2 ("Skip(n) and Limit(m) then return
// precisely the window [n, n+m) of that ordered sequence"), quantified over "with or without
// an index on the sort or filter field".
//
// clover's total order (internal.Compare, used by the in-memory sort and by every filter)
// puts a float64 NaN before every other number. The index on the sort field files NaN after
// +Inf, so as soon as the sort is served by the index (sort elision) the order changes.
func TestHuntSortOnIndexedFieldMisplacesNaN(t *testing.T) {
	runCloverTest(t, func(t *testing.T, db *c.DB) {
		require.NoError(t, db.CreateCollection("coll"))

		for _, v := range []interface{}{math.NaN(), math.Inf(-1), float64(1), math.Inf(1), "s"} {
			doc := d.NewDocument()
			doc.Set("a", v)
			require.NoError(t, db.Insert("coll", doc))
		}

		asc := q.NewQuery("coll").Sort(q.SortOption{Field: "a", Direction: 1})
		desc := q.NewQuery("coll").Sort(q.SortOption{Field: "a", Direction: -1})

		// without an index: NaN, -Inf, 1, +Inf, "s" (and the reverse)
		docs, err := db.FindAll(asc)
		require.NoError(t, err)
		huntRequireOrdered(t, huntKeys(docs, "a"), 1, "ascending, no index")
		before := fmt.Sprint(huntKeys(docs, "a"))

		docs, err = db.FindAll(desc)
		require.NoError(t, err)
		huntRequireOrdered(t, huntKeys(docs, "a"), -1, "descending, no index")

		require.NoError(t, db.CreateIndex("coll", "a"))

		docs, err = db.FindAll(asc)
		require.NoError(t, err)
		require.Len(t, docs, 5)
		huntRequireOrdered(t, huntKeys(docs, "a"), 1, "ascending, index on a")
		if after := fmt.Sprint(huntKeys(docs, "a")); after != before {
			// the keys are pairwise distinct: the index must not change the sequence
			t.Errorf("Sort(a) returned %s before the index on a was created and %s after", before, after)
		}

		docs, err = db.FindAll(desc)
		require.NoError(t, err)
		require.Len(t, docs, 5)
		huntRequireOrdered(t, huntKeys(docs, "a"), -1, "descending, index on a")

		// the window [0, 1) of the ascending sequence is the NaN document
		docs, err = db.FindAll(asc.Limit(1))
		require.NoError(t, err)
		require.Len(t, docs, 1)
		f, isFloat := docs[0].Get("a").(float64)
		if !isFloat || !math.IsNaN(f) {
			t.Errorf("Sort(a).Limit(1) must return the NaN document, got a = %v", docs[0].Get("a"))
		}
	})
}

// C08, sentence 1: "results are ordered by clover's total order on the listed fields ...
// whatever mix of types the fields hold" (no index involved here).
//
// Two int64 are compared exactly, but an integer met by a float64 is first converted to
// float64: 2^53+1 (int64) == 2^53 (float64) == 2^53 (int64) while 2^53+1 > 2^53 as integers.
// The comparison handed to sort.Slice is not transitive, and the sorted result leaves
// 9007199254740993 before 9007199254740992.
func TestHuntSortMixedIntFloatAbove2p53IsNotOrdered(t *testing.T) {
	runCloverTest(t, func(t *testing.T, db *c.DB) {
		require.NoError(t, db.CreateCollection("coll"))

		values := []interface{}{int64(1<<53 + 1), float64(1 << 53), int64(1 << 53)}
		for i, v := range values {
			doc := d.NewDocument()
			// ids in increasing order: the collection scan feeds the sort in this order
			doc.Set("_id", fmt.Sprintf("00000000-0000-4000-8000-00000000000%d", i+1))
			doc.Set("a", v)
			require.NoError(t, db.Insert("coll", doc))
		}

		docs, err := db.FindAll(q.NewQuery("coll").Sort(q.SortOption{Field: "a", Direction: 1}))
		require.NoError(t, err)
		require.Len(t, docs, 3)
		huntRequireOrdered(t, huntKeys(docs, "a"), 1, "ascending, no index")
	})
}
