// place in: .
package clover_test

import (
	"testing"

	"github.com/stretchr/testify/require"

	c "github.com/ostafen/clover/v2"
	d "github.com/ostafen/clover/v2/document"
	q "github.com/ostafen/clover/v2/query"
)

// Property C01: "numbers compare by value across int/uint/float" and FindAll "returns every
// live document ... that satisfies q's criteria ... and returns nothing else".
//
// The collection has no index (so no index key is involved). The document holds the int64
// 9007199254740993 (2^53+1); the criteria operand is the finite float64 9007199254740992
// (2^53), which is exactly representable. By value 2^53+1 != 2^53 and 2^53+1 > 2^53, but
// clover converts the integer to float64 before comparing (it rounds to 2^53) and reports
// the two numbers equal.
func TestHuntIntegerComparedToFloatByRoundedValue(t *testing.T) {
	db, err := c.Open(t.TempDir())
	require.NoError(t, err)
	defer db.Close()

	require.NoError(t, db.CreateCollection("nums"))

	const big = int64(9007199254740993) // 2^53 + 1
	const f = float64(9007199254740992) // 2^53, exact

	doc := d.NewDocument()
	doc.Set("n", big)
	require.NoError(t, db.Insert("nums", doc))

	// sanity: the value is stored and returned exactly
	all, err := db.FindAll(q.NewQuery("nums"))
	require.NoError(t, err)
	require.Len(t, all, 1)
	require.Equal(t, big, all[0].Get("n"))

	// 2^53+1 is not equal to 2^53: nothing satisfies n == 2^53
	docs, err := db.FindAll(q.NewQuery("nums").Where(q.Field("n").Eq(f)))
	require.NoError(t, err)
	require.Len(t, docs, 0, "n == 9007199254740992.0 returned the document holding 9007199254740993")

	// 2^53+1 is greater than 2^53: the document satisfies n > 2^53
	docs, err = db.FindAll(q.NewQuery("nums").Where(q.Field("n").Gt(f)))
	require.NoError(t, err)
	require.Len(t, docs, 1, "n > 9007199254740992.0 did not return the document holding 9007199254740993")
}
