// place in: document
package document

import (
	"reflect"
	"testing"
	"time"
)

// ---------------------------------------------------------------------------------------------
// 1. A field of an embedded struct that is shadowed by a field of the embedding struct.
//
// Property: "structs become maps honouring clover tags (... embedded flattening)" and
// "a struct converted to a document and unmarshalled back is unchanged".
// In Go (and in encoding/json, through which Unmarshal goes) HuntOuter.ID is the field declared in
// HuntOuter: the ID of the embedded struct is hidden by it. normalizeStruct lets the embedded
// struct, which comes later in the declaration, overwrite the key "ID".
// ---------------------------------------------------------------------------------------------

type HuntBase struct {
	ID string
}

type HuntOuter struct {
	ID string
	HuntBase
}

func TestHuntShadowedEmbeddedField(t *testing.T) {
	in := &HuntOuter{ID: "outer"} // the embedded ID is left to its zero value

	doc := NewDocumentOf(in)
	if doc == nil {
		t.Fatal("NewDocumentOf returned nil")
	}

	out := &HuntOuter{}
	if err := doc.Unmarshal(out); err != nil {
		t.Fatal(err)
	}
	if !reflect.DeepEqual(in, out) {
		t.Errorf("round trip changed the struct: in = %+v, out = %+v (document: %v)", *in, *out, doc.ToMap())
	}
	if got := doc.Get("ID"); got != "outer" {
		t.Errorf(`doc.Get("ID") = %q, want "outer" (the field declared in the embedding struct hides the embedded one)`, got)
	}
}

// ---------------------------------------------------------------------------------------------
// 2. Embedded pointer to a struct of an unexported type: the promoted fields are lost.
//
// Property: "pointers are followed to nil or a value, structs become maps honouring clover tags
// (rename, omitempty, embedded flattening)". An embedded huntBase is flattened (fix 27ddf4a), an
// embedded *HuntBase is flattened, but an embedded *huntBase is dropped as a whole.
// ---------------------------------------------------------------------------------------------

type huntBase struct {
	ID string `clover:"id"`
}

type HuntUserByValue struct {
	huntBase
	Name string
}

type HuntUserByPointer struct {
	*huntBase
	Name string
}

func TestHuntEmbeddedPointerToUnexportedStruct(t *testing.T) {
	byValue := NewDocumentOf(&HuntUserByValue{huntBase: huntBase{ID: "x"}, Name: "n"})
	if byValue == nil || byValue.Get("id") != "x" {
		t.Fatalf("embedded by value: unexpected document %v", byValue)
	}

	byPointer := NewDocumentOf(&HuntUserByPointer{huntBase: &huntBase{ID: "x"}, Name: "n"})
	if byPointer == nil {
		t.Fatal("NewDocumentOf returned nil")
	}
	if !byPointer.Has("id") || byPointer.Get("id") != "x" {
		t.Errorf("the promoted field ID of the embedded *huntBase is missing: document = %v, want %v", byPointer.ToMap(), byValue.ToMap())
	}
}

// ---------------------------------------------------------------------------------------------
// 3. Embedded struct carrying a json name.
//
// Property: "a struct converted to a document and unmarshalled back is unchanged".
// Convert honours json tags when it renames the fields back (fieldNames), but it treats an
// embedded struct as flattened even when its json tag gives it a name, in which case
// encoding/json expects a nested object under that name: the embedded fields never come back.
// ---------------------------------------------------------------------------------------------

type HuntAddress struct {
	City string
}

type HuntPerson struct {
	HuntAddress `json:"address"`
	Name        string
}

func TestHuntEmbeddedStructWithJSONName(t *testing.T) {
	in := &HuntPerson{HuntAddress: HuntAddress{City: "Rome"}, Name: "n"}

	doc := NewDocumentOf(in)
	if doc == nil {
		t.Fatal("NewDocumentOf returned nil")
	}

	out := &HuntPerson{}
	if err := doc.Unmarshal(out); err != nil {
		t.Fatal(err)
	}
	if !reflect.DeepEqual(in, out) {
		t.Errorf("round trip changed the struct: in = %+v, out = %+v (document: %v)", *in, *out, doc.ToMap())
	}
}

// ---------------------------------------------------------------------------------------------
// 4. Embedded map type.
//
// Property: "a struct converted to a document and unmarshalled back is unchanged".
// normalizeStruct flattens every embedded field whose normalised value is a map, an embedded map
// type included, while the way back (isFlattened) only knows embedded structs and looks for the
// key "HuntAttrs": the entries of the map stay at the top level and are dropped.
// ---------------------------------------------------------------------------------------------

type HuntAttrs map[string]string

type HuntItem struct {
	HuntAttrs
	Name string
}

func TestHuntEmbeddedMapType(t *testing.T) {
	in := &HuntItem{HuntAttrs: HuntAttrs{"colour": "red"}, Name: "n"}

	doc := NewDocumentOf(in)
	if doc == nil {
		t.Fatal("NewDocumentOf returned nil")
	}

	out := &HuntItem{}
	if err := doc.Unmarshal(out); err != nil {
		t.Fatal(err)
	}
	if !reflect.DeepEqual(in, out) {
		t.Errorf("round trip changed the struct: in = %+v, out = %+v (document: %v)", *in, *out, doc.ToMap())
	}
}

// ---------------------------------------------------------------------------------------------
// 5. Strings that are not valid UTF-8.
//
// Property: "a struct converted to a document and unmarshalled back is unchanged".
// The document holds the string as it is, but Unmarshal goes through encoding/json, which
// replaces every invalid byte by U+FFFD.
// ---------------------------------------------------------------------------------------------

type HuntText struct {
	S string
	M map[string]int
}

func TestHuntInvalidUTF8String(t *testing.T) {
	in := &HuntText{S: "a\xffb", M: map[string]int{"k\xff": 1}}

	doc := NewDocumentOf(in)
	if doc == nil {
		t.Fatal("NewDocumentOf returned nil")
	}
	if doc.Get("S") != "a\xffb" {
		t.Fatalf("unexpected document %v", doc.ToMap())
	}

	out := &HuntText{}
	if err := doc.Unmarshal(out); err != nil {
		t.Fatal(err)
	}
	if !reflect.DeepEqual(in, out) {
		t.Errorf("round trip changed the struct: in = %q %q, out = %q %q", in.S, in.M, out.S, out.M)
	}
}

// ---------------------------------------------------------------------------------------------
// 6. Pointer to an interface value.
//
// Property: "pointers are followed to nil or a value". getElemValueAndType stops at the
// interface, whose kind is not one Normalize knows: the value is refused ("invalid dtype").
// ---------------------------------------------------------------------------------------------

func TestHuntPointerToInterface(t *testing.T) {
	var x interface{} = 5

	doc := NewDocument()
	doc.Set("direct", x)
	doc.Set("pointer", &x)

	if doc.Get("direct") != int64(5) {
		t.Fatalf("unexpected document %v", doc.ToMap())
	}
	if !doc.Has("pointer") || doc.Get("pointer") != int64(5) {
		t.Errorf(`Set("pointer", &x) with x = interface{}(5): document = %v, want pointer = int64(5)`, doc.ToMap())
	}

	type holder struct {
		P *interface{}
	}
	if d := NewDocumentOf(&holder{P: &x}); d == nil {
		t.Errorf("NewDocumentOf(&holder{P: &x}) = nil, want {P: 5}")
	}
}

// ---------------------------------------------------------------------------------------------
// 7. Arrays (and pointers to them) of a type with a MarshalBinary method are stored as they are.
//
// Property: "pointers are followed to nil or a value ... slices and arrays become generic
// slices", "idempotently" to canonical types. Normalize returns every encoding.BinaryMarshaler
// untouched (the case is there for time.Time): a named [4]byte array with such a method stays a
// Go array, a pointer to it stays a pointer (even a nil one), which are not canonical types.
// uuid.UUID of gofrs/uuid, on which clover depends, is such a type.
// ---------------------------------------------------------------------------------------------

type HuntKey [4]byte

func (k HuntKey) MarshalBinary() ([]byte, error) { return k[:], nil }

func TestHuntBinaryMarshalerArrayNotNormalised(t *testing.T) {
	want := []interface{}{uint64(1), uint64(2), uint64(3), uint64(4)}

	doc := NewDocument()
	doc.Set("plain", [4]byte{1, 2, 3, 4})
	if !reflect.DeepEqual(doc.Get("plain"), want) {
		t.Fatalf("unexpected document %v", doc.ToMap())
	}

	doc.Set("value", HuntKey{1, 2, 3, 4})
	if got := doc.Get("value"); !reflect.DeepEqual(got, want) {
		t.Errorf("HuntKey{1,2,3,4} normalised to %T %v, want %T %v", got, got, want, want)
	}

	doc.Set("pointer", &HuntKey{1, 2, 3, 4})
	if got := doc.Get("pointer"); !reflect.DeepEqual(got, want) {
		t.Errorf("&HuntKey{1,2,3,4} normalised to %T %v, want %T %v", got, got, want, want)
	}

	doc.Set("nilPointer", (*HuntKey)(nil))
	if got := doc.Get("nilPointer"); got != nil {
		t.Errorf("(*HuntKey)(nil) normalised to %T %v, want nil", got, got)
	}
}

// ---------------------------------------------------------------------------------------------
// 8. Nil slices and nil maps come back as empty, non-nil ones.
//
// Property: "a struct converted to a document and unmarshalled back is unchanged".
// (A nil []byte, by contrast, comes back nil.)
// ---------------------------------------------------------------------------------------------

type HuntContainers struct {
	S []int
	M map[string]int
}

func TestHuntNilSliceAndMapRoundTrip(t *testing.T) {
	in := &HuntContainers{}

	doc := NewDocumentOf(in)
	if doc == nil {
		t.Fatal("NewDocumentOf returned nil")
	}

	out := &HuntContainers{}
	if err := doc.Unmarshal(out); err != nil {
		t.Fatal(err)
	}
	if out.S != nil {
		t.Errorf("in.S == nil, out.S = %#v", out.S)
	}
	if out.M != nil {
		t.Errorf("in.M == nil, out.M = %#v", out.M)
	}
}

// ---------------------------------------------------------------------------------------------
// 9. A time after the year 9999.
//
// Property: "a struct converted to a document and unmarshalled back is unchanged".
// The document holds the time, but Unmarshal goes through encoding/json, which refuses it.
// ---------------------------------------------------------------------------------------------

type HuntEvent struct {
	When *time.Time
}

func TestHuntTimeAfterYear9999(t *testing.T) {
	when := time.Date(10000, 1, 1, 0, 0, 0, 0, time.UTC)
	in := &HuntEvent{When: &when}

	doc := NewDocumentOf(in)
	if doc == nil {
		t.Fatal("NewDocumentOf returned nil")
	}
	if got, ok := doc.Get("When").(time.Time); !ok || !got.Equal(when) {
		t.Fatalf("unexpected document %v", doc.ToMap())
	}

	out := &HuntEvent{}
	if err := doc.Unmarshal(out); err != nil {
		t.Fatalf("Unmarshal: %v", err)
	}
	if out.When == nil || !out.When.Equal(when) {
		t.Errorf("round trip changed the struct: in = %v, out = %v", in.When, out.When)
	}
}
