// place in: index
package index

import (
	"fmt"
	"math"
	"os"
	"reflect"
	"testing"

	"github.com/ostafen/clover/v2/internal"
	"github.com/ostafen/clover/v2/store"
	badgerstore "github.com/ostafen/clover/v2/store/badger"
	"github.com/ostafen/clover/v2/store/bbolt"
)

// Property C17. The order of values used everywhere in the library (filters, sort,
// Range.IsEmpty, Range.Intersect) is internal.Compare; the tests below only use that
// function to decide whether a value lies within the bounds of a range.

func huntOpenStore(t *testing.T, backend string) store.Store {
	dir, err := os.MkdirTemp("", "hunt2-C17-")
	if err != nil {
		t.Fatal(err)
	}
	t.Cleanup(func() { os.RemoveAll(dir) })

	var s store.Store
	if backend == "badger" {
		s, err = badgerstore.Open(dir)
	} else {
		s, err = bbolt.Open(dir)
	}
	if err != nil {
		t.Fatal(err)
	}
	t.Cleanup(func() { s.Close() })
	return s
}

func huntId(i int) string {
	return fmt.Sprintf("00000000-0000-4000-8000-%012d", i)
}

// huntPopulate adds values[i] under the id huntId(i), commits, and returns the index
// opened on a fresh read-only transaction.
func huntPopulate(t *testing.T, s store.Store, values []interface{}) RangeIndex {
	tx, err := s.Begin(true)
	if err != nil {
		t.Fatal(err)
	}
	idx := CreateIndex("coll", "x", SingleField, tx)
	for i, v := range values {
		if err := idx.Add(huntId(i), v, 0); err != nil {
			t.Fatalf("Add(%#v): %v", v, err)
		}
	}
	if err := tx.Commit(); err != nil {
		t.Fatal(err)
	}

	tx, err = s.Begin(false)
	if err != nil {
		t.Fatal(err)
	}
	t.Cleanup(func() { tx.Rollback() })
	return CreateIndex("coll", "x", SingleField, tx).(RangeIndex)
}

// huntInRange is the reference: nil with a cleared flag stands for an open end.
func huntInRange(v interface{}, r *Range) bool {
	if r.Start != nil {
		if c := internal.Compare(v, r.Start); c < 0 || (c == 0 && !r.StartIncluded) {
			return false
		}
	}
	if r.End != nil {
		if c := internal.Compare(v, r.End); c > 0 || (c == 0 && !r.EndIncluded) {
			return false
		}
	}
	return true
}

// Sentence: "An index range scan yields exactly the ids of documents whose indexed
// value lies within the requested bounds [...] in ascending value order, or descending
// when reversed".
//
// A float64 NaN is a value the library stores and orders: internal.Compare puts it
// before every other number (and after nil). The index key of a (positive) NaN sorts
// after +Inf instead, so the entry is missing from every range with a numeric upper
// bound and present in every range with a numeric lower bound.
func TestHuntC17RangeScanWithNaNEntry(t *testing.T) {
	values := []interface{}{nil, math.NaN(), float64(1), int64(7), math.NaN(), "s"}

	ranges := []*Range{
		{Start: nil, End: float64(5), StartIncluded: false, EndIncluded: false}, // x < 5
		{Start: float64(5), End: nil, StartIncluded: false, EndIncluded: false}, // x > 5
		{Start: float64(0), End: float64(10), StartIncluded: true, EndIncluded: true},
	}

	for _, backend := range []string{"bbolt", "badger"} {
		t.Run(backend, func(t *testing.T) {
			idx := huntPopulate(t, huntOpenStore(t, backend), values)

			for _, r := range ranges {
				for _, reverse := range []bool{false, true} {
					want := map[string]bool{}
					for i, v := range values {
						if huntInRange(v, r) {
							want[huntId(i)] = true
						}
					}

					got := map[string]bool{}
					var gotValues []interface{}
					err := idx.IterateRange(r, reverse, func(docId string) error {
						got[docId] = true
						var i int
						fmt.Sscanf(docId[24:], "%d", &i)
						gotValues = append(gotValues, values[i])
						return nil
					})
					if err != nil {
						t.Fatal(err)
					}

					if !reflect.DeepEqual(got, want) {
						t.Errorf("range %+v reverse=%v: yielded values %v, want the ids %v, got the ids %v", *r, reverse, gotValues, want, got)
					}
				}
			}
		})
	}
}

// Sentence: "A full index iteration yields every document of the collection once in
// that order" (ascending value order, or descending when reversed).
//
// With a NaN among the values the full iteration is not ordered by internal.Compare:
// it yields 1, +Inf, NaN ascending, although Compare(NaN, 1) < 0.
func TestHuntC17FullIterationOrderWithNaNEntry(t *testing.T) {
	values := []interface{}{float64(1), math.NaN(), math.Inf(1), nil}

	for _, backend := range []string{"bbolt", "badger"} {
		t.Run(backend, func(t *testing.T) {
			idx := huntPopulate(t, huntOpenStore(t, backend), values)

			for _, reverse := range []bool{false, true} {
				var seq []interface{}
				err := idx.Iterate(reverse, func(docId string) error {
					var i int
					fmt.Sscanf(docId[24:], "%d", &i)
					seq = append(seq, values[i])
					return nil
				})
				if err != nil {
					t.Fatal(err)
				}
				if len(seq) != len(values) {
					t.Fatalf("reverse=%v: %d entries, want %d", reverse, len(seq), len(values))
				}
				for i := 1; i < len(seq); i++ {
					c := internal.Compare(seq[i-1], seq[i])
					if (!reverse && c > 0) || (reverse && c < 0) {
						t.Errorf("reverse=%v: iteration order %v: %v is yielded before %v but Compare gives %d", reverse, seq, seq[i-1], seq[i], c)
					}
				}
			}
		})
	}
}

// Sentence: "An index range scan yields exactly the ids of documents whose indexed
// value lies within the requested bounds - honouring [...] open ends".
//
// A byte slice is a value the library compares (bytewise, ranked with the arrays, before
// every generic array). A range bounded by one cannot be scanned at all: the bound
// cannot be encoded, the scan fails and yields none of the entries lying in the range.
func TestHuntC17RangeScanWithByteSliceBound(t *testing.T) {
	values := []interface{}{nil, int64(1), "s", []interface{}{int64(1)}, true}
	r := &Range{Start: []byte{1}, End: nil, StartIncluded: false, EndIncluded: false} // x > []byte{1}

	for _, backend := range []string{"bbolt", "badger"} {
		t.Run(backend, func(t *testing.T) {
			idx := huntPopulate(t, huntOpenStore(t, backend), values)

			want := map[string]bool{}
			for i, v := range values {
				if huntInRange(v, r) {
					want[huntId(i)] = true
				}
			}
			if len(want) != 2 { // the generic array and the bool
				t.Fatalf("reference: %v", want)
			}

			got := map[string]bool{}
			err := idx.IterateRange(r, false, func(docId string) error {
				got[docId] = true
				return nil
			})
			if err != nil {
				t.Errorf("scan failed: %v", err)
			}
			if !reflect.DeepEqual(got, want) {
				t.Errorf("yielded %v, want %v", got, want)
			}
		})
	}
}
