// place in: .
package clover_test

import (
	"net/netip"
	"os"
	"reflect"
	"testing"

	"github.com/gofrs/uuid/v5"
	"github.com/stretchr/testify/require"

	c "github.com/ostafen/clover/v2"
	d "github.com/ostafen/clover/v2/document"
)

// insertCloseReopenGet inserts a document holding value under the field "v" in a database on
// the default on-disk backend, closes the database, reopens the directory and returns the value
// the acknowledged document held together with the value found after the reopen.
func insertCloseReopenGet(t *testing.T, value interface{}) (interface{}, interface{}) {
	dir, err := os.MkdirTemp("", "hunt-c05")
	require.NoError(t, err)
	defer os.RemoveAll(dir)

	db, err := c.Open(dir)
	require.NoError(t, err)
	require.NoError(t, db.CreateCollection("coll"))

	doc := d.NewDocument()
	doc.Set("v", value)
	require.True(t, doc.Has("v"), "the document accepted the value")
	acknowledged := doc.Get("v")

	id, err := db.InsertOne("coll", doc) // acknowledged
	require.NoError(t, err)
	require.NoError(t, db.Close())

	db, err = c.Open(dir)
	require.NoError(t, err)
	defer db.Close()

	stored, err := db.FindById("coll", id)
	require.NoError(t, err)
	require.NotNil(t, stored)
	return acknowledged, stored.Get("v")
}

// Property C05, first sentence: "Every operation that has returned success is still visible,
// complete and unchanged after the database is closed and reopened".
//
// internal.Normalize hands back any encoding.BinaryMarshaler as it is (a uuid.UUID, a
// netip.Addr, a *url.URL ...), so the document that Insert acknowledges holds a value of that
// type; the msgpack encoder writes it as an anonymous byte string, and after close/reopen the
// field holds a []byte: the acknowledged document has changed type and content.
func TestHuntBinaryMarshalerFieldChangesAcrossReopen(t *testing.T) {
	for _, value := range []interface{}{
		uuid.Must(uuid.FromString("6ba7b810-9dad-11d1-80b4-00c04fd430c8")),
		netip.MustParseAddr("192.0.2.1"),
	} {
		acknowledged, stored := insertCloseReopenGet(t, value)
		if !reflect.DeepEqual(acknowledged, stored) {
			t.Errorf("field of the acknowledged document: %T(%v); after close and reopen: %T(%v)",
				acknowledged, acknowledged, stored, stored)
		}
	}
}

// Property C05, first sentence (see above).
//
// A nil []byte is accepted and kept as a []byte by the document (internal.Normalize), but
// msgpack writes a nil byte slice as nil: after close/reopen the field is an untyped nil,
// which has another type rank (null instead of array) and no longer satisfies
// Field("v").Eq([]byte{}), while an empty non-nil []byte{} comes back as a []byte.
func TestHuntNilByteSliceBecomesNullAcrossReopen(t *testing.T) {
	acknowledged, stored := insertCloseReopenGet(t, []byte(nil))

	_, wasBytes := acknowledged.([]byte)
	require.True(t, wasBytes, "the acknowledged document holds a []byte")

	if _, isBytes := stored.([]byte); !isBytes {
		t.Errorf("field of the acknowledged document: %T(%v); after close and reopen: %T(%v)",
			acknowledged, acknowledged, stored, stored)
	}
}
