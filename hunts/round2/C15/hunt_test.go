// place in: store
package store_test

import (
	"fmt"
	"testing"

	badgerdb "github.com/dgraph-io/badger/v4"
	"github.com/ostafen/clover/v2/store"
	badgerstore "github.com/ostafen/clover/v2/store/badger"
	bboltstore "github.com/ostafen/clover/v2/store/bbolt"
)

type huntBackend struct {
	name string
	open func(t *testing.T) store.Store
}

func huntBackends() []huntBackend {
	return []huntBackend{
		{"bbolt", func(t *testing.T) store.Store {
			s, err := bboltstore.Open(t.TempDir())
			if err != nil {
				t.Fatal(err)
			}
			return s
		}},
		{"badger-disk", func(t *testing.T) store.Store {
			s, err := badgerstore.OpenWithOptions(badgerdb.DefaultOptions(t.TempDir()).WithLogger(nil))
			if err != nil {
				t.Fatal(err)
			}
			return s
		}},
		{"badger-memory", func(t *testing.T) store.Store {
			s, err := badgerstore.OpenWithOptions(badgerdb.DefaultOptions("").WithInMemory(true).WithLogger(nil))
			if err != nil {
				t.Fatal(err)
			}
			return s
		}},
	}
}

// position reports where the cursor stands: the current key, or "<none>"
func position(t *testing.T, c store.Cursor) string {
	if !c.Valid() {
		return "<none>"
	}
	item, err := c.Item()
	if err != nil {
		t.Fatal(err)
	}
	return string(item.Key)
}

// Property C15: "a reverse seek [lands] on the last key at or before [the target], iteration
// visits each key once in order" - with the same meaning on both store adapters.
//
// Key set: k0000..k0999 are committed; a second (write) transaction deletes k0300..k0699 and
// then opens a reverse cursor. The keys of that transaction are k0000..k0299 and k0700..k0999.
//   - reverse Seek("k0500") (absent) must land on k0299;
//   - a reverse scan from the end must visit the 600 keys, down to k0000.
//
// The badger adapter does so. The bbolt adapter reports no position for the seek, and its
// reverse scan stops after k0700 (300 keys): bbolt's Cursor.Prev returns a nil key when it steps
// onto a leaf emptied by the transaction, and the adapter takes a nil key for the end.
func TestHuntReverseCursorAfterDeletesInTransaction(t *testing.T) {
	const total, delFrom, delTo = 1000, 300, 700
	key := func(i int) []byte { return []byte(fmt.Sprintf("k%04d", i)) }

	for _, b := range huntBackends() {
		t.Run(b.name, func(t *testing.T) {
			s := b.open(t)
			defer s.Close()

			tx, err := s.Begin(true)
			if err != nil {
				t.Fatal(err)
			}
			for i := 0; i < total; i++ {
				if err := tx.Set(key(i), []byte("0123456789012345678901234567890123456789")); err != nil {
					t.Fatal(err)
				}
			}
			if err := tx.Commit(); err != nil {
				t.Fatal(err)
			}

			tx, err = s.Begin(true)
			if err != nil {
				t.Fatal(err)
			}
			defer tx.Rollback()

			for i := delFrom; i < delTo; i++ {
				if err := tx.Delete(key(i)); err != nil {
					t.Fatal(err)
				}
			}

			// the cursors are created after the last write
			c, err := tx.Cursor(false)
			if err != nil {
				t.Fatal(err)
			}
			if err := c.Seek(key(500)); err != nil {
				t.Fatal(err)
			}
			if got, want := position(t, c), string(key(delFrom-1)); got != want {
				t.Errorf("reverse Seek(%s): landed on %s, the last key at or before the target is %s", key(500), got, want)
			}
			c.Close()

			c, err = tx.Cursor(false)
			if err != nil {
				t.Fatal(err)
			}
			defer c.Close()
			if err := c.Seek([]byte("z")); err != nil {
				t.Fatal(err)
			}
			visited, last := 0, "<none>"
			for ; c.Valid(); c.Next() {
				last = position(t, c)
				visited++
			}
			if want := total - (delTo - delFrom); visited != want || last != string(key(0)) {
				t.Errorf("reverse scan visited %d keys and ended on %s, want %d keys ending on %s", visited, last, want, key(0))
			}
		})
	}
}

// Property C15: "a forward seek lands on the first key at or after the target", with the same
// meaning on both store adapters.
//
// Inside one write transaction: Set("a"), open a forward cursor, Set("b"), then Seek("b").
// "b" is a key of the transaction (Tx.Get returns it), so the seek must land on it, as it does on
// the bbolt adapter. The badger adapter reports no position: badger's iterator takes a snapshot of
// the pending writes when it is created, and the adapter's Seek re-uses that iterator.
func TestHuntSeekAfterWriteInTransaction(t *testing.T) {
	for _, b := range huntBackends() {
		t.Run(b.name, func(t *testing.T) {
			s := b.open(t)
			defer s.Close()

			tx, err := s.Begin(true)
			if err != nil {
				t.Fatal(err)
			}
			defer tx.Rollback()

			if err := tx.Set([]byte("a"), []byte("1")); err != nil {
				t.Fatal(err)
			}

			c, err := tx.Cursor(true)
			if err != nil {
				t.Fatal(err)
			}
			defer c.Close()

			if err := tx.Set([]byte("b"), []byte("2")); err != nil {
				t.Fatal(err)
			}
			if v, err := tx.Get([]byte("b")); err != nil || string(v) != "2" {
				t.Fatalf("Get(b) = %q, %v", v, err)
			}

			if err := c.Seek([]byte("b")); err != nil {
				t.Fatal(err)
			}
			if got := position(t, c); got != "b" {
				t.Errorf("forward Seek(b): landed on %s, the first key at or after the target is b", got)
			}
		})
	}
}
