// place in: .
package clover_test

import (
	"fmt"
	"math"
	"os"
	"testing"

	c "github.com/ostafen/clover/v2"
	d "github.com/ostafen/clover/v2/document"
	q "github.com/ostafen/clover/v2/query"
	"github.com/stretchr/testify/require"
)

// property C16: "Criteria obey Boolean algebra and literal normalisation".

func huntOpenDB(t *testing.T) (*c.DB, func()) {
	dir, err := os.MkdirTemp("", "hunt-C16-db")
	require.NoError(t, err)
	db, err := c.Open(dir) // bbolt
	require.NoError(t, err)
	return db, func() {
		db.Close()
		os.RemoveAll(dir)
	}
}

func huntDoc(kv map[string]interface{}) *d.Document {
	doc := d.NewDocument()
	for k, v := range kv {
		doc.Set(k, v)
	}
	return doc
}

// satisfy evaluates the criteria on the document, turning a panic into an error.
func huntSatisfy(cr q.Criteria, doc *d.Document) (res bool, err error) {
	defer func() {
		if r := recover(); r != nil {
			err = fmt.Errorf("Satisfy panicked: %v", r)
		}
	}()
	return cr.Satisfy(doc), nil
}

// Sentences: "In matches iff the field compares equal to one of the listed values" and
// "`$name` strings or Field(name) operands are read from the document under test".
// A Field(name) operand inside the list of In is honoured by Criteria.Satisfy, but DB.FindAll
// replaces it by an empty map while normalising the literals, so the reference is never read.
func TestHuntInFieldOperandLostByFindAll(t *testing.T) {
	db, cleanup := huntOpenDB(t)
	defer cleanup()

	require.NoError(t, db.CreateCollection("c"))
	same := huntDoc(map[string]interface{}{"name": "same", "a": 1, "b": 1})
	diff := huntDoc(map[string]interface{}{"name": "diff", "a": 1, "b": 2})
	require.NoError(t, db.Insert("c", same, diff))

	// the criteria itself is sound
	require.True(t, q.Field("a").In(q.Field("b")).Satisfy(same))
	require.False(t, q.Field("a").In(q.Field("b")).Satisfy(diff))

	// the "$name" spelling of the same operand works through the DB
	docs, err := db.FindAll(q.NewQuery("c").Where(q.Field("a").In("$b")))
	require.NoError(t, err)
	require.Len(t, docs, 1)

	// the Field(name) spelling must select the same document
	docs, err = db.FindAll(q.NewQuery("c").Where(q.Field("a").In(q.Field("b"))))
	require.NoError(t, err)
	require.Len(t, docs, 1, "In(Field(\"b\")) must read b from each document")
	require.Equal(t, "same", docs[0].Get("name"))
}

// Sentences: "Contains matches iff an array field contains every listed element" and
// "`$name` strings or Field(name) operands are read from the document under test".
func TestHuntContainsFieldOperandLostByFindAll(t *testing.T) {
	db, cleanup := huntOpenDB(t)
	defer cleanup()

	require.NoError(t, db.CreateCollection("c"))
	in := huntDoc(map[string]interface{}{"name": "in", "arr": []interface{}{1, 2}, "b": 1})
	out := huntDoc(map[string]interface{}{"name": "out", "arr": []interface{}{1, 2}, "b": 3})
	require.NoError(t, db.Insert("c", in, out))

	require.True(t, q.Field("arr").Contains(q.Field("b")).Satisfy(in))
	require.False(t, q.Field("arr").Contains(q.Field("b")).Satisfy(out))

	docs, err := db.FindAll(q.NewQuery("c").Where(q.Field("arr").Contains("$b")))
	require.NoError(t, err)
	require.Len(t, docs, 1)

	docs, err = db.FindAll(q.NewQuery("c").Where(q.Field("arr").Contains(q.Field("b"))))
	require.NoError(t, err)
	require.Len(t, docs, 1, "Contains(Field(\"b\")) must read b from each document")
	require.Equal(t, "in", docs[0].Get("name"))
}

// Sentence: "In matches iff the field compares equal to one of the listed values" (together with
// "Exists means the field is present even when nil"): a field which is absent has no value, and
// the library itself says that it does not compare equal to nil (Eq(nil) is false, IsNilOrNotExists
// exists for that reason). In(nil) nevertheless matches the document without the field.
func TestHuntInNilMatchesAbsentField(t *testing.T) {
	doc := huntDoc(map[string]interface{}{"other": 1})

	require.False(t, q.Field("f").Exists().Satisfy(doc))
	require.False(t, q.Field("f").Eq(nil).Satisfy(doc))

	// In(v) with a single value is Eq(v)
	require.Equal(t, q.Field("f").Eq(nil).Satisfy(doc), q.Field("f").In(nil).Satisfy(doc),
		"In(nil) must agree with Eq(nil) on a document where the field is absent")
}

// Sentence: "A literal yields the same result whatever Go numeric type it was supplied as".
// DB.IterateDocs (exported) does not normalise the literals of the criteria: when the field is
// indexed, Eq(int(1)) panics while Eq(int64(1)) selects the document.
func TestHuntIterateDocsLiteralKindWithIndex(t *testing.T) {
	db, cleanup := huntOpenDB(t)
	defer cleanup()

	require.NoError(t, db.CreateCollection("c"))
	require.NoError(t, db.CreateIndex("c", "f"))
	require.NoError(t, db.Insert("c", huntDoc(map[string]interface{}{"f": 1})))

	count := func(lit interface{}) (n int, err error) {
		defer func() {
			if r := recover(); r != nil {
				err = fmt.Errorf("IterateDocs panicked: %v", r)
			}
		}()
		err = db.IterateDocs(q.NewQuery("c").Where(q.Field("f").Eq(lit)), func(doc *d.Document) error {
			n++
			return nil
		})
		return
	}

	n, err := count(int64(1))
	require.NoError(t, err)
	require.Equal(t, 1, n)

	for _, lit := range []interface{}{int(1), uint8(1), float32(1)} {
		n, err := count(lit)
		require.NoError(t, err, "literal of type %T", lit)
		require.Equal(t, 1, n, "literal of type %T", lit)
	}
}

// Sentence: "`$name` strings ... are read from the document under test". The string "$$a" is "$"
// followed by the name "$a", but every leading '$' is stripped and field "a" is read instead.
func TestHuntDollarNameStripsEveryDollar(t *testing.T) {
	doc := huntDoc(map[string]interface{}{"$a": 7, "a": 1, "x": 7})
	require.Equal(t, int64(7), doc.Get("$a"))

	require.True(t, q.Field("x").Eq(q.Field("$a")).Satisfy(doc)) // Field(name) spelling reads "$a"
	require.True(t, q.Field("x").Eq("$$a").Satisfy(doc), "\"$$a\" must read the field named \"$a\"")
}

// Sentence: "A literal yields the same result whatever Go numeric type it was supplied as".
// The list [1, 2] matches when it is supplied as []int, []uint16 or []float64, and makes Satisfy
// panic when it is supplied as []uint8.
func TestHuntUint8SliceLiteral(t *testing.T) {
	doc := huntDoc(map[string]interface{}{"f": []interface{}{1, 2}})

	for _, lit := range []interface{}{[]int{1, 2}, []uint16{1, 2}, []float64{1, 2}, []uint8{1, 2}} {
		res, err := huntSatisfy(q.Field("f").Eq(lit), doc)
		require.NoError(t, err, "literal of type %T", lit)
		require.True(t, res, "literal of type %T", lit)
	}
}

// Sentence: "A literal yields the same result whatever Go numeric type it was supplied as".
// uintptr is one of Go's unsigned integer types: Eq(uintptr(1)) never matches (and FindAll fails
// with "invalid dtype"), while the same number supplied as uint matches.
func TestHuntUintptrLiteral(t *testing.T) {
	doc := huntDoc(map[string]interface{}{"f": 1})
	require.True(t, q.Field("f").Eq(uint(1)).Satisfy(doc))
	require.True(t, q.Field("f").Eq(uintptr(1)).Satisfy(doc), "uintptr(1) must behave like uint(1)")
}

// Sentence: "Not, And and Or follow their truth tables (so De Morgan's laws and double negation
// hold for every document)": with a NaN literal (or a NaN field) no truth value is produced at
// all, Satisfy panics inside internal.Compare (big.NewFloat(NaN)).
func TestHuntNaNLiteralPanics(t *testing.T) {
	doc := huntDoc(map[string]interface{}{"f": 1.5})
	cr := q.Field("f").Eq(math.NaN())

	res, err := huntSatisfy(cr, doc)
	require.NoError(t, err)
	notNot, err := huntSatisfy(cr.Not().Not(), doc)
	require.NoError(t, err)
	require.Equal(t, res, notNot)
}

// Sentence: "A literal yields the same result whatever Go numeric type it was supplied as".
// 2^53 is exactly representable as int64, uint64 and float64. Against the int64 field 2^53+1 the
// literal 2^53 does not match when it is an int64/uint64 (exact integer comparison), but it does
// match when it is a float64, because the field is then rounded to float64 before comparing.
func TestHuntLiteralKindAbove2Pow53(t *testing.T) {
	db, cleanup := huntOpenDB(t)
	defer cleanup()

	const lit = 1 << 53 // 9007199254740992
	doc := huntDoc(map[string]interface{}{"f": int64(lit + 1)})

	asInt := q.Field("f").Eq(int64(lit)).Satisfy(doc)
	asUint := q.Field("f").Eq(uint64(lit)).Satisfy(doc)
	asFloat := q.Field("f").Eq(float64(lit)).Satisfy(doc)
	require.Equal(t, float64(lit), float64(int64(lit))) // the same number in both kinds
	require.Equal(t, asInt, asUint)
	require.Equal(t, asInt, asFloat, "Eq(2^53) on field 2^53+1: int64 literal vs float64 literal")

	// same through the DB
	require.NoError(t, db.CreateCollection("c"))
	require.NoError(t, db.Insert("c", doc))
	nInt, err := db.Count(q.NewQuery("c").Where(q.Field("f").Eq(int64(lit))))
	require.NoError(t, err)
	nFloat, err := db.Count(q.NewQuery("c").Where(q.Field("f").Eq(float64(lit))))
	require.NoError(t, err)
	require.Equal(t, nInt, nFloat)
}
