// place in: .
package clover_test

import (
	"os"
	"testing"

	clover "github.com/ostafen/clover/v2"
	d "github.com/ostafen/clover/v2/document"
	"github.com/ostafen/clover/v2/query"
)

func huntOpen(t *testing.T) *clover.DB {
	t.Helper()
	dir, err := os.MkdirTemp("", "hunt-C12-")
	if err != nil {
		t.Fatal(err)
	}
	db, err := clover.Open(dir)
	if err != nil {
		t.Fatal(err)
	}
	t.Cleanup(func() {
		db.Close()
		os.RemoveAll(dir)
	})
	return db
}

const huntId = "0a000000-0000-4000-8000-000000000001"

// Property sentence: "FindById(c, id) only ever returns a document whose _id is id".
//
// Two collections, "a" and "a;d:b", reuse the same id. FindById on collection "a" with an id that
// was never stored in "a" returns the document of the other collection, whose _id is not the id
// that was asked for.
func TestHuntFindByIdReturnsDocumentWithAnotherId(t *testing.T) {
	db := huntOpen(t)

	for _, c := range []string{"a", "a;d:b"} {
		if err := db.CreateCollection(c); err != nil {
			t.Fatal(err)
		}
	}

	docA := d.NewDocument()
	docA.Set("_id", huntId)
	docA.Set("owner", "a")
	if err := db.Insert("a", docA); err != nil {
		t.Fatal(err)
	}

	docB := d.NewDocument()
	docB.Set("_id", huntId)
	docB.Set("owner", "a;d:b")
	if err := db.Insert("a;d:b", docB); err != nil {
		t.Fatal(err)
	}

	askedId := "b;d:" + huntId // never inserted anywhere (and not even a valid _id)
	doc, err := db.FindById("a", askedId)
	if err != nil {
		t.Fatal(err)
	}
	if doc != nil && doc.ObjectId() != askedId {
		t.Fatalf("FindById(%q, %q) returned a document whose _id is %q (owner = %v)", "a", askedId, doc.ObjectId(), doc.Get("owner"))
	}
}

// Property sentence: "ReplaceById, Save, UpdateById and Update never overwrite another document".
//
// Two collections, "a" and "a;d:b", reuse the same id. An Update on collection "a" whose criteria
// match no document of "a" overwrites the document of "a" with the content of the document stored
// in the other collection.
func TestHuntUpdateOverwritesAnotherDocument(t *testing.T) {
	db := huntOpen(t)

	for _, c := range []string{"a", "a;d:b"} {
		if err := db.CreateCollection(c); err != nil {
			t.Fatal(err)
		}
	}

	docA := d.NewDocument()
	docA.Set("_id", huntId)
	docA.Set("owner", "a")
	if err := db.Insert("a", docA); err != nil {
		t.Fatal(err)
	}

	docB := d.NewDocument()
	docB.Set("_id", huntId)
	docB.Set("owner", "a;d:b")
	if err := db.Insert("a;d:b", docB); err != nil {
		t.Fatal(err)
	}

	// no document of collection "a" has owner == "a;d:b": the update must leave "a" untouched
	q := query.NewQuery("a").Where(query.Field("owner").Eq("a;d:b"))
	if err := db.Update(q, map[string]interface{}{"touched": true}); err != nil {
		t.Fatal(err)
	}

	doc, err := db.FindById("a", huntId)
	if err != nil {
		t.Fatal(err)
	}
	if doc == nil {
		t.Fatalf("document %s of collection a disappeared", huntId)
	}
	if doc.Get("owner") != "a" || doc.Has("touched") {
		t.Fatalf("document %s of collection \"a\" was overwritten by an update that selected none of the documents of \"a\": %v", huntId, doc.ToMap())
	}
}

// Property sentence: "Insert assigns a fresh valid UUID to a document lacking an _id".
//
// The zero value of the exported type document.Document is an empty document lacking an _id
// (Has, Get, Fields, ToMap all work on it): Insert panics instead of assigning an id.
func TestHuntInsertZeroValueDocument(t *testing.T) {
	db := huntOpen(t)

	if err := db.CreateCollection("c"); err != nil {
		t.Fatal(err)
	}

	doc := &d.Document{}
	if doc.Has("_id") {
		t.Fatal("unexpected _id")
	}

	id, err := db.InsertOne("c", doc)
	if err != nil {
		t.Fatal(err)
	}
	found, err := db.FindById("c", id)
	if err != nil || found == nil || found.ObjectId() != id {
		t.Fatalf("FindById(%q) = %v, %v", id, found, err)
	}
}
