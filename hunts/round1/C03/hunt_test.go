// place in: .
package clover_test

import (
	"fmt"
	"os"
	"strings"
	"testing"

	c "github.com/ostafen/clover/v2"
	d "github.com/ostafen/clover/v2/document"
	q "github.com/ostafen/clover/v2/query"
	badgerstore "github.com/ostafen/clover/v2/store/badger"
	"github.com/stretchr/testify/require"
)

// Property C03, sentence: "each of them is updated (the update function runs on it exactly once,
// on its pre-call value) ... This holds for every collection size, index set and storage backend."
//
// The collection has two single-field indexes, one on field "a" and one on field "a;b". The store
// keys of the second index ("c:coll;i:a;b;t:..") begin with the key prefix of the first one
// ("c:coll;i:a;"), so a scan of index "a" also walks the entries of index "a;b" and yields every
// document a second time.
func TestHuntUpdateFuncRunsTwiceWithPrefixRelatedIndexFields(t *testing.T) {
	dir, err := os.MkdirTemp("", "hunt-c03")
	require.NoError(t, err)
	defer os.RemoveAll(dir)

	db, err := c.Open(dir)
	require.NoError(t, err)
	defer db.Close()

	require.NoError(t, db.CreateCollection("coll"))
	require.NoError(t, db.CreateIndex("coll", "a"))
	require.NoError(t, db.CreateIndex("coll", "a;b"))

	const n = 5
	for i := 0; i < n; i++ {
		doc := d.NewDocument()
		doc.Set("a", i)
		doc.Set("a;b", i)
		doc.Set("hits", 0)
		require.NoError(t, db.Insert("coll", doc))
	}

	// all the documents, in the order of field "a" (the plan scans index "a")
	query := q.NewQuery("coll").Sort(q.SortOption{Field: "a", Direction: 1})

	matched, err := db.FindAll(q.NewQuery("coll"))
	require.NoError(t, err)
	require.Len(t, matched, n)

	calls := make(map[string]int)
	err = db.UpdateFunc(query, func(doc *d.Document) *d.Document {
		calls[doc.ObjectId()]++
		newDoc := doc.Copy()
		newDoc.Set("hits", doc.Get("hits").(int64)+1)
		return newDoc
	})
	require.NoError(t, err)

	require.Len(t, calls, n)
	for id, k := range calls {
		require.Equal(t, 1, k, "the update function ran %d times on document %s", k, id)
	}
}

// Property C03: "Update ... applied to a query change exactly the documents that FindAll on that
// query would have returned immediately before the call: each of them is updated ... This holds
// for every collection size, index set and storage backend" (quantifier: "collection sizes from
// empty to several thousand documents ..., both bundled backends").
//
// On the badger backend the whole bulk operation is one badger transaction, which refuses to grow
// beyond ~10MB / ~100k entries: a bulk update of a few thousand
// documents is rejected with "Txn is too big to fit into one request" and no document is updated.
func TestHuntBadgerBulkUpdateSeveralThousandDocs(t *testing.T) {
	dir, err := os.MkdirTemp("", "hunt-c03")
	require.NoError(t, err)
	defer os.RemoveAll(dir)

	store, err := badgerstore.Open(dir)
	require.NoError(t, err)
	db, err := c.OpenWithStore(store)
	require.NoError(t, err)
	defer db.Close()

	require.NoError(t, db.CreateCollection("coll"))
	require.NoError(t, db.CreateIndex("coll", "a"))

	const n = 6000
	pad := strings.Repeat("x", 2000)
	for i := 0; i < n; i += 500 {
		docs := make([]*d.Document, 0, 500)
		for j := i; j < i+500; j++ {
			doc := d.NewDocument()
			doc.Set("a", j)
			doc.Set("pad", pad)
			doc.Set("name", fmt.Sprintf("doc-%d", j))
			docs = append(docs, doc)
		}
		require.NoError(t, db.Insert("coll", docs...))
	}

	matched, err := db.FindAll(q.NewQuery("coll"))
	require.NoError(t, err)
	require.Len(t, matched, n)

	err = db.Update(q.NewQuery("coll"), map[string]interface{}{"touched": true})
	require.NoError(t, err, "bulk update of %d documents on the badger backend", n)

	updated, err := db.FindAll(q.NewQuery("coll").Where(q.Field("touched").IsTrue()))
	require.NoError(t, err)
	require.Len(t, updated, n)
}
