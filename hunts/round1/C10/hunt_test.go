// place in: .
package clover_test

// Hunt for violations of property C10 ("Values are totally ordered and index
// keys sort in exactly that order") on the unmodified code.

import (
	"bytes"
	"math"
	"testing"
	"time"

	c "github.com/ostafen/clover/v2"
	d "github.com/ostafen/clover/v2/document"
	"github.com/ostafen/clover/v2/internal"
	q "github.com/ostafen/clover/v2/query"
	"github.com/stretchr/testify/assert"
	"github.com/stretchr/testify/require"
)

func huntOpen(t *testing.T) *c.DB {
	db, err := c.Open(t.TempDir()) // bbolt backend, private directory removed by the test framework
	require.NoError(t, err)
	t.Cleanup(func() { db.Close() })
	return db
}

// Property sentence: "The byte keys under which values are indexed sort in
// exactly that order [...] so that an index range scan and a comparison-based
// filter always agree", quantified over "times from 1970 on".
//
// 2600-01-01 is later than 2020-01-01 (and the comparison says so), but its
// UnixNano() no longer fits 64 bits (2^64 ns after 1970 is 2554-07-21), so the
// uint64 the key is built from wraps around and the key of the LATER instant
// sorts BEFORE the key of the earlier one.
func TestHuntTimeAfter2554KeySortsBeforeEarlierTime(t *testing.T) {
	early := time.Date(2020, 1, 1, 0, 0, 0, 0, time.UTC)
	late := time.Date(2600, 1, 1, 0, 0, 0, 0, time.UTC)

	// the comparison is right
	require.Negative(t, internal.Compare(early, late))

	// (a) the bytes of the key (same encoder the range index uses, see rangeIndex.getKey)
	kEarly, err := internal.OrderedCode(nil, early)
	require.NoError(t, err)
	kLate, err := internal.OrderedCode(nil, late)
	require.NoError(t, err)
	assert.Truef(t, bytes.Compare(kEarly, kLate) < 0,
		"Compare(2020, 2600) < 0 but key(2020)=%x does not sort before key(2600)=%x", kEarly, kLate)

	// (b) the same thing seen through the public API: identical data and query,
	// with and without an index on the field
	db := huntOpen(t)
	counts := map[string]int{}
	firsts := map[string]time.Time{}
	for _, coll := range []string{"plain", "indexed"} {
		require.NoError(t, db.CreateCollection(coll))
		if coll == "indexed" {
			require.NoError(t, db.CreateIndex(coll, "f"))
		}
		for _, v := range []time.Time{early, late} {
			doc := d.NewDocument()
			doc.Set("f", v)
			require.NoError(t, db.Insert(coll, doc))
		}
		n, err := db.Count(q.NewQuery(coll).Where(q.Field("f").Gt(early)))
		require.NoError(t, err)
		counts[coll] = n

		first, err := db.FindFirst(q.NewQuery(coll).Sort(q.SortOption{Field: "f", Direction: 1}))
		require.NoError(t, err)
		firsts[coll] = first.Get("f").(time.Time).UTC()
	}
	assert.Equal(t, 1, counts["plain"], "filter: exactly the year-2600 document is > 2020")
	assert.Equal(t, counts["plain"], counts["indexed"], "Gt(2020): index range scan and comparison-based filter must agree")
	assert.Equal(t, firsts["plain"], firsts["indexed"], "ascending sort: index order and comparison order must agree")
}

// LOW CONFIDENCE (domain): the quantifier lists -0.0 and the infinities but
// does not name NaN. A NaN is nevertheless accepted and stored by
// Document.Set/Insert like any other float64, so it is a value the comparison
// meets. Property sentence: "it is reflexive" -- Compare(NaN, NaN) does not
// return at all: it panics (big.NewFloat(NaN)), taking the whole query down.
func TestHuntCompareNaNPanics(t *testing.T) {
	db := huntOpen(t)
	require.NoError(t, db.CreateCollection("c"))
	doc := d.NewDocument()
	doc.Set("f", math.NaN())
	require.NoError(t, db.Insert("c", doc))

	require.NotPanics(t, func() {
		_, err := db.Count(q.NewQuery("c").Where(q.Field("f").GtEq(1.5)))
		require.NoError(t, err)
	}, "a comparison filter over a stored float64 must yield a sign, not panic")
}

// LOW CONFIDENCE (domain): []byte / []uint8 is not one of the seven ranked
// types of the property, but Normalize accepts it unchanged, it is ranked as
// an array (TypeId 4) and documents holding it are stored and read back.
// Property sentence: "it is reflexive [...] arrays [...] lexicographically" --
// comparing the stored value with itself panics in Compare (falls through to
// the map[string]interface{} assertion).
func TestHuntCompareByteSlicePanics(t *testing.T) {
	db := huntOpen(t)
	require.NoError(t, db.CreateCollection("c"))
	doc := d.NewDocument()
	doc.Set("f", []uint8{1, 2})
	require.NoError(t, db.Insert("c", doc))

	require.NotPanics(t, func() {
		n, err := db.Count(q.NewQuery("c").Where(q.Field("f").Eq([]uint8{1, 2})))
		require.NoError(t, err)
		require.Equal(t, 1, n)
	}, "Eq of a stored array of small numbers with an equal array must be true, not panic")
}
