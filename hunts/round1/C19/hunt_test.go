// place in: .
package clover_test

import (
	"os"
	"path/filepath"
	"strings"
	"testing"
	"time"

	"github.com/stretchr/testify/require"

	c "github.com/ostafen/clover/v2"
	d "github.com/ostafen/clover/v2/document"
	q "github.com/ostafen/clover/v2/query"
)

// Property C19, sentence 1: "Exporting a collection and importing the file under a new
// name reproduces it". Times are explicitly inside the quantifier, and a document with an
// expiration (Document.SetExpiresAt, a time.Time stored in _expiresAt) is a document holding a
// time. The export writes it as RFC 3339 text; the import then rejects its own export.
func TestHuntC19ExpiresAtRoundTrip(t *testing.T) {
	runCloverTest(t, func(t *testing.T, db *c.DB) {
		dir := t.TempDir()
		require.NoError(t, db.CreateCollection("src"))

		doc := d.NewDocument()
		doc.Set("title", "expiring")
		doc.SetExpiresAt(time.Date(2999, 1, 1, 0, 0, 0, 0, time.UTC)) // far in the future
		require.NoError(t, db.Insert("src", doc))

		path := filepath.Join(dir, "src.json")
		require.NoError(t, db.ExportCollection("src", path))

		err := db.ImportCollection("dst", path)
		require.NoError(t, err, "importing the file just exported must reproduce the collection")

		docs, err := db.FindAll(q.NewQuery("dst"))
		require.NoError(t, err)
		require.Len(t, docs, 1)
		require.Equal(t, doc.ObjectId(), docs[0].ObjectId())
	})
}

// Property C19, last sentence: "importing ... from an unreadable or ill-formed file fails".
// A file whose content is not a JSON text (a JSON array followed by garbage) is ill-formed,
// but the import succeeds and creates the collection.
func TestHuntC19TrailingGarbageAccepted(t *testing.T) {
	runCloverTest(t, func(t *testing.T, db *c.DB) {
		dir := t.TempDir()
		path := filepath.Join(dir, "bad.json")
		require.NoError(t, os.WriteFile(path, []byte(`[{"a":1}] }}} this is not JSON`), 0o600))

		err := db.ImportCollection("dst", path)
		require.Error(t, err, "import of an ill-formed file must fail")

		has, err := db.HasCollection("dst")
		require.NoError(t, err)
		require.False(t, has)
	})
}

// Property C19, last sentence: "importing ... from an ... ill-formed file fails without
// altering any existing collection". A file holding an array with a null element is not a
// list of documents; the import must report an error, instead it panics (nil pointer
// dereference) in the caller's goroutine.
func TestHuntC19NullElementPanics(t *testing.T) {
	runCloverTest(t, func(t *testing.T, db *c.DB) {
		dir := t.TempDir()
		path := filepath.Join(dir, "null.json")
		require.NoError(t, os.WriteFile(path, []byte(`[{"a":1},null]`), 0o600))

		var err error
		require.NotPanics(t, func() { err = db.ImportCollection("dst", path) })
		require.Error(t, err)

		has, err := db.HasCollection("dst")
		require.NoError(t, err)
		require.False(t, has)
	})
}

// Property C19, sentence 1: "importing the file under a new name reproduces it: the same
// number of documents", observed with DB.FindAll on both collections. With the new name
// "a;d:copy" the copy's document keys ("c:a;d:copy;d:<id>") fall under the source's
// document key prefix ("c:a;d:"), so after the import FindAll on the source returns the
// documents of both collections: the two collections no longer have the same number of
// documents and the source has been altered by the import.
func TestHuntC19ImportUnderPrefixRelatedName(t *testing.T) {
	runCloverTest(t, func(t *testing.T, db *c.DB) {
		dir := t.TempDir()
		require.NoError(t, db.CreateCollection("a"))
		for i := 0; i < 2; i++ {
			doc := d.NewDocument()
			doc.Set("n", i)
			require.NoError(t, db.Insert("a", doc))
		}

		path := filepath.Join(dir, "a.json")
		require.NoError(t, db.ExportCollection("a", path))
		require.NoError(t, db.ImportCollection("a;d:copy", path))

		dst, err := db.FindAll(q.NewQuery("a;d:copy"))
		require.NoError(t, err)
		require.Len(t, dst, 2)

		src, err := db.FindAll(q.NewQuery("a"))
		require.NoError(t, err)
		require.Len(t, src, len(dst), "source and copy must hold the same number of documents")
	})
}

// Property C19, sentence 1, on the badger backend: the source collection is built with one
// Insert per document (each well inside badger's per-transaction limit), but the import puts
// the whole file in a single transaction and fails with badger.ErrTxnTooBig, so the
// collection cannot be reproduced.
func TestHuntC19BadgerImportTxnTooBig(t *testing.T) {
	dbDir := t.TempDir()
	db, err := getBadgerDB(dbDir)
	require.NoError(t, err)
	defer db.Close()

	require.NoError(t, db.CreateCollection("src"))
	big := strings.Repeat("x", 512<<10)
	const n = 40
	for i := 0; i < n; i++ {
		doc := d.NewDocument()
		doc.Set("i", i)
		doc.Set("payload", big)
		require.NoError(t, db.Insert("src", doc))
	}

	path := filepath.Join(t.TempDir(), "src.json")
	require.NoError(t, db.ExportCollection("src", path))

	err = db.ImportCollection("dst", path)
	require.NoError(t, err, "importing the file just exported must reproduce the collection")

	cnt, err := db.Count(q.NewQuery("dst"))
	require.NoError(t, err)
	require.Equal(t, n, cnt)
}
