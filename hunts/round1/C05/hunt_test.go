// place in: .
package clover_test

// Hunt for violations of property C05 ("Acknowledged operations survive close,
// reopen and process crash atomically"). Every test uses the default on-disk
// backend (clover.Open -> bbolt), performs a short history of acknowledged write
// operations, closes the database cleanly, reopens the directory and observes
// the logical state (catalog, documents, counts, index-backed query results).

import (
	"testing"

	c "github.com/ostafen/clover/v2"
	d "github.com/ostafen/clover/v2/document"
	q "github.com/ostafen/clover/v2/query"
	"github.com/stretchr/testify/require"
)

func huntOpen(t *testing.T, dir string) *c.DB {
	db, err := c.Open(dir)
	require.NoError(t, err)
	return db
}

func huntReopen(t *testing.T, db *c.DB, dir string) *c.DB {
	require.NoError(t, db.Close())
	return huntOpen(t, dir)
}

// Sentence: "Every operation that has returned success is still visible, complete
// and unchanged after the database is closed and reopened."
//
// CreateIndex on a field whose name is not valid UTF-8 returns success, but the
// catalog entry (collection metadata, JSON encoded) stores a different name
// ("k�"): after close/reopen the acknowledged index is not in the catalog.
func TestHuntIndexOnNonUTF8FieldMissingFromCatalogAfterReopen(t *testing.T) {
	dir := t.TempDir()
	db := huntOpen(t, dir)

	const field = "k\xff"

	require.NoError(t, db.CreateCollection("c"))
	require.NoError(t, db.Insert("c", d.NewDocumentOf(map[string]interface{}{field: int64(1)})))
	require.NoError(t, db.CreateIndex("c", field)) // acknowledged

	db = huntReopen(t, db, dir)
	defer db.Close()

	has, err := db.HasIndex("c", field)
	require.NoError(t, err)
	require.True(t, has, "CreateIndex(%q) returned success, but the index is not in the catalog after close/reopen", field)
}

// Sentences: "Every operation that has returned success is still visible, complete
// and unchanged after the database is closed and reopened" and "indexes, counts and
// catalog are intact".
//
// Three documents are inserted (acknowledged) in the collection "c;i:f". Dropping
// the index on field "f" of the *other* collection "c" physically deletes them
// (their keys "c:c;i:f;d:<id>" start with the index prefix "c:c;i:f;"), while the
// stored collection size still says 3.
func TestHuntDropIndexDestroysAcknowledgedDocsOfOtherCollection(t *testing.T) {
	dir := t.TempDir()
	db := huntOpen(t, dir)

	require.NoError(t, db.CreateCollection("c"))
	require.NoError(t, db.CreateIndex("c", "f"))

	require.NoError(t, db.CreateCollection("c;i:f"))
	ids := make([]string, 0)
	for i := 0; i < 3; i++ {
		doc := d.NewDocument()
		doc.Set("n", int64(i))
		id, err := db.InsertOne("c;i:f", doc) // acknowledged
		require.NoError(t, err)
		ids = append(ids, id)
	}

	require.NoError(t, db.DropIndex("c", "f")) // concerns collection "c" only

	db = huntReopen(t, db, dir)
	defer db.Close()

	count, err := db.Count(q.NewQuery("c;i:f"))
	require.NoError(t, err)
	docs, err := db.FindAll(q.NewQuery("c;i:f"))
	require.NoError(t, err)

	require.Equal(t, count, len(docs), "stored count and stored documents disagree after reopen")
	for _, id := range ids {
		doc, err := db.FindById("c;i:f", id)
		require.NoError(t, err)
		require.NotNil(t, doc, "acknowledged insert %s is gone after reopen", id)
	}
}

// Sentences: "Every operation that has returned success is still ... complete ...
// after the database is closed and reopened" and "indexes ... are intact without
// any rebuild".
//
// The collection has two acknowledged indexes, on the fields "a" and "a;b".
// DropIndex("a") removes every key starting with "c:c;i:a;", which is also a prefix
// of the entries of the index on "a;b" ("c:c;i:a;b;..."). After reopen the catalog
// still lists the index on "a;b", but it is empty: the index-backed query misses
// all the documents that a full scan finds.
func TestHuntDropIndexEmptiesSiblingIndex(t *testing.T) {
	dir := t.TempDir()
	db := huntOpen(t, dir)

	require.NoError(t, db.CreateCollection("c"))
	for i := 0; i < 3; i++ {
		doc := d.NewDocumentOf(map[string]interface{}{"a": int64(i), "a;b": int64(i)})
		require.NoError(t, db.Insert("c", doc))
	}
	require.NoError(t, db.CreateIndex("c", "a;b")) // acknowledged
	require.NoError(t, db.CreateIndex("c", "a"))
	require.NoError(t, db.DropIndex("c", "a"))

	db = huntReopen(t, db, dir)
	defer db.Close()

	has, err := db.HasIndex("c", "a;b")
	require.NoError(t, err)
	require.True(t, has)

	// full scan (a predicate function can not use an index)
	scan, err := db.FindAll(q.NewQuery("c").MatchFunc(func(doc *d.Document) bool {
		n, ok := doc.Get("a;b").(int64)
		return ok && n >= 0
	}))
	require.NoError(t, err)
	require.Len(t, scan, 3)

	// same selection, answered through the index on "a;b"
	indexed, err := db.FindAll(q.NewQuery("c").Where(q.Field("a;b").GtEq(int64(0))))
	require.NoError(t, err)
	require.Len(t, indexed, len(scan), "the index on \"a;b\" lost its entries: index-backed query differs from the full scan after reopen")
}
