// place in: document
package document

import (
	"math"
	"reflect"
	"testing"
	"time"
)

// Property C18, last sentence: "a struct converted to a document and
// unmarshalled back is unchanged" (for nested structs with clover tags,
// pointers, maps, slices, arrays), and "structs become maps honouring
// `clover` tags (rename, omitempty, embedded flattening)", and "slices and
// arrays become generic slices".

type huntLeaf struct {
	X int `clover:"ex"`
}

// ---- 1. pointer to a nested struct whose fields are renamed ----

type huntPtrOuter struct {
	P *huntLeaf `clover:"p"`
}

func TestHuntRoundTripPointerToRenamedStruct(t *testing.T) {
	in := &huntPtrOuter{P: &huntLeaf{X: 5}}
	doc := NewDocumentOf(in)
	if doc == nil {
		t.Fatal("NewDocumentOf returned nil")
	}
	// the document itself is as the property describes
	if got := doc.Get("p.ex"); got != int64(5) {
		t.Fatalf("p.ex = %#v, want int64(5)", got)
	}
	out := &huntPtrOuter{}
	if err := doc.Unmarshal(out); err != nil {
		t.Fatal(err)
	}
	if !reflect.DeepEqual(in, out) {
		t.Fatalf("round trip changed the struct: in.P=%+v out.P=%+v", in.P, out.P)
	}
}

// ---- 2. slice of structs whose fields are renamed ----

type huntSliceOuter struct {
	Items []huntLeaf
}

func TestHuntRoundTripSliceOfRenamedStructs(t *testing.T) {
	in := &huntSliceOuter{Items: []huntLeaf{{X: 5}}}
	doc := NewDocumentOf(in)
	out := &huntSliceOuter{}
	if err := doc.Unmarshal(out); err != nil {
		t.Fatal(err)
	}
	if !reflect.DeepEqual(in, out) {
		t.Fatalf("round trip changed the struct: in=%+v out=%+v (doc %v)", in, out, doc.ToMap())
	}
}

// ---- 3. map of structs whose fields are renamed ----

type huntMapOuter struct {
	Items map[string]huntLeaf
}

func TestHuntRoundTripMapOfRenamedStructs(t *testing.T) {
	in := &huntMapOuter{Items: map[string]huntLeaf{"a": {X: 5}}}
	doc := NewDocumentOf(in)
	out := &huntMapOuter{}
	if err := doc.Unmarshal(out); err != nil {
		t.Fatal(err)
	}
	if !reflect.DeepEqual(in, out) {
		t.Fatalf("round trip changed the struct: in=%+v out=%+v (doc %v)", in, out, doc.ToMap())
	}
}

// ---- 4. embedded (flattened) struct whose fields are renamed ----

type HuntEmbedded struct {
	X int `clover:"ex"`
}

type huntEmbOuter struct {
	HuntEmbedded
	Y int
}

func TestHuntRoundTripEmbeddedRenamedField(t *testing.T) {
	in := &huntEmbOuter{HuntEmbedded: HuntEmbedded{X: 5}, Y: 1}
	doc := NewDocumentOf(in)
	// flattening + rename happened as the property says
	if got := doc.Get("ex"); got != int64(5) {
		t.Fatalf("ex = %#v, want int64(5)", got)
	}
	out := &huntEmbOuter{}
	if err := doc.Unmarshal(out); err != nil {
		t.Fatal(err)
	}
	if !reflect.DeepEqual(in, out) {
		t.Fatalf("round trip changed the struct: in=%+v out=%+v", in, out)
	}
}

// ---- 5. a clover name that equals the Go name of another field ----

type huntChain struct {
	Name  string `clover:"Title"`
	Title string `clover:"Heading"`
}

func TestHuntRoundTripRenameOntoOtherFieldName(t *testing.T) {
	// The outcome depends on map iteration order inside internal.rename, so
	// repeat: every single round trip has to be the identity.
	for i := 0; i < 200; i++ {
		in := &huntChain{Name: "n", Title: "t"}
		doc := NewDocumentOf(in)
		if doc.Get("Title") != "n" || doc.Get("Heading") != "t" {
			t.Fatalf("unexpected document %v", doc.ToMap())
		}
		out := &huntChain{}
		if err := doc.Unmarshal(out); err != nil {
			t.Fatal(err)
		}
		if !reflect.DeepEqual(in, out) {
			t.Fatalf("iteration %d: round trip changed the struct: in=%+v out=%+v", i, in, out)
		}
	}
}

// ---- 6. arrays of uint8 are not turned into a slice ----

func TestHuntUint8ArrayIsNotNormalised(t *testing.T) {
	doc := NewDocument()
	doc.Set("a16", [3]uint16{1, 2, 3})
	doc.Set("a8", [3]uint8{1, 2, 3})

	if _, ok := doc.Get("a16").([]interface{}); !ok {
		t.Fatalf("[3]uint16 became %T", doc.Get("a16"))
	}
	// "slices and arrays become generic slices": accept the generic slice and
	// even the []byte special case, but a Go array is no canonical type.
	switch v := doc.Get("a8").(type) {
	case []interface{}, []byte:
	default:
		t.Errorf("[3]uint8 was stored as %T, an array, not a slice", v)
	}

	// the stored type is also not stable ("deterministically"): the very same
	// field has another type once the document went through the encoder used by Insert.
	data, err := Encode(doc)
	if err != nil {
		t.Fatal(err)
	}
	back, err := Decode(data)
	if err != nil {
		t.Fatal(err)
	}
	if reflect.TypeOf(back.Get("a8")) != reflect.TypeOf(doc.Get("a8")) {
		t.Errorf("type before storing %T, after storing %T", doc.Get("a8"), back.Get("a8"))
	}
}

// ---- 7. exported fields of an unexported embedded struct are dropped ----

type huntHidden struct {
	A int
}

type huntHiddenOuter struct {
	huntHidden
	B int
}

func TestHuntUnexportedEmbeddedStructIsDropped(t *testing.T) {
	in := &huntHiddenOuter{huntHidden: huntHidden{A: 1}, B: 2}
	doc := NewDocumentOf(in)
	if !doc.Has("A") {
		t.Errorf("embedded flattening: field A (promoted, exported) is missing, fields=%v", doc.Fields(true))
	}
	out := &huntHiddenOuter{}
	if err := doc.Unmarshal(out); err != nil {
		t.Fatal(err)
	}
	if !reflect.DeepEqual(in, out) {
		t.Fatalf("round trip changed the struct: in=%+v out=%+v", in, out)
	}
}

// ---- 8. a struct that embeds a time.Time is not converted at all ----

type huntEvent struct {
	time.Time
	Name string `clover:"name"`
}

func TestHuntStructEmbeddingTimeIsNotConverted(t *testing.T) {
	e := huntEvent{Time: time.Date(2020, 1, 1, 0, 0, 0, 0, time.UTC), Name: "n"}

	// "structs become maps honouring clover tags (rename, embedded flattening)"
	doc := NewDocumentOf(e)
	if doc == nil {
		t.Fatal("NewDocumentOf(struct embedding time.Time) = nil, as if the value were unsupported")
	}
	if doc.Get("name") != "n" {
		t.Fatalf("name = %v", doc.Get("name"))
	}
}

// ---- 9. a float field holding an infinity cannot be unmarshalled back ----

type huntFloat struct {
	F float64
}

func TestHuntRoundTripInfinity(t *testing.T) {
	in := &huntFloat{F: math.Inf(1)}
	doc := NewDocumentOf(in)
	if got := doc.Get("F"); got != math.Inf(1) {
		t.Fatalf("F = %#v", got)
	}
	out := &huntFloat{}
	if err := doc.Unmarshal(out); err != nil {
		t.Fatalf("Unmarshal of a document made from %+v failed: %v", in, err)
	}
	if !reflect.DeepEqual(in, out) {
		t.Fatalf("round trip changed the struct: in=%+v out=%+v", in, out)
	}
}
