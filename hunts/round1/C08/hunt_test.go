// place in: .
package clover_test

// Property C08: "Sort order and skip/limit windows are exact".
// Every test below fails on the unmodified library; the sentence of the property
// each assertion is derived from is quoted in the test's comment.

import (
	"fmt"
	"math"
	"testing"
	"time"

	"github.com/stretchr/testify/require"

	c "github.com/ostafen/clover/v2"
	d "github.com/ostafen/clover/v2/document"
	q "github.com/ostafen/clover/v2/query"
)

const (
	huntIdLow  = "00000000-0000-4000-8000-000000000001"
	huntIdMid  = "00000000-0000-4000-8000-000000000002"
	huntIdHigh = "00000000-0000-4000-8000-000000000003"
)

func huntOpen(t *testing.T) *c.DB {
	db, err := c.Open(t.TempDir()) // bbolt store
	require.NoError(t, err)
	t.Cleanup(func() { db.Close() })
	require.NoError(t, db.CreateCollection("coll"))
	return db
}

func huntDoc(id string, fields map[string]interface{}) *d.Document {
	doc := d.NewDocument()
	doc.Set("_id", id)
	for k, v := range fields {
		doc.Set(k, v)
	}
	return doc
}

func huntIds(docs []*d.Document) []string {
	ids := make([]string, 0, len(docs))
	for _, doc := range docs {
		ids = append(ids, doc.ObjectId())
	}
	return ids
}

// huntFindAll turns a panic of the library into a test failure of the calling test only.
func huntFindAll(t *testing.T, db *c.DB, query *q.Query) (docs []*d.Document) {
	defer func() {
		if p := recover(); p != nil {
			t.Fatalf("FindAll panicked: %v", p)
		}
	}()
	docs, err := db.FindAll(query)
	require.NoError(t, err)
	return docs
}

// "results are ordered by clover's total order on the listed fields in sequence [...],
// an absent field ordering together with nil before every other value".
// Sort(a, b): the first document has no "a", the second has a == nil. The two tie on "a",
// hence "b" decides: {a: nil, b: 0} must precede {b: 1}. The in-memory comparator puts an
// absent field strictly before a nil one and never looks at "b".
func TestHuntAbsentAndNilTieInMultiKeySort(t *testing.T) {
	db := huntOpen(t)
	require.NoError(t, db.Insert("coll",
		huntDoc(huntIdLow, map[string]interface{}{"b": 1}),
		huntDoc(huntIdHigh, map[string]interface{}{"a": nil, "b": 0}),
	))
	docs := huntFindAll(t, db, q.NewQuery("coll").Sort(q.SortOption{Field: "a"}, q.SortOption{Field: "b"}))
	require.Equal(t, []string{huntIdHigh, huntIdLow}, huntIds(docs))
}

// "results are ordered by clover's total order on the listed fields [...] with or without
// an index on the sort [...] field". clover's order on integers is exact (2^53 < 2^53+1, and
// the query without index returns them so), but the index encodes every number as a float64:
// the two keys collide and the scan falls back to the _id order.
func TestHuntIndexSortLargeIntegers(t *testing.T) {
	db := huntOpen(t)
	require.NoError(t, db.Insert("coll",
		huntDoc(huntIdLow, map[string]interface{}{"x": int64(1<<53 + 1)}),
		huntDoc(huntIdHigh, map[string]interface{}{"x": int64(1 << 53)}),
	))
	query := q.NewQuery("coll").Sort(q.SortOption{Field: "x"})

	docs := huntFindAll(t, db, query)
	require.Equal(t, []string{huntIdHigh, huntIdLow}, huntIds(docs)) // holds: in-memory sort

	require.NoError(t, db.CreateIndex("coll", "x"))
	docs = huntFindAll(t, db, query)
	require.Equal(t, []string{huntIdHigh, huntIdLow}, huntIds(docs)) // fails: index scan

	// same window through Limit: "Skip(n) and Limit(m) then return precisely the window [n, n+m)"
	docs = huntFindAll(t, db, query.Limit(1))
	require.Equal(t, []string{huntIdHigh}, huntIds(docs))
}

// Same sentence, time values: clover orders times chronologically (1969 before 1971, and the
// query without index returns them so), the index encodes uint64(UnixNano()), which wraps
// around for every instant before 1970 (the zero time.Time included).
func TestHuntIndexSortTimesBeforeEpoch(t *testing.T) {
	db := huntOpen(t)
	require.NoError(t, db.Insert("coll",
		huntDoc(huntIdLow, map[string]interface{}{"x": time.Date(1969, 1, 1, 0, 0, 0, 0, time.UTC)}),
		huntDoc(huntIdHigh, map[string]interface{}{"x": time.Date(1971, 1, 1, 0, 0, 0, 0, time.UTC)}),
	))
	query := q.NewQuery("coll").Sort(q.SortOption{Field: "x"})

	docs := huntFindAll(t, db, query)
	require.Equal(t, []string{huntIdLow, huntIdHigh}, huntIds(docs)) // holds: in-memory sort

	require.NoError(t, db.CreateIndex("coll", "x"))
	docs = huntFindAll(t, db, query)
	require.Equal(t, []string{huntIdLow, huntIdHigh}, huntIds(docs)) // fails: index scan
}

// "without a sort they return min(m, max(0, total-n)) matching documents [...] with or without
// an index on the [...] filter field". One document matches x > 2^53 (it is returned without
// the index); with the index, Skip(0).Limit(5) returns nothing: the exclusive lower bound
// skips every key equal to float64(2^53), which is also the key of 2^53+1.
func TestHuntIndexFilterLargeIntegerWindow(t *testing.T) {
	db := huntOpen(t)
	require.NoError(t, db.Insert("coll",
		huntDoc(huntIdLow, map[string]interface{}{"x": int64(1<<53 + 1)}),
	))
	query := q.NewQuery("coll").Where(q.Field("x").Gt(int64(1 << 53))).Skip(0).Limit(5)

	require.Len(t, huntFindAll(t, db, query), 1) // holds: full scan

	require.NoError(t, db.CreateIndex("coll", "x"))
	require.Len(t, huntFindAll(t, db, query), 1) // fails: index scan
}

// "results are ordered by clover's total order [...] whatever mix of types the fields hold".
// A float64 NaN is accepted by Insert; sorting a collection which holds one panics in
// internal.compareNumbers (big.NewFloat(NaN)) instead of returning the two documents.
func TestHuntSortNaNPanics(t *testing.T) {
	db := huntOpen(t)
	require.NoError(t, db.Insert("coll",
		huntDoc(huntIdLow, map[string]interface{}{"x": math.NaN()}),
		huntDoc(huntIdHigh, map[string]interface{}{"x": 1.0}),
	))
	docs := huntFindAll(t, db, q.NewQuery("coll").Sort(q.SortOption{Field: "x"}))
	require.Len(t, docs, 2)
}

// Same sentence. A []byte value is accepted as it is by document normalisation and survives
// the storage round trip; internal.Compare classifies it as a slice and then asserts it to a
// map: sorting two such documents panics.
func TestHuntSortByteSlicePanics(t *testing.T) {
	db := huntOpen(t)
	require.NoError(t, db.Insert("coll",
		huntDoc(huntIdLow, map[string]interface{}{"x": []byte("b")}),
		huntDoc(huntIdHigh, map[string]interface{}{"x": []byte("a")}),
	))
	docs := huntFindAll(t, db, q.NewQuery("coll").Sort(q.SortOption{Field: "x"}))
	require.Len(t, docs, 2)
}

// "results are ordered by clover's total order". internal.Compare says 2^53 < 2^53+1 for the
// two integers, so the document holding 2^53 must come first. Because a float64 operand
// makes the comparison lossy (float64(2^53) compares equal to both integers), the relation
// is not transitive and the sort leaves 2^53+1 in front of 2^53.
func TestHuntSortIntegerFloatMix(t *testing.T) {
	db := huntOpen(t)
	require.NoError(t, db.Insert("coll",
		huntDoc(huntIdLow, map[string]interface{}{"x": int64(1<<53 + 1)}),
		huntDoc(huntIdMid, map[string]interface{}{"x": float64(1 << 53)}),
		huntDoc(huntIdHigh, map[string]interface{}{"x": int64(1 << 53)}),
	))
	docs := huntFindAll(t, db, q.NewQuery("coll").Sort(q.SortOption{Field: "x"}))
	require.Len(t, docs, 3)

	pos := map[string]int{}
	for i, id := range huntIds(docs) {
		pos[id] = i
	}
	require.Less(t, pos[huntIdHigh], pos[huntIdLow],
		fmt.Sprintf("x=2^53 must precede x=2^53+1, got %v", huntIds(docs)))
}

// "Skip(n) and Limit(m) then return precisely the window [n, n+m) of that ordered sequence
// [...] with or without an index on the sort [...] field". document.Validate accepts every
// textual form of a UUID (here the 32 digit form without dashes), while the index assumes
// that an id is 36 bytes long when it cuts it from a key: the index scan looks up ids which
// do not exist and silently returns no document at all.
func TestHuntIndexSortLosesDocsWithShortUUID(t *testing.T) {
	db := huntOpen(t)
	id1, id2 := "00000000000040008000000000000001", "00000000000040008000000000000002"
	require.NoError(t, db.Insert("coll",
		huntDoc(id1, map[string]interface{}{"x": 1}),
		huntDoc(id2, map[string]interface{}{"x": 2}),
	))
	query := q.NewQuery("coll").Sort(q.SortOption{Field: "x"})

	require.Equal(t, []string{id1, id2}, huntIds(huntFindAll(t, db, query))) // holds: in-memory sort

	require.NoError(t, db.CreateIndex("coll", "x"))
	require.Equal(t, []string{id1, id2}, huntIds(huntFindAll(t, db, query))) // fails: index scan
}

// Same sentence. The keys of the index on field "a" start with "c:coll;i:a;", which is also a
// prefix of the keys of an index on a field named "a;b": the scan of the first index walks
// through the entries of the second one and returns every document twice.
func TestHuntIndexSortDuplicatesWithPrefixRelatedIndex(t *testing.T) {
	db := huntOpen(t)
	require.NoError(t, db.CreateIndex("coll", "a"))
	require.NoError(t, db.CreateIndex("coll", "a;b"))
	require.NoError(t, db.Insert("coll",
		huntDoc(huntIdLow, map[string]interface{}{"a": 1}),
		huntDoc(huntIdHigh, map[string]interface{}{"a": 2}),
	))
	docs := huntFindAll(t, db, q.NewQuery("coll").Sort(q.SortOption{Field: "a"}))
	require.Equal(t, []string{huntIdLow, huntIdHigh}, huntIds(docs))
}
