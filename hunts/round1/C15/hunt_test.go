// place in: .
package clover_test

// Property C15: "The same sequence of operations produces the same observable results -
// returned documents and their order, counts, catalog, and errors (the same sentinel error,
// or an error in both) - on the bbolt backend and on the badger backend (on disk and in memory)."
//
// Every test below runs one identical single-threaded history on twin handles over the
// backends shipped with clover and compares the outcomes with each other.

import (
	"path/filepath"
	"strings"
	"testing"
	"time"

	badgerdb "github.com/dgraph-io/badger/v4"
	c "github.com/ostafen/clover/v2"
	d "github.com/ostafen/clover/v2/document"
	"github.com/ostafen/clover/v2/query"
	badgerstore "github.com/ostafen/clover/v2/store/badger"
	bboltstore "github.com/ostafen/clover/v2/store/bbolt"
)

type huntC15Backend struct {
	name string
	open func(t *testing.T) *c.DB
}

func huntC15Backends() []huntC15Backend {
	return []huntC15Backend{
		{"bbolt", func(t *testing.T) *c.DB {
			s, err := bboltstore.Open(t.TempDir())
			if err != nil {
				t.Fatal(err)
			}
			db, _ := c.OpenWithStore(s)
			return db
		}},
		{"badger-disk", func(t *testing.T) *c.DB {
			s, err := badgerstore.OpenWithOptions(badgerdb.DefaultOptions(t.TempDir()).WithLogger(nil))
			if err != nil {
				t.Fatal(err)
			}
			db, _ := c.OpenWithStore(s)
			return db
		}},
		{"badger-mem", func(t *testing.T) *c.DB {
			s, err := badgerstore.OpenWithOptions(badgerdb.DefaultOptions("").WithInMemory(true).WithLogger(nil))
			if err != nil {
				t.Fatal(err)
			}
			db, _ := c.OpenWithStore(s)
			return db
		}},
	}
}

type huntC15Outcome struct {
	failed bool // the operation under test returned an error
	count  int  // number of documents in the collection afterwards
}

// huntC15Compare runs the same history on every backend and requires identical outcomes
// ("... counts ... and errors (the same sentinel error, or an error in both)").
func huntC15Compare(t *testing.T, history func(db *c.DB) error) {
	bs := huntC15Backends()
	outcomes := make([]huntC15Outcome, len(bs))
	for i, b := range bs {
		db := b.open(t)
		err := history(db)
		n, cerr := db.Count(query.NewQuery("x"))
		if cerr != nil {
			t.Fatalf("%s: count: %v", b.name, cerr)
		}
		outcomes[i] = huntC15Outcome{failed: err != nil, count: n}
		msg := "<nil>"
		if err != nil {
			msg = err.Error()
			if len(msg) > 80 {
				msg = msg[:80] + "..."
			}
		}
		t.Logf("%-12s error=%q count=%d", b.name, msg, n)
		db.Close()
	}
	for i := 1; i < len(bs); i++ {
		if outcomes[i] != outcomes[0] {
			t.Errorf("backends diverge: %s gives %+v, %s gives %+v", bs[0].name, outcomes[0], bs[i].name, outcomes[i])
		}
	}
}

// An indexed string of 40000 bytes: bbolt refuses the index key (MaxKeySize 32768) and the
// insert fails, badger (limit 65000) accepts it.
func TestHuntC15_IndexedLongString(t *testing.T) {
	huntC15Compare(t, func(db *c.DB) error {
		if err := db.CreateCollection("x"); err != nil {
			t.Fatal(err)
		}
		if err := db.CreateIndex("x", "f"); err != nil {
			t.Fatal(err)
		}
		doc := d.NewDocument()
		doc.Set("f", strings.Repeat("a", 40000))
		return db.Insert("x", doc)
	})
}

// One Insert call with 12 documents of ~900KB each (10.8MB in a single transaction): bbolt
// commits it, both badger variants fail with ErrTxnTooBig and insert nothing.
func TestHuntC15_LargeBatchInsert(t *testing.T) {
	huntC15Compare(t, func(db *c.DB) error {
		if err := db.CreateCollection("x"); err != nil {
			t.Fatal(err)
		}
		docs := make([]*d.Document, 0)
		for i := 0; i < 12; i++ {
			doc := d.NewDocument()
			doc.Set("f", strings.Repeat("a", 900000))
			docs = append(docs, doc)
		}
		return db.Insert("x", docs...)
	})
}

// A single document of 1.1MB: accepted by bbolt and by badger on disk, refused by badger in
// memory ("Value with size ... exceeded 1048576 limit").
func TestHuntC15_InMemoryLargeDocument(t *testing.T) {
	huntC15Compare(t, func(db *c.DB) error {
		if err := db.CreateCollection("x"); err != nil {
			t.Fatal(err)
		}
		doc := d.NewDocument()
		doc.Set("f", strings.Repeat("a", 1100000))
		return db.Insert("x", doc)
	})
}

// Opening a database on a directory which does not exist yet: clover.Open (bbolt) fails,
// although its documentation promises to create the folder, the badger store creates it.
func TestHuntC15_OpenMissingDirectory(t *testing.T) {
	base := t.TempDir()

	bboltDB, bboltErr := c.Open(filepath.Join(base, "bbolt-db"))
	if bboltDB != nil && bboltErr == nil {
		defer bboltDB.Close()
	}

	badgerStore, badgerErr := badgerstore.OpenWithOptions(badgerdb.DefaultOptions(filepath.Join(base, "badger-db")).WithLogger(nil))
	if badgerErr == nil {
		defer badgerStore.Close()
	}

	t.Logf("bbolt: %v, badger: %v", bboltErr, badgerErr)
	if (bboltErr != nil) != (badgerErr != nil) {
		t.Errorf("backends diverge when the directory is missing: bbolt error = %v, badger error = %v", bboltErr, badgerErr)
	}
}

// A write issued from the consumer of ForEach (still a single-threaded history): badger
// completes it, bbolt blocks forever (the read transaction of ForEach holds the mmap lock the
// nested commit needs to grow the file).
func TestHuntC15_InsertInsideForEach(t *testing.T) {
	bs := huntC15Backends()
	results := make([]string, len(bs))
	for i, b := range bs {
		db := b.open(t)
		if err := db.CreateCollection("x"); err != nil {
			t.Fatal(err)
		}
		first := d.NewDocument()
		first.Set("f", 1)
		if err := db.Insert("x", first); err != nil {
			t.Fatal(err)
		}

		done := make(chan error, 1)
		go func() {
			var insertErr error
			err := db.ForEach(query.NewQuery("x"), func(_ *d.Document) bool {
				doc := d.NewDocument()
				doc.Set("g", strings.Repeat("a", 200000))
				insertErr = db.Insert("x", doc)
				return true
			})
			if err == nil {
				err = insertErr
			}
			done <- err
		}()

		select {
		case err := <-done:
			if err != nil {
				results[i] = "error"
			} else {
				n, _ := db.Count(query.NewQuery("x"))
				results[i] = "ok, count=" + string(rune('0'+n))
			}
			db.Close()
		case <-time.After(5 * time.Second):
			results[i] = "never returns"
		}
		t.Logf("%-12s %s", b.name, results[i])
	}
	for i := 1; i < len(bs); i++ {
		if results[i] != results[0] {
			t.Errorf("backends diverge: %s: %s, %s: %s", bs[0].name, results[0], bs[i].name, results[i])
		}
	}
}
