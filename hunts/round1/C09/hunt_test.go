// place in: .
package clover_test

// Hunt for violations of property C09:
// "Count, Exists, FindFirst, ForEach and FindById agree with FindAll".
// Every test below fails (or panics) on the unmodified library.

import (
	"math"
	"os"
	"testing"

	"github.com/stretchr/testify/require"

	c "github.com/ostafen/clover/v2"
	d "github.com/ostafen/clover/v2/document"
	q "github.com/ostafen/clover/v2/query"
)

func huntOpenC09(t *testing.T) *c.DB {
	dir, err := os.MkdirTemp("", "hunt-c09")
	require.NoError(t, err)
	db, err := c.Open(dir)
	require.NoError(t, err)
	t.Cleanup(func() {
		db.Close()
		os.RemoveAll(dir)
	})
	return db
}

// Sentence: "Count(q) equals the length of FindAll(q)".
//
// document.Validate accepts every textual form uuid.FromString accepts, among them the
// 32-digit form without dashes. The range index appends the id to its keys and, when
// scanning, cuts the id back out as "the last 36 bytes" (index.extractDocId). For a 32-byte id
// the scan therefore looks up a garbage id and silently drops the document. A criteria-less
// query sorted by the indexed field is answered by FindAll through that scan, and by Count
// through the stored Size counter.
func TestHuntC09_CountVsFindAll_ShortUuidSortedByIndex(t *testing.T) {
	db := huntOpenC09(t)
	require.NoError(t, db.CreateCollection("c"))
	require.NoError(t, db.CreateIndex("c", "n"))

	doc := d.NewDocument()
	doc.Set("_id", "0123456789abcdef0123456789abcdef") // valid UUID, hash-like form
	doc.Set("n", 1)
	require.NoError(t, db.Insert("c", doc))

	query := q.NewQuery("c").Sort(q.SortOption{Field: "n", Direction: 1})

	n, err := db.Count(query)
	require.NoError(t, err)
	docs, err := db.FindAll(query)
	require.NoError(t, err)
	require.Equal(t, len(docs), n, "Count(q) must equal len(FindAll(q))")
}

// Sentence: "Count(q) equals the length of FindAll(q)".
//
// The documents of collection X live under the key prefix "c:X;d:". The documents of a
// collection named "a;d:b" therefore live under "c:a;d:b;d:", which is inside the prefix of
// collection "a": FindAll on "a" returns them, while Count on "a" reads the Size counter of "a".
func TestHuntC09_CountVsFindAll_CollectionNameInsideDocPrefix(t *testing.T) {
	db := huntOpenC09(t)
	require.NoError(t, db.CreateCollection("a"))
	require.NoError(t, db.CreateCollection("a;d:b"))

	doc := d.NewDocument()
	doc.Set("x", 1)
	require.NoError(t, db.Insert("a;d:b", doc))

	query := q.NewQuery("a")
	n, err := db.Count(query)
	require.NoError(t, err)
	docs, err := db.FindAll(query)
	require.NoError(t, err)
	require.Equal(t, len(docs), n, "Count(q) must equal len(FindAll(q))")
}

// Sentence: "FindById(c, id) returns the document iff it is live".
//
// Same key layout as above, seen from the point lookup: collection "a" is empty as far as its
// own history goes (nothing was ever inserted into it) and no document anywhere has the id
// "b;d:<uuid>", yet FindById("a", "b;d:<uuid>") returns a document (the one of "a;d:b").
func TestHuntC09_FindById_ReturnsDocumentOfOtherCollection(t *testing.T) {
	db := huntOpenC09(t)
	require.NoError(t, db.CreateCollection("a"))
	require.NoError(t, db.CreateCollection("a;d:b"))

	const id = "11111111-2222-3333-4444-555555555555"
	doc := d.NewDocument()
	doc.Set("_id", id)
	require.NoError(t, db.Insert("a;d:b", doc))

	lookup := "b;d:" + id

	// liveness of `lookup` in "a", as defined by FindAll
	all, err := db.FindAll(q.NewQuery("a"))
	require.NoError(t, err)
	live := false
	for _, doc := range all {
		if doc.ObjectId() == lookup {
			live = true
		}
	}
	require.False(t, live)

	found, err := db.FindById("a", lookup)
	require.NoError(t, err)
	require.Nil(t, found, "FindById must return nil for an id which is not live in the collection")
}

// Sentence: "Count(q) equals the length of FindAll(q)".
//
// NaN is a float64 like any other for Document.Set and Insert. internal.compareNumbers feeds
// it to big.NewFloat, which panics: FindAll of a sorted criteria-less query panics while Count
// of the same query (answered from the Size counter) returns 2.
func TestHuntC09_CountVsFindAll_NaNSortPanics(t *testing.T) {
	db := huntOpenC09(t)
	require.NoError(t, db.CreateCollection("c"))

	d1 := d.NewDocument()
	d1.Set("f", math.NaN())
	d2 := d.NewDocument()
	d2.Set("f", 1.5)
	require.NoError(t, db.Insert("c", d1, d2))

	query := q.NewQuery("c").Sort(q.SortOption{Field: "f", Direction: 1})

	n, err := db.Count(query)
	require.NoError(t, err)
	require.Equal(t, 2, n)

	docs, err := db.FindAll(query) // panics: NewFloat(NaN)
	require.NoError(t, err)
	require.Equal(t, n, len(docs), "Count(q) must equal len(FindAll(q))")
}

// Sentence: "Count(q) equals the length of FindAll(q)".
//
// A []byte value is kept as it is by internal.Normalize and stored as msgpack bin.
// internal.Compare classifies it as a "slice" but then asserts []interface{} and finally
// map[string]interface{}: sorting two such documents panics in FindAll, while Count returns 2.
func TestHuntC09_CountVsFindAll_BytesSortPanics(t *testing.T) {
	db := huntOpenC09(t)
	require.NoError(t, db.CreateCollection("c"))

	d1 := d.NewDocument()
	d1.Set("f", []byte("a"))
	d2 := d.NewDocument()
	d2.Set("f", []byte("b"))
	require.NoError(t, db.Insert("c", d1, d2))

	query := q.NewQuery("c").Sort(q.SortOption{Field: "f", Direction: 1})

	n, err := db.Count(query)
	require.NoError(t, err)
	require.Equal(t, 2, n)

	docs, err := db.FindAll(query) // panics: interface conversion
	require.NoError(t, err)
	require.Equal(t, n, len(docs), "Count(q) must equal len(FindAll(q))")
}
