// place in: .
package clover_test

// Each test builds twin collections "plain" and "idx" holding exactly the same
// documents (same _id, same fields) and differing only in their indexes, then
// runs the same query on both. Property C02 (index transparency) says the two
// must select the same documents and, under a sort, the same sequence of
// sort-key values.

import (
	"fmt"
	"sort"
	"strings"
	"testing"
	"time"

	c "github.com/ostafen/clover/v2"
	d "github.com/ostafen/clover/v2/document"
	q "github.com/ostafen/clover/v2/query"
)

func huntOpen(t *testing.T) *c.DB {
	db, err := c.Open(t.TempDir()) // bbolt
	if err != nil {
		t.Fatal(err)
	}
	t.Cleanup(func() { db.Close() })
	for _, coll := range []string{"plain", "idx"} {
		if err := db.CreateCollection(coll); err != nil {
			t.Fatal(err)
		}
	}
	return db
}

// huntInsertBoth writes the same documents (with the given ids) in both collections.
func huntInsertBoth(t *testing.T, db *c.DB, docs ...map[string]interface{}) {
	for _, coll := range []string{"plain", "idx"} {
		for _, m := range docs {
			doc := d.NewDocumentOf(m)
			if doc == nil {
				t.Fatalf("cannot build a document from %v", m)
			}
			if err := db.Insert(coll, doc); err != nil {
				t.Fatalf("insert %v in %s: %v", m, coll, err)
			}
		}
	}
}

func huntIds(docs []*d.Document) string {
	ids := make([]string, 0, len(docs))
	for _, doc := range docs {
		ids = append(ids, doc.ObjectId())
	}
	sort.Strings(ids)
	return strings.Join(ids, ",")
}

func huntSeq(docs []*d.Document, field string) string {
	s := make([]string, 0, len(docs))
	for _, doc := range docs {
		s = append(s, fmt.Sprintf("%v", doc.Get(field)))
	}
	return strings.Join(s, ",")
}

func huntFind(t *testing.T, db *c.DB, query *q.Query) []*d.Document {
	docs, err := db.FindAll(query)
	if err != nil {
		t.Fatalf("FindAll: %v", err)
	}
	return docs
}

const (
	huntId1 = "00000000-0000-4000-8000-000000000001"
	huntId2 = "00000000-0000-4000-8000-000000000002"
)

// Integers above 2^53 are compared exactly by the filter, but the index stores every
// number as a float64: 2^53+1 gets the same key as 2^53, so an exclusive bound on 2^53
// skips it. Sentence: "FindAll, Count ... with any criteria ... select the same documents
// ... whether the collection has no index [or] an index on a filtered field".
func TestHuntIndexRangeDropsIntegerAbove2Pow53(t *testing.T) {
	db := huntOpen(t)
	huntInsertBoth(t, db,
		map[string]interface{}{"_id": huntId1, "a": int64(1<<53 + 1)},
		map[string]interface{}{"_id": huntId2, "a": int64(1 << 53)},
	)
	if err := db.CreateIndex("idx", "a"); err != nil {
		t.Fatal(err)
	}

	crit := q.Field("a").Gt(int64(1 << 53))
	plain := huntFind(t, db, q.NewQuery("plain").Where(crit))
	idx := huntFind(t, db, q.NewQuery("idx").Where(crit))
	if huntIds(plain) != huntIds(idx) {
		t.Errorf("a > 2^53: without index %d document(s) [%s], with an index on a %d document(s) [%s]",
			len(plain), huntSeq(plain, "a"), len(idx), huntSeq(idx, "a"))
	}

	// same cause, seen through the sort: the index orders the two numbers by document id
	opt := q.SortOption{Field: "a", Direction: 1}
	plain = huntFind(t, db, q.NewQuery("plain").Sort(opt))
	idx = huntFind(t, db, q.NewQuery("idx").Sort(opt))
	if huntSeq(plain, "a") != huntSeq(idx, "a") {
		t.Errorf("sort by a ascending: without index %s, with an index on a %s", huntSeq(plain, "a"), huntSeq(idx, "a"))
	}
}

// A time before 1970 is a legal field value, compared with Before/After by the filter and the
// sort; the index encodes it as uint64(UnixNano()), which wraps negative instants to the top of
// the key space. Sentences: "select the same documents" and "the same sequence of sort-key values".
func TestHuntIndexTimeBeforeEpoch(t *testing.T) {
	db := huntOpen(t)
	t1960 := time.Date(1960, 1, 1, 0, 0, 0, 0, time.UTC)
	t2000 := time.Date(2000, 1, 1, 0, 0, 0, 0, time.UTC)
	huntInsertBoth(t, db,
		map[string]interface{}{"_id": huntId1, "when": t1960},
		map[string]interface{}{"_id": huntId2, "when": t2000},
	)
	if err := db.CreateIndex("idx", "when"); err != nil {
		t.Fatal(err)
	}

	crit := q.Field("when").Lt(time.Date(1980, 1, 1, 0, 0, 0, 0, time.UTC))
	plain := huntFind(t, db, q.NewQuery("plain").Where(crit))
	idx := huntFind(t, db, q.NewQuery("idx").Where(crit))
	if huntIds(plain) != huntIds(idx) {
		t.Errorf("when < 1980: without index %d document(s) [%s], with an index on when %d document(s) [%s]",
			len(plain), huntSeq(plain, "when"), len(idx), huntSeq(idx, "when"))
	}

	opt := q.SortOption{Field: "when", Direction: 1}
	plain = huntFind(t, db, q.NewQuery("plain").Sort(opt))
	idx = huntFind(t, db, q.NewQuery("idx").Sort(opt))
	if huntSeq(plain, "when") != huntSeq(idx, "when") {
		t.Errorf("sort by when ascending:\n without index: %s\n with index:    %s", huntSeq(plain, "when"), huntSeq(idx, "when"))
	}
}

// document.Validate accepts every textual form of a UUID as _id (32 hex digits, {..}, urn:uuid:..),
// but the index recovers the document id as "the last 36 bytes of the key". A document whose id is
// not 36 bytes long can never be reached through an index.
// Sentence: "select the same documents whether the collection has no index [or] an index on a filtered field".
func TestHuntIndexLosesDocumentWithShortFormId(t *testing.T) {
	db := huntOpen(t)
	huntInsertBoth(t, db,
		map[string]interface{}{"_id": "6ba7b8109dad11d180b400c04fd430c8", "a": int64(1)}, // valid UUID, hash-like form
		map[string]interface{}{"_id": huntId2, "a": int64(1)},
	)
	if err := db.CreateIndex("idx", "a"); err != nil {
		t.Fatal(err)
	}

	crit := q.Field("a").Eq(int64(1))
	plain := huntFind(t, db, q.NewQuery("plain").Where(crit))
	idx := huntFind(t, db, q.NewQuery("idx").Where(crit))
	if huntIds(plain) != huntIds(idx) {
		t.Errorf("a == 1: without index [%s], with an index on a [%s]", huntIds(plain), huntIds(idx))
	}

	np, _ := db.Count(q.NewQuery("plain").Where(crit))
	nx, _ := db.Count(q.NewQuery("idx").Where(crit))
	if np != nx {
		t.Errorf("Count(a == 1): without index %d, with an index on a %d", np, nx)
	}
}

// Two indexed field names, one a prefix of the other ("a" and "a;b"): the keys of the index on "a"
// start with "c:idx;i:a;", and so do all the keys of the index on "a;b" ("c:idx;i:a;b;t:..").
// A scan of the index on "a" therefore also walks the entries of the other index and delivers
// every document twice. Sentence: "select the same documents ... [with] an index on the sort field,
// or on unrelated fields"; quantifier: "names that are prefixes of each other".
func TestHuntIndexFieldNamePrefixWithSemicolon(t *testing.T) {
	db := huntOpen(t)
	huntInsertBoth(t, db,
		map[string]interface{}{"_id": huntId1, "a": int64(1), "a;b": int64(10)},
		map[string]interface{}{"_id": huntId2, "a": int64(2), "a;b": int64(20)},
	)
	for _, field := range []string{"a", "a;b"} {
		if err := db.CreateIndex("idx", field); err != nil {
			t.Fatal(err)
		}
	}

	opt := q.SortOption{Field: "a", Direction: 1}
	plain := huntFind(t, db, q.NewQuery("plain").Sort(opt))
	idx := huntFind(t, db, q.NewQuery("idx").Sort(opt))
	if huntSeq(plain, "a") != huntSeq(idx, "a") {
		t.Errorf("sort by a: without index %d document(s) [%s], with indexes on a and a;b %d document(s) [%s]",
			len(plain), huntSeq(plain, "a"), len(idx), huntSeq(idx, "a"))
	}

	crit := q.Field("a").Lt(int64(100))
	np, _ := db.Count(q.NewQuery("plain").Where(crit))
	nx, _ := db.Count(q.NewQuery("idx").Where(crit))
	if np != nx {
		t.Errorf("Count(a < 100): without index %d, with indexes on a and a;b %d", np, nx)
	}
}

// The sort puts a document lacking the sort field before one holding an explicit nil
// (compareDocuments); the index files both under the same nil key and orders them by document id.
// With Limit(1) a different document is selected. Sentence: "FindAll ... with any criteria, sort,
// skip and limit select the same documents".
func TestHuntIndexSortMissingVersusNil(t *testing.T) {
	db := huntOpen(t)
	huntInsertBoth(t, db,
		map[string]interface{}{"_id": huntId1, "a": nil}, // explicit nil, smaller id
		map[string]interface{}{"_id": huntId2},           // field missing
	)
	if err := db.CreateIndex("idx", "a"); err != nil {
		t.Fatal(err)
	}

	opt := q.SortOption{Field: "a", Direction: 1}
	plain := huntFind(t, db, q.NewQuery("plain").Sort(opt).Limit(1))
	idx := huntFind(t, db, q.NewQuery("idx").Sort(opt).Limit(1))
	if huntIds(plain) != huntIds(idx) {
		t.Errorf("sort by a, limit 1: without index selects %s (has a: %v), with an index on a selects %s (has a: %v)",
			huntIds(plain), plain[0].Has("a"), huntIds(idx), idx[0].Has("a"))
	}
}

// Without a sort, Limit/Skip cut the result in iteration order, and that order is the document id
// order without index but the indexed value order when the planner picks an index for the criteria:
// Delete(...Limit(1)) removes a different document. Sentence: "FindAll, Count, Update and Delete with
// any criteria, sort, skip and limit select the same documents".
func TestHuntIndexChangesDocumentsSelectedByLimit(t *testing.T) {
	db := huntOpen(t)
	huntInsertBoth(t, db,
		map[string]interface{}{"_id": huntId1, "a": int64(2)},
		map[string]interface{}{"_id": huntId2, "a": int64(1)},
	)
	if err := db.CreateIndex("idx", "a"); err != nil {
		t.Fatal(err)
	}

	crit := q.Field("a").Gt(int64(0))
	for _, coll := range []string{"plain", "idx"} {
		if err := db.Delete(q.NewQuery(coll).Where(crit).Limit(1)); err != nil {
			t.Fatal(err)
		}
	}
	plain := huntFind(t, db, q.NewQuery("plain"))
	idx := huntFind(t, db, q.NewQuery("idx"))
	if huntIds(plain) != huntIds(idx) {
		t.Errorf("after Delete(a > 0, limit 1): the collection without index keeps [%s], the one with an index on a keeps [%s]",
			huntIds(plain), huntIds(idx))
	}
}
