// place in: .
package clover_test

// Hunt for property C14: "Index catalog is exact and indexes are independent of each other".
//
// All three tests share one root cause: the index catalog is kept in the collection
// metadata, which is serialised with encoding/json (db.go: saveCollectionMetadata).
// json.Marshal silently replaces every byte sequence that is not valid UTF-8 with
// U+FFFD, so a field name such as "k\xff" (free of the reserved ';' separator, and a
// perfectly storable document key, since documents are serialised with msgpack) is
// recorded in the catalog under the name of ANOTHER field, "k\ufffd".

import (
	"testing"

	c "github.com/ostafen/clover/v2"
	d "github.com/ostafen/clover/v2/document"
	q "github.com/ostafen/clover/v2/query"
	"github.com/stretchr/testify/require"
)

// Sentence 1: "HasIndex and ListIndexes report exactly the indexes created and not
// dropped on a collection; creating an existing one fails with ErrIndexExist".
func TestHuntCatalogLosesIndexOnNonUTF8FieldName(t *testing.T) {
	runCloverTest(t, func(t *testing.T, db *c.DB) {
		const field = "k\xff"

		require.NoError(t, db.CreateCollection("c"))
		require.NoError(t, db.CreateIndex("c", field))

		has, err := db.HasIndex("c", field)
		require.NoError(t, err)
		require.True(t, has, "HasIndex must report the index that was just created")

		indexes, err := db.ListIndexes("c")
		require.NoError(t, err)
		require.Len(t, indexes, 1)
		require.Equal(t, field, indexes[0].Field, "ListIndexes must report exactly the created index")

		require.Equal(t, c.ErrIndexExist, db.CreateIndex("c", field), "creating an existing index must fail")
		require.NoError(t, db.DropIndex("c", field), "an existing index can be dropped")
	})
}

// Sentence 2: "Creating ... the index on one field never affects the existence of ...
// the index on another field".
func TestHuntCreatingIndexMakesSiblingIndexExist(t *testing.T) {
	runCloverTest(t, func(t *testing.T, db *c.DB) {
		const created = "k\xff"   // the only index ever created
		const sibling = "k\ufffd" // a different (valid UTF-8) field name, never indexed

		require.NoError(t, db.CreateCollection("c"))
		require.NoError(t, db.CreateIndex("c", created))

		has, err := db.HasIndex("c", sibling)
		require.NoError(t, err)
		require.False(t, has, "no index was ever created on the sibling field")

		require.NoError(t, db.CreateIndex("c", sibling), "the sibling index does not exist yet: creating it must succeed")
	})
}

// Sentence 2: "Creating ... the index on one field never affects ... the results obtained
// through the index on another field".
func TestHuntCreatingIndexCorruptsQueriesOnSiblingField(t *testing.T) {
	runCloverTest(t, func(t *testing.T, db *c.DB) {
		const created = "k\xff"
		const sibling = "k\ufffd"

		require.NoError(t, db.CreateCollection("c"))

		doc := d.NewDocument()
		doc.Set(sibling, 1)
		require.NoError(t, db.Insert("c", doc))

		query := q.NewQuery("c").Where(q.Field(sibling).Gt(0))

		n, err := db.Count(query)
		require.NoError(t, err)
		require.Equal(t, 1, n)

		// creating an index on a different field must not change the outcome of the query
		require.NoError(t, db.CreateIndex("c", created))

		n, err = db.Count(query)
		require.NoError(t, err)
		require.Equal(t, 1, n, "the document still has %q = 1", sibling)
	})
}
