// place in: .
package clover_test

import (
	"reflect"
	"testing"
	"time"

	c "github.com/ostafen/clover/v2"
	d "github.com/ostafen/clover/v2/document"
)

func huntOpenC11(t *testing.T) *c.DB {
	db, err := c.Open(t.TempDir())
	if err != nil {
		t.Fatal(err)
	}
	t.Cleanup(func() { db.Close() })
	if err := db.CreateCollection("c"); err != nil {
		t.Fatal(err)
	}
	return db
}

// Property C11: "Times denote the same instant and zone offset wherever they
// occur, including inside arrays and inside objects nested in arrays", for
// "times with arbitrary locations".
//
// A time whose zone offset is negative and not a whole number of minutes
// (e.g. the local mean time of every zone west of Greenwich, such as
// America/New_York before 1883: -4:56:02) is read back with a different zone
// offset (here -4:51:46): the seconds part of the offset comes back as +256-s.
func TestHuntC11TimeNegativeSubMinuteOffset(t *testing.T) {
	db := huntOpenC11(t)

	const offset = -(4*3600 + 56*60 + 2) // LMT of New York
	written := time.Date(1800, 1, 1, 0, 0, 0, 123456789, time.FixedZone("LMT", offset))

	doc := d.NewDocument()
	doc.Set("top", written)
	doc.Set("list", []interface{}{map[string]interface{}{"t": written}})

	id, err := db.InsertOne("c", doc)
	if err != nil {
		t.Fatal(err)
	}

	got, err := db.FindById("c", id)
	if err != nil || got == nil {
		t.Fatalf("FindById: %v, %v", got, err)
	}

	check := func(where string, v interface{}) {
		read, ok := v.(time.Time)
		if !ok {
			t.Fatalf("%s: read back %T, want time.Time", where, v)
		}
		if !read.Equal(written) {
			t.Errorf("%s: instant changed: wrote %v, read %v", where, written, read)
		}
		if _, readOffset := read.Zone(); readOffset != offset {
			t.Errorf("%s: zone offset changed: wrote %d s (%v), read %d s (%v)", where, offset, written, readOffset, read)
		}
	}
	check("top", got.Get("top"))
	check("list[0].t", got.Get("list").([]interface{})[0].(map[string]interface{})["t"])
}

// Property C11: "A document read back from the database [...] is deeply equal
// to the normalised document that was written: the same field set [...], the
// same Go types (... nil, map, slice) and the same values."
//
// Normalisation keeps a []byte value as it is, so an unset []byte field of a
// struct is normalised to a nil []byte (a slice); it is read back as an
// untyped nil.
func TestHuntC11NilByteSliceReadBackAsNil(t *testing.T) {
	db := huntOpenC11(t)

	type attachment struct {
		Name string
		Data []byte
	}

	written := d.NewDocumentOf(&attachment{Name: "empty"})
	if _, isBytes := written.Get("Data").([]byte); !isBytes {
		t.Fatalf("normalised Data is %T, expected []byte", written.Get("Data"))
	}

	id, err := db.InsertOne("c", written)
	if err != nil {
		t.Fatal(err)
	}

	got, err := db.FindById("c", id)
	if err != nil || got == nil {
		t.Fatalf("FindById: %v, %v", got, err)
	}

	if wt, rt := reflect.TypeOf(written.Get("Data")), reflect.TypeOf(got.Get("Data")); wt != rt {
		t.Errorf("type of Data changed: wrote %v, read %v", wt, rt)
	}
	if !reflect.DeepEqual(written.ToMap(), got.ToMap()) {
		t.Errorf("document changed:\nwrote %#v\nread  %#v", written.ToMap(), got.ToMap())
	}
}
