// place in: .
package clover_test

import (
	"os"
	"sync"
	"testing"
	"time"

	c "github.com/ostafen/clover/v2"
	d "github.com/ostafen/clover/v2/document"
	q "github.com/ostafen/clover/v2/query"
	badgerstore "github.com/ostafen/clover/v2/store/badger"
)

// Property C07, first sentence: "every operation takes effect atomically at some instant
// between its call and its return, so that all observed results are explainable by one
// sequential order consistent with real time".
//
// History (badger backend, collection "c" with an index on "x", documents A{x:5}, B{x:7} and
// a bystander C{x:6} that neither operation selects nor modifies):
//
//	G1: UpdateFunc(x == 5, set x = 7)       G2: UpdateFunc(x == 7, set x = 5)
//
// The two calls overlap in time, so both sequential orders are admissible:
//
//	G1;G2 : A 5->7, then G2 selects {A,B}           => A.x = 5, B.x = 5
//	G2;G1 : B 7->5, then G1 selects {A,B}           => A.x = 7, B.x = 7
//
// and an operation that fails with a conflict must have no effect (=> one of the two
// single-operation outcomes A=7,B=7 / A=5,B=5 again, or the initial state if both fail).
// In every admissible outcome in which both calls return nil, A.x == B.x.
//
// The interleaving is forced through the updater callbacks (both queries are evaluated
// before either transaction commits): it is one of the schedules the property quantifies over.
func TestHuntBadgerIndexedBulkUpdatesWriteSkew(t *testing.T) {
	dir, err := os.MkdirTemp("", "clover-hunt")
	if err != nil {
		t.Fatal(err)
	}
	defer os.RemoveAll(dir)

	store, err := badgerstore.Open(dir)
	if err != nil {
		t.Fatal(err)
	}
	db, err := c.OpenWithStore(store)
	if err != nil {
		t.Fatal(err)
	}
	defer db.Close()

	if err := db.CreateCollection("c"); err != nil {
		t.Fatal(err)
	}
	if err := db.CreateIndex("c", "x"); err != nil {
		t.Fatal(err)
	}

	docA := d.NewDocument()
	docA.Set("x", 5)
	docB := d.NewDocument()
	docB.Set("x", 7)
	docC := d.NewDocument()
	docC.Set("x", 6)
	if err := db.Insert("c", docA, docB, docC); err != nil {
		t.Fatal(err)
	}
	idA, idB := docA.ObjectId(), docB.ObjectId()

	// barrier: each updater waits until the other goroutine has evaluated its query too
	var barrier sync.WaitGroup
	barrier.Add(2)
	rendezvous := func() {
		barrier.Done()
		done := make(chan struct{})
		go func() { barrier.Wait(); close(done) }()
		select {
		case <-done:
		case <-time.After(5 * time.Second): // the other query selected nothing: no rendezvous needed
		}
	}

	setX := func(from, to int, selected *[]string) error {
		first := true
		return db.UpdateFunc(q.NewQuery("c").Where(q.Field("x").Eq(from)), func(doc *d.Document) *d.Document {
			if first {
				first = false
				rendezvous()
			}
			*selected = append(*selected, doc.ObjectId())
			newDoc := doc.Copy()
			newDoc.Set("x", to)
			return newDoc
		})
	}

	var wg sync.WaitGroup
	var err1, err2 error
	var sel1, sel2 []string
	wg.Add(2)
	go func() { defer wg.Done(); err1 = setX(5, 7, &sel1) }()
	go func() { defer wg.Done(); err2 = setX(7, 5, &sel2) }()
	wg.Wait()

	a, err := db.FindById("c", idA)
	if err != nil || a == nil {
		t.Fatalf("A: %v %v", a, err)
	}
	b, err := db.FindById("c", idB)
	if err != nil || b == nil {
		t.Fatalf("B: %v %v", b, err)
	}
	t.Logf("G1 UpdateFunc(x==5 -> 7): err=%v selected=%d; G2 UpdateFunc(x==7 -> 5): err=%v selected=%d", err1, len(sel1), err2, len(sel2))
	t.Logf("final state: A.x=%v B.x=%v", a.Get("x"), b.Get("x"))

	if err1 == nil && err2 == nil && a.Get("x") != b.Get("x") {
		t.Fatalf("both bulk updates returned nil, but the final state A.x=%v, B.x=%v is produced by neither "+
			"sequential order (G1;G2 gives 5,5 and G2;G1 gives 7,7): write skew, no conflict was reported",
			a.Get("x"), b.Get("x"))
	}
}
