// place in: .
package clover_test

import (
	"errors"
	"os"
	"testing"

	c "github.com/ostafen/clover/v2"
	q "github.com/ostafen/clover/v2/query"
	"github.com/ostafen/clover/v2/store"
	badgerstore "github.com/ostafen/clover/v2/store/badger"
	"github.com/ostafen/clover/v2/store/bbolt"
)

// Property C13, second sentence: "any document, index or query operation on a
// missing collection fails with ErrCollectionNotExist, [...] without side effects".
//
// CreateCollectionByQuery(name, q) evaluates q, a query operation. When q targets
// a collection that does not exist the call must fail with ErrCollectionNotExist
// and must leave the catalog untouched. It does so for every missing source
// collection except one: when the (missing) source collection is the very name
// being created, the target is created first, inside the same transaction, so the
// query finds "its" collection, matches nothing, and the call succeeds, leaving a
// brand new empty collection in the catalog.
func TestHuntCreateCollectionByQueryOnMissingSelf(t *testing.T) {
	backends := map[string]func(string) (store.Store, error){
		"bbolt":  bbolt.Open,
		"badger": badgerstore.Open,
	}
	for name, open := range backends {
		t.Run(name, func(t *testing.T) {
			dir, err := os.MkdirTemp("", "hunt-c13")
			if err != nil {
				t.Fatal(err)
			}
			defer os.RemoveAll(dir)

			s, err := open(dir)
			if err != nil {
				t.Fatal(err)
			}
			db, err := c.OpenWithStore(s)
			if err != nil {
				t.Fatal(err)
			}
			defer db.Close()

			// control: a query on a missing collection other than the target is refused
			err = db.CreateCollectionByQuery("target", q.NewQuery("ghost"))
			if !errors.Is(err, c.ErrCollectionNotExist) {
				t.Fatalf("control: expected ErrCollectionNotExist, got %v", err)
			}

			// "ghost" has never been created: the query below is a query on a missing collection
			has, err := db.HasCollection("ghost")
			if err != nil || has {
				t.Fatalf("precondition: HasCollection(ghost) = %v, %v", has, err)
			}

			err = db.CreateCollectionByQuery("ghost", q.NewQuery("ghost"))
			if !errors.Is(err, c.ErrCollectionNotExist) {
				t.Errorf("query on the missing collection \"ghost\": expected ErrCollectionNotExist, got %v", err)
			}

			names, lerr := db.ListCollections()
			if lerr != nil {
				t.Fatal(lerr)
			}
			if len(names) != 0 {
				t.Errorf("a query on a missing collection had a side effect: ListCollections = %q, expected none", names)
			}
		})
	}
}
