// place in: .
package clover_test

// Property C20: "every public operation returns normally with a result or an
// error. It never panics and never blocks forever."
//
// Every test below performs ONE public call on well-typed, non-nil arguments,
// outside any clover callback, and fails if that call panics (or, for the Open
// test, does not return before a deadline).

import (
	"fmt"
	"math"
	"os"
	"path/filepath"
	"runtime/debug"
	"strings"
	"testing"
	"time"

	c "github.com/ostafen/clover/v2"
	d "github.com/ostafen/clover/v2/document"
	q "github.com/ostafen/clover/v2/query"
)

// huntCall runs f and reports the panic it raised, if any.
func huntCall(f func()) (panicked interface{}, stack string) {
	defer func() {
		if r := recover(); r != nil {
			panicked = r
			lines := strings.Split(string(debug.Stack()), "\n")
			if len(lines) > 24 {
				lines = lines[:24]
			}
			stack = strings.Join(lines, "\n")
		}
	}()
	f()
	return nil, ""
}

func huntOpen(t *testing.T) *c.DB {
	db, err := c.Open(t.TempDir()) // bbolt backend
	if err != nil {
		t.Fatal(err)
	}
	t.Cleanup(func() { db.Close() })
	return db
}

func huntDoc(fields map[string]interface{}) *d.Document {
	doc := d.NewDocument()
	doc.SetAll(fields)
	return doc
}

// DB.IterateDocs is a public query entry point. Unlike FindAll/ForEach/Count it does
// not normalize the criteria operands, and the index path (Range.IsEmpty,
// rangeIndex.getKey) assumes int64/uint64/float64: a plain Go int operand on an
// indexed field panics, while the very same call on a non indexed field works.
func TestHuntIterateDocsIntOperandOnIndexedField(t *testing.T) {
	db := huntOpen(t)
	if err := db.CreateCollection("c"); err != nil {
		t.Fatal(err)
	}
	if err := db.Insert("c", huntDoc(map[string]interface{}{"x": 5})); err != nil {
		t.Fatal(err)
	}
	consumer := func(doc *d.Document) error { return nil }

	// no index: fine
	if p, _ := huntCall(func() { _ = db.IterateDocs(q.NewQuery("c").Where(q.Field("x").Eq(5)), consumer) }); p != nil {
		t.Fatalf("unexpected panic without index: %v", p)
	}

	if err := db.CreateIndex("c", "x"); err != nil {
		t.Fatal(err)
	}

	for _, criteria := range []q.Criteria{q.Field("x").Eq(5), q.Field("x").Gt(3)} {
		p, stack := huntCall(func() {
			_ = db.IterateDocs(q.NewQuery("c").Where(criteria), consumer)
		})
		if p != nil {
			t.Errorf("C20 violated: IterateDocs panicked on an int operand over an indexed field: %v\n%s", p, stack)
		}
	}
}

// []byte is a supported field value (Normalize keeps it as it is, see
// internal/encoding_test.go "Data"), but internal.Compare has no case for it.
func TestHuntBytesFieldComparePanics(t *testing.T) {
	db := huntOpen(t)
	if err := db.CreateCollection("c"); err != nil {
		t.Fatal(err)
	}
	if err := db.Insert("c", huntDoc(map[string]interface{}{"data": []byte{1, 2}})); err != nil {
		t.Fatal(err)
	}

	p, stack := huntCall(func() {
		_, _ = db.FindAll(q.NewQuery("c").Where(q.Field("data").Eq([]byte{1, 2})))
	})
	if p != nil {
		t.Fatalf("C20 violated: FindAll panicked comparing a []byte field with a []byte operand: %v\n%s", p, stack)
	}
}

// float64 is one of the documented internal types, and NaN is accepted by Insert,
// but every later comparison involving the value goes through big.NewFloat, which
// panics on NaN.
func TestHuntNaNFieldComparePanics(t *testing.T) {
	db := huntOpen(t)
	if err := db.CreateCollection("c"); err != nil {
		t.Fatal(err)
	}
	if err := db.Insert("c", huntDoc(map[string]interface{}{"x": math.NaN()})); err != nil {
		t.Fatalf("insert refused: %v", err) // would be a legitimate outcome; it is accepted today
	}

	p, stack := huntCall(func() {
		_, _ = db.FindAll(q.NewQuery("c").Where(q.Field("x").Gt(1.5)))
	})
	if p != nil {
		t.Fatalf("C20 violated: FindAll panicked on a stored NaN: %v\n%s", p, stack)
	}
}

// "never blocks forever": clover.Open on a directory which is already open in the
// same process (a reachable state: an open, not yet closed DB) never returns, since
// bbolt is opened with no lock timeout. The badger backend returns an error here.
func TestHuntOpenSameDirTwiceBlocks(t *testing.T) {
	dir := t.TempDir()
	db1, err := c.Open(dir)
	if err != nil {
		t.Fatal(err)
	}

	type result struct {
		db  *c.DB
		err error
	}
	done := make(chan result, 1)
	go func() {
		db2, err := c.Open(dir)
		done <- result{db2, err}
	}()

	select {
	case r := <-done:
		if r.db != nil {
			r.db.Close()
		}
		db1.Close()
	case <-time.After(3 * time.Second):
		// release the file lock so that the pending Open can complete and be cleaned up
		db1.Close()
		r := <-done
		if r.db != nil {
			r.db.Close()
		}
		t.Fatalf("C20 violated: Open(%q) on a directory already open did not return within 3s (it returned only after the first handle was closed)", dir)
	}
}

// UpdateById with an updater returning nil (the value which means "delete" for
// UpdateFunc): the result is dereferenced without a check.
func TestHuntUpdateByIdNilResult(t *testing.T) {
	db := huntOpen(t)
	if err := db.CreateCollection("c"); err != nil {
		t.Fatal(err)
	}
	id, err := db.InsertOne("c", huntDoc(map[string]interface{}{"x": 1}))
	if err != nil {
		t.Fatal(err)
	}

	p, stack := huntCall(func() {
		_ = db.UpdateById("c", id, func(doc *d.Document) *d.Document { return nil })
	})
	if p != nil {
		t.Fatalf("C20 violated: UpdateById panicked: %v\n%s", p, stack)
	}
}

// ImportCollection on a well-formed JSON file whose array holds a null element.
func TestHuntImportCollectionNullElement(t *testing.T) {
	db := huntOpen(t)
	path := filepath.Join(t.TempDir(), "in.json")
	if err := os.WriteFile(path, []byte(`[{"a": 1}, null]`), 0600); err != nil {
		t.Fatal(err)
	}

	p, stack := huntCall(func() {
		_ = db.ImportCollection("c", path)
	})
	if p != nil {
		t.Fatalf("C20 violated: ImportCollection panicked: %v\n%s", p, stack)
	}
}

type huntAddress struct {
	City string
}

type huntPerson struct {
	Name    string
	address huntAddress // unexported: encoding/json silently skips it
}

// Document.Unmarshal into a struct having an unexported field of struct type, when
// the document has a map under the same name.
func TestHuntUnmarshalUnexportedStructField(t *testing.T) {
	doc := huntDoc(map[string]interface{}{
		"Name":    "joe",
		"address": map[string]interface{}{"City": "Rome"},
	})

	var person huntPerson
	p, stack := huntCall(func() {
		_ = doc.Unmarshal(&person)
	})
	if p != nil {
		t.Fatalf("C20 violated: Document.Unmarshal panicked: %v\n%s", p, stack)
	}
	_ = fmt.Sprint(person.address)
}

type huntRecord struct {
	Name   string
	Scores map[int]string // not convertible: Normalize returns an error
}

// Save with a struct that cannot be converted to a document: NewDocumentOf returns
// nil and Save dereferences it instead of returning an error.
func TestHuntSaveUnconvertibleStruct(t *testing.T) {
	db := huntOpen(t)
	if err := db.CreateCollection("c"); err != nil {
		t.Fatal(err)
	}

	p, stack := huntCall(func() {
		_ = db.Save("c", &huntRecord{Name: "a", Scores: map[int]string{1: "x"}})
	})
	if p != nil {
		t.Fatalf("C20 violated: Save panicked: %v\n%s", p, stack)
	}
}
