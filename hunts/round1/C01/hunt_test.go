// place in: .
package clover_test

// Each test below demonstrates one violation of property C01 ("Queries return
// exactly the documents that satisfy their criteria") on the unmodified code.

import (
	"os"
	"sort"
	"testing"
	"time"

	"github.com/stretchr/testify/require"

	c "github.com/ostafen/clover/v2"
	d "github.com/ostafen/clover/v2/document"
	q "github.com/ostafen/clover/v2/query"
)

const (
	huntIdA = "00000000-0000-4000-8000-00000000000a"
	huntIdB = "00000000-0000-4000-8000-00000000000b"
	huntIdC = "00000000-0000-4000-8000-00000000000c"
)

func huntOpen(t *testing.T) *c.DB {
	dir, err := os.MkdirTemp("", "hunt-c01")
	require.NoError(t, err)
	db, err := c.Open(dir) // bbolt store
	require.NoError(t, err)
	t.Cleanup(func() {
		db.Close()
		os.RemoveAll(dir)
	})
	return db
}

func huntDoc(id string, kv map[string]interface{}) *d.Document {
	doc := d.NewDocument()
	doc.Set("_id", id)
	for k, v := range kv {
		doc.Set(k, v)
	}
	return doc
}

func huntFind(t *testing.T, db *c.DB, coll string, crit q.Criteria) []string {
	docs, err := db.FindAll(q.NewQuery(coll).Where(crit))
	require.NoError(t, err)
	ids := make([]string, 0, len(docs))
	for _, doc := range docs {
		ids = append(ids, doc.ObjectId())
	}
	sort.Strings(ids)
	return ids
}

// Sentence: "FindAll(q) returns every live document ... that satisfies q's criteria".
// The only document has n = 2^53+1 (int64) which is > 2^53 (int64 literal). Without an
// index the document is returned; once "n" is indexed the same query returns nothing,
// because index keys encode every number as a float64 (2^53+1 rounds to 2^53) and an
// exclusive range bound skips every entry carrying the bound's key.
func TestHuntIndexedGtLosesLargeInt(t *testing.T) {
	db := huntOpen(t)
	require.NoError(t, db.CreateCollection("c"))
	require.NoError(t, db.Insert("c", huntDoc(huntIdA, map[string]interface{}{"n": int64(9007199254740993)})))

	crit := q.Field("n").Gt(int64(9007199254740992))
	require.Equal(t, []string{huntIdA}, huntFind(t, db, "c", crit), "full scan (sanity)")

	require.NoError(t, db.CreateIndex("c", "n"))
	require.Equal(t, []string{huntIdA}, huntFind(t, db, "c", crit), "same query once n is indexed")
}

// Sentences: "... and returns nothing else" / "numbers compare by value across int/uint/float".
// int64 2^53+1 and float64 2^53 are different numbers, yet Eq(float64(2^53)) returns the
// document holding int64(2^53+1), and Gt(float64(2^53)) does not return it: mixed int/float
// comparisons are carried out after rounding the integer to float64. No index involved.
func TestHuntIntFloatComparedAfterRounding(t *testing.T) {
	db := huntOpen(t)
	require.NoError(t, db.CreateCollection("c"))
	require.NoError(t, db.Insert("c", huntDoc(huntIdA, map[string]interface{}{"n": int64(9007199254740993)})))

	require.Equal(t, []string{}, huntFind(t, db, "c", q.Field("n").Eq(float64(9007199254740992))),
		"2^53+1 is not equal to 2^53")
	require.Equal(t, []string{huntIdA}, huntFind(t, db, "c", q.Field("n").Gt(float64(9007199254740992))),
		"2^53+1 is greater than 2^53")
}

// Sentence: "FindAll(q) returns every live document ... that satisfies q's criteria" (times
// compare chronologically). A document dated 1960 satisfies t < 1980. A full scan returns it;
// with an index on "t" nothing is returned: index keys store uint64(UnixNano()), so instants
// before 1970 sort after every later instant.
func TestHuntIndexedLtLosesPre1970Time(t *testing.T) {
	db := huntOpen(t)
	require.NoError(t, db.CreateCollection("c"))
	t1960 := time.Date(1960, 1, 1, 0, 0, 0, 0, time.UTC)
	t1980 := time.Date(1980, 1, 1, 0, 0, 0, 0, time.UTC)
	require.NoError(t, db.Insert("c", huntDoc(huntIdA, map[string]interface{}{"t": t1960})))

	crit := q.Field("t").Lt(t1980)
	require.Equal(t, []string{huntIdA}, huntFind(t, db, "c", crit), "full scan (sanity)")

	require.NoError(t, db.CreateIndex("c", "t"))
	require.Equal(t, []string{huntIdA}, huntFind(t, db, "c", crit), "same query once t is indexed")
}

// Quantifier: "criteria trees built from Eq/.../In/Contains/... with literal or field-reference
// operands". In(query.Field("b")) must select the documents whose a equals their own b (as
// In("$b") does). Instead the *field operand nested in the In list is normalised into an empty
// object before execution: document A (a == b) is not returned and document C (a == {}) is.
func TestHuntInWithFieldReferenceOperand(t *testing.T) {
	db := huntOpen(t)
	require.NoError(t, db.CreateCollection("c"))
	require.NoError(t, db.Insert("c",
		huntDoc(huntIdA, map[string]interface{}{"a": int64(1), "b": int64(1)}),
		huntDoc(huntIdB, map[string]interface{}{"a": int64(1), "b": int64(2)}),
		huntDoc(huntIdC, map[string]interface{}{"a": map[string]interface{}{}, "b": int64(2)}),
	))

	require.Equal(t, []string{huntIdA}, huntFind(t, db, "c", q.Field("a").In("$b")), "string form of the reference (sanity)")
	require.Equal(t, []string{huntIdA}, huntFind(t, db, "c", q.Field("a").In(q.Field("b"))), "query.Field form of the reference")
}

// Same defect as above seen through Contains: the array of document A contains the value of
// its own field b, so Contains(query.Field("b")) must return A (Contains("$b") does).
func TestHuntContainsWithFieldReferenceOperand(t *testing.T) {
	db := huntOpen(t)
	require.NoError(t, db.CreateCollection("c"))
	require.NoError(t, db.Insert("c",
		huntDoc(huntIdA, map[string]interface{}{"a": []interface{}{int64(1), int64(2)}, "b": int64(1)}),
		huntDoc(huntIdB, map[string]interface{}{"a": []interface{}{int64(1), int64(2)}, "b": int64(3)}),
	))

	require.Equal(t, []string{huntIdA}, huntFind(t, db, "c", q.Field("a").Contains("$b")), "string form of the reference (sanity)")
	require.Equal(t, []string{huntIdA}, huntFind(t, db, "c", q.Field("a").Contains(q.Field("b"))), "query.Field form of the reference")
}

// Sentence: "FindAll(q) returns every live document ... (indexes absent, or created before or
// after the data)". Field names are only required to be free of ';'. Creating an index on the
// field named "\xff" (not valid UTF-8) stores the index list as JSON, which rewrites the name
// to "\ufffd": from then on the collection is believed to have an index on the *other* field
// "\ufffd", an index which has no entry for the documents that already existed. A query on
// "\ufffd" is then answered from that empty index and loses document A.
func TestHuntIndexOnNonUtf8FieldNameHidesDocuments(t *testing.T) {
	db := huntOpen(t)
	require.NoError(t, db.CreateCollection("c"))
	require.NoError(t, db.Insert("c", huntDoc(huntIdA, map[string]interface{}{"\ufffd": int64(1), "\xff": int64(2)})))

	crit := q.Field("\ufffd").Eq(int64(1))
	require.Equal(t, []string{huntIdA}, huntFind(t, db, "c", crit), "before the index exists (sanity)")

	require.NoError(t, db.CreateIndex("c", "\xff"))
	require.Equal(t, []string{huntIdA}, huntFind(t, db, "c", crit), "after CreateIndex on the field \\xff")
}
