// place in: index
package index_test

import (
	"testing"
	"time"

	"github.com/stretchr/testify/require"

	"github.com/ostafen/clover/v2/document"
	"github.com/ostafen/clover/v2/index"
	"github.com/ostafen/clover/v2/internal"
	"github.com/ostafen/clover/v2/store"
	badgerstore "github.com/ostafen/clover/v2/store/badger"
	"github.com/ostafen/clover/v2/store/bbolt"
)

type huntEntry struct {
	id string
	v  interface{}
}

// huntOnBothBackends populates the index col/f through Add (committed), then hands a
// read transaction's view of the same index to fn, once per backend.
func huntOnBothBackends(t *testing.T, entries []huntEntry, fn func(t *testing.T, idx index.RangeIndex)) {
	backends := []struct {
		name string
		open func(dir string) (store.Store, error)
	}{
		{"bbolt", bbolt.Open},
		{"badger", badgerstore.Open},
	}
	for _, b := range backends {
		t.Run(b.name, func(t *testing.T) {
			s, err := b.open(t.TempDir())
			require.NoError(t, err)
			defer s.Close()

			tx, err := s.Begin(true)
			require.NoError(t, err)
			idx := index.CreateIndex("col", "f", index.SingleField, tx)
			for _, e := range entries {
				require.NoError(t, idx.Add(e.id, e.v, 0))
			}
			require.NoError(t, tx.Commit())

			tx, err = s.Begin(false)
			require.NoError(t, err)
			defer tx.Rollback()
			fn(t, index.CreateIndex("col", "f", index.SingleField, tx).(index.RangeIndex))
		})
	}
}

func huntScan(t *testing.T, idx index.RangeIndex, r *index.Range, reverse bool) []string {
	ids := []string{}
	var err error
	if r == nil {
		err = idx.Iterate(reverse, func(id string) error { ids = append(ids, id); return nil })
	} else {
		err = idx.IterateRange(r, reverse, func(id string) error { ids = append(ids, id); return nil })
	}
	require.NoError(t, err)
	return ids
}

const (
	huntIdA = "00000000-0000-4000-8000-00000000000a"
	huntIdB = "00000000-0000-4000-8000-00000000000b"
	huntIdC = "00000000-0000-4000-8000-00000000000c"
)

// Sentence 1: "An index range scan yields exactly the ids of documents whose indexed value
// lies within the requested bounds ... in ascending value order".
// Times before the Unix epoch are keyed by uint64(UnixNano()), which wraps around: they sort
// after every later time, so a range that spans the epoch has start key > end key.
func TestHuntRangeScanLosesTimesBeforeEpoch(t *testing.T) {
	t1960 := time.Date(1960, 1, 1, 0, 0, 0, 0, time.UTC)
	t1980 := time.Date(1980, 1, 1, 0, 0, 0, 0, time.UTC)
	t1950 := time.Date(1950, 1, 1, 0, 0, 0, 0, time.UTC)
	t2000 := time.Date(2000, 1, 1, 0, 0, 0, 0, time.UTC)

	// sanity: the library's own order says 1950 < 1960 < 1980 < 2000
	require.Negative(t, internal.Compare(t1950, t1960))
	require.Negative(t, internal.Compare(t1960, t1980))
	require.Negative(t, internal.Compare(t1980, t2000))

	entries := []huntEntry{{huntIdA, t1960}, {huntIdB, t1980}}
	huntOnBothBackends(t, entries, func(t *testing.T, idx index.RangeIndex) {
		r := &index.Range{Start: t1950, End: t2000, StartIncluded: true, EndIncluded: true}
		require.False(t, r.IsEmpty())
		require.Equal(t, []string{huntIdA, huntIdB}, huntScan(t, idx, r, false), "[1950, 2000] ascending")
	})
}

// Sentence 2: "A full index iteration yields every document of the collection once in that
// order" (ascending value order, descending when reversed).
func TestHuntIterateOrderTimesBeforeEpoch(t *testing.T) {
	t1960 := time.Date(1960, 1, 1, 0, 0, 0, 0, time.UTC)
	t1980 := time.Date(1980, 1, 1, 0, 0, 0, 0, time.UTC)
	entries := []huntEntry{{huntIdA, t1960}, {huntIdB, t1980}}
	huntOnBothBackends(t, entries, func(t *testing.T, idx index.RangeIndex) {
		require.Equal(t, []string{huntIdA, huntIdB}, huntScan(t, idx, nil, false), "ascending")
	})
}

// Sentence 1: "yields exactly the ids of documents whose indexed value lies within the
// requested bounds - honouring inclusive and exclusive ends, open ends".
// Integers are keyed by their float64 conversion: 2^53 and 2^53+1 (distinct for
// internal.Compare) share one key, so the skip of an excluded start bound also skips the
// greater value, and an equality range also yields the other value.
func TestHuntExclusiveStartSkipsGreaterInteger(t *testing.T) {
	lo := int64(1 << 53)
	hi := int64(1<<53 + 1)
	require.Negative(t, internal.Compare(lo, hi)) // the library's own order: lo < hi

	entries := []huntEntry{{huntIdA, lo}, {huntIdB, hi}}
	huntOnBothBackends(t, entries, func(t *testing.T, idx index.RangeIndex) {
		r := &index.Range{Start: lo, End: nil, StartIncluded: false, EndIncluded: false}
		require.False(t, r.IsEmpty())
		require.Equal(t, []string{huntIdB}, huntScan(t, idx, r, false), "(2^53, +inf) ascending")
	})
}

// Sentence 1: "yields exactly the ids of documents whose indexed value lies within the
// requested bounds". document.Validate (the only check db.Insert applies to _id) accepts
// every textual UUID form of gofrs/uuid, e.g. the 32 digit one, but the scan cuts the
// last 36 bytes off the key as the id.
func TestHuntScanYieldsWrongIdForShortUUID(t *testing.T) {
	shortId := "6ba7b8109dad11d180b400c04fd430c8"

	doc := document.NewDocument()
	doc.Set("_id", shortId)
	require.NoError(t, document.Validate(doc)) // such a document can be inserted

	entries := []huntEntry{{shortId, int64(7)}, {huntIdC, int64(9)}}
	huntOnBothBackends(t, entries, func(t *testing.T, idx index.RangeIndex) {
		r := &index.Range{Start: int64(7), End: int64(7), StartIncluded: true, EndIncluded: true}
		require.Equal(t, []string{shortId}, huntScan(t, idx, r, false), "[7, 7] ascending")
	})
}
