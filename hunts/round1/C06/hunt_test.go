// place in: .
package clover_test

// Tests for property C06 ("Documents, index entries and counts stay consistent;
// drops leave no residue"). Every test fails on the unmodified library.

import (
	"os"
	"strings"
	"testing"

	"github.com/stretchr/testify/require"

	c "github.com/ostafen/clover/v2"
	d "github.com/ostafen/clover/v2/document"
	q "github.com/ostafen/clover/v2/query"
	"github.com/ostafen/clover/v2/store"
	badgerstore "github.com/ostafen/clover/v2/store/badger"
	"github.com/ostafen/clover/v2/store/bbolt"
)

// huntRun runs test once per backend ("on every backend"), on a private, fresh directory.
func huntRun(t *testing.T, test func(t *testing.T, db *c.DB, st store.Store)) {
	backends := []struct {
		name string
		open func(string) (store.Store, error)
	}{
		{"bbolt", bbolt.Open},
		{"badger", badgerstore.Open},
	}

	for _, b := range backends {
		b := b
		t.Run(b.name, func(t *testing.T) {
			dir, err := os.MkdirTemp("", "clover-hunt-C06")
			require.NoError(t, err)
			defer os.RemoveAll(dir)

			st, err := b.open(dir)
			require.NoError(t, err)

			db, err := c.OpenWithStore(st)
			require.NoError(t, err)
			defer db.Close()

			test(t, db, st)
		})
	}
}

// huntKeys lists, through the store interface, every raw key starting with prefix.
func huntKeys(t *testing.T, st store.Store, prefix string) []string {
	tx, err := st.Begin(false)
	require.NoError(t, err)
	defer tx.Rollback()

	cur, err := tx.Cursor(true)
	require.NoError(t, err)
	defer cur.Close()

	keys := make([]string, 0)
	require.NoError(t, cur.Seek([]byte(prefix)))
	for ; cur.Valid(); cur.Next() {
		item, err := cur.Item()
		require.NoError(t, err)
		if !strings.HasPrefix(string(item.Key), prefix) {
			break
		}
		keys = append(keys, string(item.Key))
	}
	return keys
}

// Sentence: "Dropping an index [...] never disturbs any other collection or index", with the
// quantifier's "indexes on fields whose names are prefixes of other indexed fields".
//
// "a" is a prefix of "a;b". The key prefix of index "a" ("c:coll;i:a;") is also a prefix of
// every key of index "a;b" ("c:coll;i:a;b;t:..."), so that dropping "a" erases the entries of "a;b".
func TestHuntDropIndexErasesSiblingIndexWhoseFieldExtendsItsName(t *testing.T) {
	huntRun(t, func(t *testing.T, db *c.DB, st store.Store) {
		require.NoError(t, db.CreateCollection("coll"))
		require.NoError(t, db.CreateIndex("coll", "a"))
		require.NoError(t, db.CreateIndex("coll", "a;b"))

		for i := 0; i < 3; i++ {
			doc := d.NewDocument()
			doc.Set("a", i)
			doc.Set("a;b", 10*i)
			require.NoError(t, db.Insert("coll", doc))
		}

		throughSibling := q.NewQuery("coll").Where(q.Field("a;b").GtEq(0))

		docs, err := db.FindAll(throughSibling)
		require.NoError(t, err)
		require.Len(t, docs, 3) // sanity: the sibling index is exact before the drop

		require.NoError(t, db.DropIndex("coll", "a"))

		has, err := db.HasIndex("coll", "a;b")
		require.NoError(t, err)
		require.True(t, has)

		// the index on "a;b" must still hold exactly one entry per document
		require.Len(t, huntKeys(t, st, "c:coll;i:a;b;"), 3, "entries of the index on \"a;b\" after dropping the index on \"a\"")

		docs, err = db.FindAll(throughSibling)
		require.NoError(t, err)
		require.Len(t, docs, 3, "query through the index on \"a;b\" after dropping the index on \"a\"")
	})
}

// Sentences: "every index holds exactly one entry per document of its collection [...] and nothing
// else" and "the document count used by Count equals the number of stored documents".
//
// Same pair of field names, no drop involved. The key range of index "a" also contains the entries
// of index "a;b": a walk over index "a" yields every document twice, a bulk delete driven by that
// walk counts every deleted document twice, and the Size counter drifts away from the stored documents.
func TestHuntIndexWalkSeesSiblingEntriesAndCorruptsSize(t *testing.T) {
	huntRun(t, func(t *testing.T, db *c.DB, st store.Store) {
		require.NoError(t, db.CreateCollection("coll"))
		require.NoError(t, db.CreateIndex("coll", "a"))
		require.NoError(t, db.CreateIndex("coll", "a;b"))

		newDoc := func(i int) *d.Document {
			doc := d.NewDocument()
			doc.Set("a", i)
			doc.Set("a;b", 10*i)
			return doc
		}

		require.NoError(t, db.Insert("coll", newDoc(0), newDoc(1), newDoc(2)))

		// delete everything, walking the index on "a"
		require.NoError(t, db.Delete(q.NewQuery("coll").Sort(q.SortOption{Field: "a", Direction: 1})))

		require.NoError(t, db.Insert("coll", newDoc(3), newDoc(4)))

		docs, err := db.FindAll(q.NewQuery("coll"))
		require.NoError(t, err)
		require.Len(t, docs, 2)
		require.Len(t, huntKeys(t, st, "c:coll;d:"), 2)

		n, err := db.Count(q.NewQuery("coll"))
		require.NoError(t, err)
		require.Equal(t, len(docs), n, "Count must equal the number of stored documents")
	})
}

// Sentence: "Dropping an index or a collection [...] never disturbs any other collection or index".
//
// Collection names are not escaped either: every key of the collection named "a;i:b"
// ("c:a;i:b;d:<id>") lies under the key prefix of the index on field "b" of collection "a"
// ("c:a;i:b;"). Dropping that index erases the documents of the other collection, while its
// metadata (and its Size) survives.
func TestHuntDropIndexErasesDocumentsOfAnotherCollection(t *testing.T) {
	huntRun(t, func(t *testing.T, db *c.DB, st store.Store) {
		require.NoError(t, db.CreateCollection("a"))
		require.NoError(t, db.CreateCollection("a;i:b"))

		for i := 0; i < 2; i++ {
			doc := d.NewDocument()
			doc.Set("x", i)
			require.NoError(t, db.Insert("a;i:b", doc))
		}

		require.NoError(t, db.CreateIndex("a", "b"))
		require.NoError(t, db.DropIndex("a", "b"))

		n, err := db.Count(q.NewQuery("a;i:b"))
		require.NoError(t, err)
		require.Equal(t, 2, n)

		docs, err := db.FindAll(q.NewQuery("a;i:b"))
		require.NoError(t, err)
		require.Len(t, docs, n, "documents of collection \"a;i:b\" after dropping an index of collection \"a\"")
	})
}

// Sentence: "Dropping an index or a collection leaves nothing behind".
//
// The list of indexes is kept in the collection metadata as JSON, and encoding/json replaces
// invalid UTF-8 with U+FFFD. The index on field "f\xff" is built under the real name, but
// is recorded (and from then on maintained, looked up and dropped) as the index on "f\ufffd":
// the entries written by CreateIndex can no longer be reached by DropIndex nor by DropCollection.
func TestHuntIndexOnNonUTF8FieldSurvivesDropCollection(t *testing.T) {
	huntRun(t, func(t *testing.T, db *c.DB, st store.Store) {
		require.NoError(t, db.CreateCollection("coll"))

		doc := d.NewDocument()
		doc.Set("f\xff", 1)
		require.NoError(t, db.Insert("coll", doc))

		require.NoError(t, db.CreateIndex("coll", "f\xff"))
		require.NoError(t, db.DropCollection("coll"))

		has, err := db.HasCollection("coll")
		require.NoError(t, err)
		require.False(t, has)

		require.Empty(t, huntKeys(t, st, "c:coll;"), "keys left behind by the dropped collection")
	})
}

// Sentences: "every index holds exactly one entry per document of its collection" and "the
// document count used by Count equals the number of stored documents".
//
// document.Validate accepts every textual form understood by uuid.FromString, e.g.
// "urn:uuid:<uuid>" (45 bytes), but the index assumes that an entry ends with a 36 bytes id
// (index.extractDocId). The entry of the document whose id is "urn:uuid:U" is read back as a second
// entry of the document whose id is "U": a bulk delete which walks the index deletes "U" twice,
// never deletes "urn:uuid:U", and subtracts 2 from Size.
func TestHuntIndexEntryOfUrnIdIsAttributedToAnotherDocument(t *testing.T) {
	huntRun(t, func(t *testing.T, db *c.DB, st store.Store) {
		const id = "6ba7b810-9dad-11d1-80b4-00c04fd430c8"

		require.NoError(t, db.CreateCollection("coll"))
		require.NoError(t, db.CreateIndex("coll", "a"))

		doc1 := d.NewDocument()
		doc1.Set("_id", id)
		doc1.Set("a", 1)

		doc2 := d.NewDocument()
		doc2.Set("_id", "urn:uuid:"+id)
		doc2.Set("a", 2)

		require.NoError(t, db.Insert("coll", doc1, doc2))

		// delete everything, walking the index on "a"
		require.NoError(t, db.Delete(q.NewQuery("coll").Sort(q.SortOption{Field: "a", Direction: 1})))

		n, err := db.Count(q.NewQuery("coll"))
		require.NoError(t, err)

		stored := huntKeys(t, st, "c:coll;d:")
		require.Equal(t, len(stored), n, "Count must equal the number of stored documents (%q)", stored)
	})
}
