// place in: .
package clover_test

import (
	"os"
	"path/filepath"
	"testing"

	c "github.com/ostafen/clover/v2"
	q "github.com/ostafen/clover/v2/query"
	"github.com/stretchr/testify/require"
)

// huntImport writes content to a file and imports it as collection "copy" into a fresh
// database which already holds a collection "keep". It returns the database and the error
// of ImportCollection.
func huntImport(t *testing.T, content string) (*c.DB, error) {
	db, err := c.Open(t.TempDir())
	require.NoError(t, err)
	t.Cleanup(func() { db.Close() })

	require.NoError(t, db.CreateCollection("keep"))

	path := filepath.Join(t.TempDir(), "in.json")
	require.NoError(t, os.WriteFile(path, []byte(content), 0o644))
	return db, db.ImportCollection("copy", path)
}

// C19, last sentence: "importing [...] from an unreadable or ill-formed file fails without
// altering any existing collection".
//
// The file below is pure ASCII, but its strings hold unpaired UTF-16 surrogate escapes
// (\ud800, \udc00): no Unicode text (no valid UTF-8 string, which is what the property
// quantifies over and what ExportCollection can write) is denoted by them. encoding/json
// silently replaces each of them by U+FFFD, exactly what it does with raw non-UTF-8 bytes
// (refused since "fix: ImportCollection refuses a file that is not valid UTF-8"): the two
// distinct member names collapse into ONE field "a�", one of the two values is lost
// and the string value is altered.
func TestHuntImportAcceptsUnpairedSurrogateEscapes(t *testing.T) {
	const file = `[{"_id":"bbbbbbbb-bbbb-4bbb-8bbb-bbbbbbbbbbbb","a\ud800":1,"a\udc00":2,"s":"x\ud800y"}]`

	db, err := huntImport(t, file)
	if err == nil {
		docs, ferr := db.FindAll(q.NewQuery("copy"))
		require.NoError(t, ferr)
		for _, doc := range docs {
			t.Logf("imported document: %v (fields %q)", doc.AsMap(), doc.Fields(false))
		}
	}
	require.Error(t, err, "a file whose strings hold unpaired surrogate escapes was imported")

	has, herr := db.HasCollection("copy")
	require.NoError(t, herr)
	require.False(t, has)
}

// C19, last sentence again. The object of the file has two members with the same name: no
// document (a map from field names to values, which is all ExportCollection can write) has
// this shape. ImportCollection returns nil and silently keeps only the last of the two
// values. (RFC 8259 only says that names SHOULD be unique, so whether such a file counts as
// ill-formed is debatable: low confidence.)
func TestHuntImportAcceptsDuplicateFieldNames(t *testing.T) {
	const file = `[{"_id":"bbbbbbbb-bbbb-4bbb-8bbb-bbbbbbbbbbbb","a":1,"a":2}]`

	db, err := huntImport(t, file)
	if err == nil {
		docs, ferr := db.FindAll(q.NewQuery("copy"))
		require.NoError(t, ferr)
		for _, doc := range docs {
			t.Logf("imported document: %v", doc.AsMap())
		}
	}
	require.Error(t, err, "a file with a repeated field name was imported, one value was dropped")

	has, herr := db.HasCollection("copy")
	require.NoError(t, herr)
	require.False(t, has)
}
