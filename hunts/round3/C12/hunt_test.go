// place in: .
package clover_test

import (
	"os"
	"testing"

	c "github.com/ostafen/clover/v2"
	d "github.com/ostafen/clover/v2/document"
	q "github.com/ostafen/clover/v2/query"
	huntbadger "github.com/ostafen/clover/v2/store/badger"
)

// huntIdRewritingCriteria is a caller-defined implementation of the exported query.Criteria
// interface: it selects the documents named "a" and, like the MatchFunc predicate of fix
// b91acc7, modifies the document it is asked about (it rewrites its _id).
type huntIdRewritingCriteria struct {
	q.Criteria // Not/And/Or
	newId      string
}

func (s *huntIdRewritingCriteria) Satisfy(doc *d.Document) bool {
	if doc.Get("name") == "a" {
		doc.Set("_id", s.newId)
		return true
	}
	return false
}

func (s *huntIdRewritingCriteria) Accept(v q.CriteriaVisitor) interface{} { return s }

// C12, last sentence: "Update never overwrite[s] another document nor make[s] a document
// reachable under a key different from its _id" / "FindById(c, id) only ever returns a
// document whose _id is id", "for all histories ... including updates that attempt to
// rewrite _id".
func TestHuntC12UpdateThroughCallerCriteriaOverwritesAnotherDocument(t *testing.T) {
	open := map[string]func(dir string) (*c.DB, error){
		"bbolt": c.Open,
		"badger": func(dir string) (*c.DB, error) {
			s, err := huntbadger.Open(dir)
			if err != nil {
				return nil, err
			}
			return c.OpenWithStore(s)
		},
	}
	for name, openDB := range open {
		t.Run(name, func(t *testing.T) {
			dir, err := os.MkdirTemp("", "hunt3-C12")
			if err != nil {
				t.Fatal(err)
			}
			defer os.RemoveAll(dir)
			db, err := openDB(dir)
			if err != nil {
				t.Fatal(err)
			}
			defer db.Close()

			if err := db.CreateCollection("c"); err != nil {
				t.Fatal(err)
			}
			a := d.NewDocumentOf(map[string]interface{}{"name": "a"})
			b := d.NewDocumentOf(map[string]interface{}{"name": "b"})
			if err := db.Insert("c", a, b); err != nil {
				t.Fatal(err)
			}
			idA, idB := a.ObjectId(), b.ObjectId()

			crit := &huntIdRewritingCriteria{Criteria: q.Field("name").Eq("a"), newId: idB}
			err = db.Update(q.NewQuery("c").Where(crit), map[string]interface{}{"z": 1})
			t.Logf("Update returned: %v", err)

			gotB, err := db.FindById("c", idB)
			if err != nil || gotB == nil {
				t.Fatalf("FindById(b) = %v, %v", gotB, err)
			}
			if gotB.Get("name") != "b" {
				t.Errorf("document b (%s) has been overwritten by the update of document a: FindById(b) = %v", idB, gotB.ToMap())
			}
			gotA, err := db.FindById("c", idA)
			if err != nil || gotA == nil {
				t.Fatalf("FindById(a) = %v, %v", gotA, err)
			}
			if gotA.ObjectId() != idA {
				t.Errorf("FindById(a) returns a document whose _id is %v", gotA.Get("_id"))
			}
			all, _ := db.FindAll(q.NewQuery("c"))
			names := map[interface{}]int{}
			for _, doc := range all {
				names[doc.Get("name")]++
			}
			if names["a"] != 1 || names["b"] != 1 {
				t.Errorf("the collection held one document named a and one named b, now: %v", names)
			}
		})
	}
}
