// place in: .
package clover_test

// Property C15: "The same sequence of operations produces the same observable results -
// returned documents and their order, counts, catalog, and errors - on the bbolt backend and
// on the badger backend (on disk and in memory)", "for all single-threaded operation histories
// and all backends/options shipped with clover".
//
// Both tests run one single-threaded history on the three shipped backends and compare what
// the caller observes. The histories are single-threaded: the inner operation is issued by the
// goroutine of the outer one, from the callback the API hands the documents to (the helper
// goroutine below only exists to be able to report an operation that never returns).

import (
	"fmt"
	"runtime"
	"strings"
	"sync/atomic"
	"testing"
	"time"

	dbadger "github.com/dgraph-io/badger/v4"

	c "github.com/ostafen/clover/v2"
	d "github.com/ostafen/clover/v2/document"
	q "github.com/ostafen/clover/v2/query"
	badgerstore "github.com/ostafen/clover/v2/store/badger"
)

type huntBackend struct {
	name string
	open func(t *testing.T) *c.DB
}

func huntBackends() []huntBackend {
	return []huntBackend{
		{"badger on disk", func(t *testing.T) *c.DB {
			st, err := badgerstore.OpenWithOptions(dbadger.DefaultOptions(t.TempDir()).WithLoggingLevel(dbadger.ERROR))
			if err != nil {
				t.Fatal(err)
			}
			db, _ := c.OpenWithStore(st)
			return db
		}},
		{"badger in memory", func(t *testing.T) *c.DB {
			st, err := badgerstore.OpenWithOptions(dbadger.DefaultOptions("").WithInMemory(true).WithLoggingLevel(dbadger.ERROR))
			if err != nil {
				t.Fatal(err)
			}
			db, _ := c.OpenWithStore(st)
			return db
		}},
		{"bbolt (clover.Open)", func(t *testing.T) *c.DB {
			db, err := c.Open(t.TempDir())
			if err != nil {
				t.Fatal(err)
			}
			return db
		}},
	}
}

func huntId(n int) string {
	return fmt.Sprintf("00000000-0000-4000-8000-%012d", n)
}

func huntFill(t *testing.T, db *c.DB, n int) {
	if err := db.CreateCollection("c"); err != nil {
		t.Fatal(err)
	}
	docs := make([]*d.Document, 0, n)
	for i := 0; i < n; i++ {
		doc := d.NewDocument()
		doc.Set("_id", huntId(i))
		doc.Set("a", int64(i))
		docs = append(docs, doc)
	}
	if err := db.Insert("c", docs...); err != nil {
		t.Fatal(err)
	}
}

// huntRun runs the history and returns what it observed, or reports that it did not return.
// A database whose history did not return is not closed (Close would block as well).
func huntRun(t *testing.T, db *c.DB, history func() string) (string, bool) {
	done := make(chan string, 1)
	go func() { done <- history() }()

	select {
	case outcome := <-done:
		if err := db.Close(); err != nil {
			t.Fatal(err)
		}
		return outcome, true
	case <-time.After(10 * time.Second):
		buf := make([]byte, 1<<20)
		stacks := string(buf[:runtime.Stack(buf, true)])
		for _, g := range strings.Split(stacks, "\n\n") {
			if strings.Contains(g, "huntRun.func1") && strings.Contains(g, t.Name()+".func") {
				// the innermost frames of the goroutine running the history, library frames only
				var frames []string
				for _, line := range strings.Split(g, "\n") {
					if !strings.HasPrefix(line, "\t") && !strings.HasPrefix(line, "sync.") {
						frames = append(frames, line)
					}
				}
				if len(frames) > 12 {
					frames = frames[:12]
				}
				t.Logf("the history is blocked in:\n  %s", strings.Join(frames, "\n  "))
			}
		}
		return "the history has not returned after 10s", false
	}
}

// History: 50 documents; ForEach over the collection, and the consumer marks each document it
// is given with UpdateById. badger (on disk and in memory): ForEach returns nil after 50
// documents, 50 documents are marked. bbolt: the second UpdateById never returns.
func TestHuntForEachConsumerUpdatingById(t *testing.T) {
	outcomes := make([]string, 0)
	for _, backend := range huntBackends() {
		db := backend.open(t)
		huntFill(t, db, 50)

		var visited int32
		outcome, returned := huntRun(t, db, func() string {
			var updateErrs []error
			err := db.ForEach(q.NewQuery("c"), func(doc *d.Document) bool {
				atomic.AddInt32(&visited, 1)
				if err := db.UpdateById("c", doc.ObjectId(), func(doc *d.Document) *d.Document {
					doc.Set("seen", true)
					return doc
				}); err != nil {
					updateErrs = append(updateErrs, err)
				}
				return true
			})
			n, countErr := db.Count(q.NewQuery("c").Where(q.Field("seen").IsTrue()))
			return fmt.Sprintf("ForEach: %v, documents visited: %d, UpdateById errors: %v, documents marked: %d (%v)",
				err, atomic.LoadInt32(&visited), updateErrs, n, countErr)
		})
		if !returned {
			outcome += fmt.Sprintf(" (consumer called %d times)", atomic.LoadInt32(&visited))
		}
		t.Logf("%-20s %s", backend.name+":", outcome)
		outcomes = append(outcomes, outcome)
	}

	for i := 1; i < len(outcomes); i++ {
		if outcomes[i] != outcomes[0] {
			t.Errorf("the same history is observed differently on %q and on %q:\n  %s\n  %s",
				huntBackends()[0].name, huntBackends()[i].name, outcomes[0], outcomes[i])
		}
	}
}

// History: 3 documents; UpdateFunc over the collection, whose updater looks at the catalog with
// ListCollections (a read) before it returns the document unchanged. badger (on disk and in
// memory): the catalog is returned and UpdateFunc returns nil. bbolt: ListCollections never
// returns, while the other catalog reads (HasCollection, ListIndexes) do at the same place.
func TestHuntUpdaterListingCollections(t *testing.T) {
	outcomes := make([]string, 0)
	for _, backend := range huntBackends() {
		db := backend.open(t)
		huntFill(t, db, 3)

		outcome, _ := huntRun(t, db, func() string {
			observed := make([]string, 0)
			err := db.UpdateFunc(q.NewQuery("c"), func(doc *d.Document) *d.Document {
				has, hasErr := db.HasCollection("c")
				indexes, idxErr := db.ListIndexes("c")
				observed = append(observed, fmt.Sprintf("HasCollection: %v (%v), ListIndexes: %v (%v)", has, hasErr, indexes, idxErr))

				names, listErr := db.ListCollections()
				observed = append(observed, fmt.Sprintf("ListCollections: %v (%v)", names, listErr))
				return doc
			})
			return fmt.Sprintf("UpdateFunc: %v, updater observed: %v", err, observed)
		})
		t.Logf("%-20s %s", backend.name+":", outcome)
		outcomes = append(outcomes, outcome)
	}

	for i := 1; i < len(outcomes); i++ {
		if outcomes[i] != outcomes[0] {
			t.Errorf("the same history is observed differently on %q and on %q:\n  %s\n  %s",
				huntBackends()[0].name, huntBackends()[i].name, outcomes[0], outcomes[i])
		}
	}
}
