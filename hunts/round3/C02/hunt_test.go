// place in: .
package clover_test

import (
	"fmt"
	"os"
	"strings"
	"testing"

	c "github.com/ostafen/clover/v2"
	d "github.com/ostafen/clover/v2/document"
	q "github.com/ostafen/clover/v2/query"
)

// Property C02 (index transparency): "For the same collection contents, FindAll, Count,
// Update and Delete with any criteria, sort, skip and limit select the same documents - and,
// when a sort is given, the same sequence of sort-key values - whether the collection has no
// index, an index on a filtered field, on the sort field, or on unrelated fields."
//
// Two collections receive the same three documents and the same Update; one of them has an
// index on the array field "tags". The criterion of the Update is a MatchFunc predicate which
// lower-cases the tags before looking at them (the usage the repair "a MatchFunc predicate is
// applied to a copy of the document" was made for). Document.Copy copies maps only: the slice
// held by "tags" is shared between the copy handed to the predicate and the document that
// replaceDocs goes on to use, so the entry of the stored value ("Red") is never removed from
// the index while an entry for the new value ("red") is added. From then on the indexed
// collection answers a query sorted on "tags" with 5 documents, the plain one with 3.
func TestHuntMatchFuncSliceAliasLeavesStaleIndexEntries(t *testing.T) {
	dir, err := os.MkdirTemp("", "hunt3-C02")
	if err != nil {
		t.Fatal(err)
	}
	defer os.RemoveAll(dir)

	db, err := c.Open(dir)
	if err != nil {
		t.Fatal(err)
	}
	defer db.Close()

	colls := []string{"plain", "indexed"}
	for _, coll := range colls {
		if err := db.CreateCollection(coll); err != nil {
			t.Fatal(err)
		}
	}
	if err := db.CreateIndex("indexed", "tags"); err != nil {
		t.Fatal(err)
	}

	for _, coll := range colls {
		for i, tag := range []string{"Red", "green", "Blue"} {
			doc := d.NewDocument()
			doc.Set("_id", fmt.Sprintf("00000000-0000-4000-8000-%012d", i))
			doc.Set("tags", []interface{}{tag})
			if err := db.Insert(coll, doc); err != nil {
				t.Fatal(err)
			}
		}
	}

	// case-insensitive predicate: normalises the tags of the document it is given, then tests them
	notGreen := func(doc *d.Document) bool {
		tags := doc.Get("tags").([]interface{})
		for i := range tags {
			tags[i] = strings.ToLower(tags[i].(string))
		}
		return tags[0] != "green"
	}

	for _, coll := range colls {
		err := db.Update(q.NewQuery(coll).MatchFunc(notGreen), map[string]interface{}{"seen": true})
		if err != nil {
			t.Fatal(err)
		}
	}

	describe := func(docs []*d.Document) []string {
		res := make([]string, 0, len(docs))
		for _, doc := range docs {
			res = append(res, fmt.Sprintf("%s %v", doc.ObjectId()[30:], doc.Get("tags")))
		}
		return res
	}

	// the two collections hold the same documents (checked without going through any index) ...
	plainAll, err := db.FindAll(q.NewQuery("plain"))
	if err != nil {
		t.Fatal(err)
	}
	indexedAll, err := db.FindAll(q.NewQuery("indexed"))
	if err != nil {
		t.Fatal(err)
	}
	if fmt.Sprint(describe(plainAll)) != fmt.Sprint(describe(indexedAll)) {
		t.Fatalf("contents differ: %v vs %v", describe(plainAll), describe(indexedAll))
	}

	// ... so every query must select the same documents in both
	for _, direction := range []int{1, -1} {
		sorted := func(coll string) *q.Query {
			return q.NewQuery(coll).Sort(q.SortOption{Field: "tags", Direction: direction})
		}
		plain, err := db.FindAll(sorted("plain"))
		if err != nil {
			t.Fatal(err)
		}
		indexed, err := db.FindAll(sorted("indexed"))
		if err != nil {
			t.Fatal(err)
		}
		if fmt.Sprint(describe(plain)) != fmt.Sprint(describe(indexed)) {
			t.Errorf("Sort(tags, %d): without index %d documents %v, with an index on tags %d documents %v",
				direction, len(plain), describe(plain), len(indexed), describe(indexed))
		}
	}

	filtered := func(coll string) *q.Query {
		return q.NewQuery(coll).Where(q.Field("tags").GtEq([]interface{}{"A"}))
	}
	plainCount, err := db.Count(filtered("plain"))
	if err != nil {
		t.Fatal(err)
	}
	indexedCount, err := db.Count(filtered("indexed"))
	if err != nil {
		t.Fatal(err)
	}
	if plainCount != indexedCount {
		t.Errorf("Count(tags >= [A]): %d without index, %d with an index on tags", plainCount, indexedCount)
	}
}
