// place in: .
package clover_test

import (
	"os"
	"sort"
	"testing"

	"github.com/stretchr/testify/require"

	c "github.com/ostafen/clover/v2"
	d "github.com/ostafen/clover/v2/document"
	q "github.com/ostafen/clover/v2/query"
)

// Property C01: "FindAll(q) returns every live document of q's collection that satisfies q's
// criteria exactly once, carrying the field values last written, and returns nothing else",
// for all criteria trees built from ... MatchFunc ...
//
// The predicate of a MatchFunc criterion gets doc.Copy(), which copies the maps of the
// document but shares its slices (util.CopyMap): a predicate which sorts (filters, rewrites)
// an array field in place, a natural thing to do before comparing it, changes the document
// object which the plan hands on. Update then stores the changed array although the update
// map does not mention the field, so that a later plain FindAll returns a value for "tags"
// that nobody has ever written.
func TestHuntMatchFuncPredicateSharesArraysWithTheDocument(t *testing.T) {
	dir, err := os.MkdirTemp("", "hunt3-C01")
	require.NoError(t, err)
	defer os.RemoveAll(dir)

	db, err := c.Open(dir)
	require.NoError(t, err)
	defer db.Close()

	require.NoError(t, db.CreateCollection("c"))

	doc := d.NewDocument()
	doc.Set("tags", []interface{}{"b", "a"})
	require.NoError(t, db.Insert("c", doc))

	// "has the tag which sorts first equal to a": reads its argument only, except that it
	// sorts the array it got before looking at it
	hasFirstTagA := func(doc *d.Document) bool {
		tags, _ := doc.Get("tags").([]interface{})
		sort.Slice(tags, func(i, j int) bool { return tags[i].(string) < tags[j].(string) })
		return len(tags) > 0 && tags[0] == "a"
	}

	// the only write after the insert: it sets "seen" and nothing else
	require.NoError(t, db.Update(q.NewQuery("c").MatchFunc(hasFirstTagA), map[string]interface{}{"seen": true}))

	docs, err := db.FindAll(q.NewQuery("c"))
	require.NoError(t, err)
	require.Len(t, docs, 1)
	require.Equal(t, true, docs[0].Get("seen"))

	// the value last written to "tags" is ["b", "a"]
	require.Equal(t, []interface{}{"b", "a"}, docs[0].Get("tags"),
		"FindAll must return the field values last written: tags was written once, as [b a]")
}
