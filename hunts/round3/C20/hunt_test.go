// place in: index
package index_test

import (
	"os"
	"testing"

	"github.com/ostafen/clover/v2/index"
	"github.com/ostafen/clover/v2/store"
	"github.com/ostafen/clover/v2/store/bbolt"
)

// Property C20: "every public operation returns normally with a result or an error. It never
// panics", quantified over "all calls of the public DB, query, document and index APIs with
// non-nil, well-typed arguments".

func openHuntTx(t *testing.T) (store.Tx, func()) {
	dir, err := os.MkdirTemp("", "hunt3-C20-index")
	if err != nil {
		t.Fatal(err)
	}
	st, err := bbolt.Open(dir)
	if err != nil {
		t.Fatal(err)
	}
	tx, err := st.Begin(true)
	if err != nil {
		t.Fatal(err)
	}
	return tx, func() {
		tx.Rollback()
		st.Close()
		os.RemoveAll(dir)
	}
}

// Index.Add accepts any string as document id (it returns nil), but once an entry whose id is
// shorter than 36 bytes is in the index, Index.Iterate (and IterateRange) panic in extractDocId
// instead of returning the id or an error.
func TestHuntIndexIterateAfterAddWithShortDocId(t *testing.T) {
	tx, cleanup := openHuntTx(t)
	defer cleanup()

	idx := index.CreateIndex("c", "f", index.SingleField, tx)
	if err := idx.Add("doc-1", int64(1), -1); err != nil {
		t.Fatalf("Add: %v", err) // an error would be fine for the property; there is none
	}

	defer func() {
		if p := recover(); p != nil {
			t.Fatalf("Index.Iterate panicked: %v", p)
		}
	}()

	ids := make([]string, 0)
	err := idx.Iterate(false, func(docId string) error {
		ids = append(ids, docId)
		return nil
	})
	t.Logf("ids = %q, err = %v", ids, err)
}

// The index API takes its values as interface{} but only copes with the canonical Go types of a
// stored document (int64, uint64, float64, ...): a plain Go int, which Document.Set and the
// criteria builders accept everywhere, makes Range.IsEmpty panic (and Index.Add as well).
func TestHuntRangeOfGoIntsPanics(t *testing.T) {
	defer func() {
		if p := recover(); p != nil {
			t.Fatalf("Range.IsEmpty panicked: %v", p)
		}
	}()

	r := &index.Range{Start: 1, End: 5, StartIncluded: true, EndIncluded: true}
	t.Logf("IsEmpty = %v", r.IsEmpty())
}
