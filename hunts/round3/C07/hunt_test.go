// place in: .
package clover_test

import (
	"os"
	"strings"
	"sync"
	"testing"
	"time"

	c "github.com/ostafen/clover/v2"
	d "github.com/ostafen/clover/v2/document"
	q "github.com/ostafen/clover/v2/query"
	"github.com/ostafen/clover/v2/store"
	"github.com/ostafen/clover/v2/store/bbolt"
)

// huntCommitSignalStore tells when a transaction is about to be committed.
type huntCommitSignalStore struct {
	store.Store
	once     sync.Once
	commitCh chan struct{}
}

type huntCommitSignalTx struct {
	store.Tx
	s *huntCommitSignalStore
}

func (s *huntCommitSignalStore) Begin(update bool) (store.Tx, error) {
	tx, err := s.Store.Begin(update)
	if err != nil {
		return nil, err
	}
	return &huntCommitSignalTx{Tx: tx, s: s}, nil
}

func (tx *huntCommitSignalTx) Commit() error {
	if tx.s.commitCh != nil {
		tx.s.once.Do(func() { close(tx.s.commitCh) })
	}
	return tx.Tx.Commit()
}

// Property C07, first sentence: "every operation takes effect atomically at some instant
// between its call and its return". Two goroutines use one handle on the default (bbolt)
// backend: one runs a ForEach whose consumer looks a document up by id (a read nested in a
// read, which works when nothing else is running), the other inserts a document. The two
// operations block each other for ever: the insert waits for the first read transaction to
// end before it can grow the file mapping, the nested read waits behind the insert
// (a pending writer of the mapping lock stops new readers), the ForEach waits for its consumer.
// Neither call returns, and every later write on the handle hangs as well. The same
// schedule completes on the badger backend.
func TestHuntConcurrentInsertAndNestedReadNeverReturn(t *testing.T) {
	dir, err := os.MkdirTemp("", "hunt-c07")
	if err != nil {
		t.Fatal(err)
	}
	defer os.RemoveAll(dir)

	inner, err := bbolt.Open(dir)
	if err != nil {
		t.Fatal(err)
	}
	s := &huntCommitSignalStore{Store: inner}
	db, err := c.OpenWithStore(s)
	if err != nil {
		t.Fatal(err)
	}

	if err := db.CreateCollection("c"); err != nil {
		t.Fatal(err)
	}
	doc := d.NewDocument()
	doc.Set("x", 1)
	id, err := db.InsertOne("c", doc)
	if err != nil {
		t.Fatal(err)
	}

	// from now on the store signals the first commit: the one of the concurrent insert
	s.commitCh = make(chan struct{})

	inConsumer := make(chan struct{})
	readDone := make(chan error, 1)
	insertDone := make(chan error, 1)

	// goroutine 1: a query whose consumer issues a point query
	go func() {
		readDone <- db.ForEach(q.NewQuery("c"), func(_ *d.Document) bool {
			close(inConsumer)
			<-s.commitCh                       // the insert of the other goroutine has reached its commit
			time.Sleep(300 * time.Millisecond) // and is inside it
			found, err := db.FindById("c", id)
			return err == nil && found != nil
		})
	}()

	// goroutine 2: an insert (large enough for the database file to grow)
	<-inConsumer
	go func() {
		big := d.NewDocument()
		big.Set("blob", strings.Repeat("x", 1<<20))
		insertDone <- db.Insert("c", big)
	}()

	timeout := time.After(5 * time.Second)
	for pending := 2; pending > 0; pending-- {
		select {
		case err := <-readDone:
			if err != nil {
				t.Fatalf("ForEach: %v", err)
			}
		case err := <-insertDone:
			if err != nil {
				t.Fatalf("Insert: %v", err)
			}
		case <-timeout:
			// the handle cannot be closed either: Close waits for the same locks
			t.Fatalf("%d of the 2 concurrent operations (ForEach with a nested FindById, Insert) have not returned after 5s", pending)
		}
	}

	n, err := db.Count(q.NewQuery("c"))
	if err != nil || n != 2 {
		t.Fatalf("Count = %d, %v; want 2", n, err)
	}
	db.Close()
}
