// place in: document
package document

import (
	"fmt"
	"reflect"
	"testing"
)

// ---------------------------------------------------------------------------------------------
// 1. Embedded flattening: a field promoted from a DEEPER embedded struct replaces the one promoted
//    from a shallower embedded struct declared before it (normalizeStruct only protects the fields
//    of the struct itself, see fix 9ba5093).
//    Property: "structs become maps honouring clover tags (... embedded flattening)" and
//    "a struct converted to a document and unmarshalled back is unchanged".
// ---------------------------------------------------------------------------------------------

type HuntDeep struct{ ID string }
type HuntMid struct{ HuntDeep }
type HuntShallow struct{ ID string }

// for Go (and encoding/json, through which Unmarshal goes) HuntDepth.ID is HuntShallow.ID (depth 1),
// which hides HuntMid.HuntDeep.ID (depth 2), whatever the order of declaration
type HuntDepth struct {
	HuntShallow
	HuntMid
}

func TestHuntDeeperPromotedFieldReplacesShallowerOne(t *testing.T) {
	in := HuntDepth{HuntShallow: HuntShallow{ID: "s"}} // the hidden field is left empty: nothing has to be lost
	if in.ID != "s" {
		t.Fatal("Go promotes the shallower field")
	}

	doc := NewDocumentOf(in)
	if got := doc.Get("ID"); got != "s" {
		t.Errorf("document field ID = %#v, want \"s\" (the value of in.ID); document: %v", got, doc.ToMap())
	}

	var out HuntDepth
	if err := doc.Unmarshal(&out); err != nil {
		t.Fatal(err)
	}
	if !reflect.DeepEqual(in, out) {
		t.Errorf("struct changed by NewDocumentOf + Unmarshal:\n in: %+v\nout: %+v", in, out)
	}
}

// ---------------------------------------------------------------------------------------------
// 2. Unmarshal: the rename-back walk (renameStructFields) lets a promoted field of an embedded
//    struct declared AFTER a field of the struct itself overwrite that field when the clover tag
//    gives them different document names but encoding/json knows both under the same name.
//    Property: "a struct converted to a document and unmarshalled back is unchanged"
//    (tags: rename + embedded flattening).
// ---------------------------------------------------------------------------------------------

type HuntBase struct{ ID string }

type HuntRenamed struct {
	ID string `clover:"id"`
	HuntBase
}

func TestHuntUnmarshalPromotedFieldOverwritesRenamedOwnField(t *testing.T) {
	in := HuntRenamed{ID: "o"} // HuntBase.ID is empty: the struct is representable without any loss

	doc := NewDocumentOf(in)
	// the document itself is right: the two fields are stored under different names
	if doc.Get("id") != "o" || doc.Get("ID") != "" {
		t.Fatalf("unexpected document %v", doc.ToMap())
	}

	var out HuntRenamed
	if err := doc.Unmarshal(&out); err != nil {
		t.Fatal(err)
	}
	if !reflect.DeepEqual(in, out) {
		t.Errorf("struct changed by NewDocumentOf + Unmarshal:\n in: %+v\nout: %+v", in, out)
	}
}

// ---------------------------------------------------------------------------------------------
// 3. omitempty + embedded flattening: a field of the struct itself which is omitted because it is
//    empty no longer hides the promoted field of the same name: the value of the HIDDEN field is
//    stored under the name of the struct's own field, and Unmarshal hands it to the own field.
//    Property: "structs become maps honouring clover tags (rename, omitempty, embedded
//    flattening)": the document must not hold ID (in.ID is empty and omitempty), and the
//    visible field in.ID must be unchanged after the round trip.
// ---------------------------------------------------------------------------------------------

type HuntOmit struct {
	ID string `clover:",omitempty"`
	HuntBase
}

func TestHuntOmittedOwnFieldReplacedByHiddenPromotedField(t *testing.T) {
	in := HuntOmit{HuntBase: HuntBase{ID: "hidden"}}
	if in.ID != "" {
		t.Fatal("Go selects the field of the struct itself")
	}

	doc := NewDocumentOf(in)
	if doc.Has("ID") {
		t.Errorf("in.ID is empty and tagged omitempty, but the document holds ID = %#v", doc.Get("ID"))
	}

	var out HuntOmit
	if err := doc.Unmarshal(&out); err != nil {
		t.Fatal(err)
	}
	if out.ID != in.ID {
		t.Errorf("field ID of the struct changed by NewDocumentOf + Unmarshal: %q -> %q (out: %+v)", in.ID, out.ID, out)
	}
}

// ---------------------------------------------------------------------------------------------
// 4. Pointers: a pointer to an interface variable is not followed to the value it holds (the loop
//    of getElemValueAndType stops on the interface): the value is reported as unsupported and Set
//    silently does nothing - unless the interface holds a time.Time, which is stored.
//    Property: "pointers are followed to nil or a value", "signed integers become int64".
// ---------------------------------------------------------------------------------------------

func TestHuntPointerToInterfaceIsNotFollowed(t *testing.T) {
	var x interface{} = 5

	doc := NewDocument()
	doc.Set("direct", x)
	doc.Set("ptr", &x)

	if doc.Get("direct") != int64(5) {
		t.Fatalf("direct = %#v", doc.Get("direct"))
	}
	if !doc.Has("ptr") || doc.Get("ptr") != int64(5) {
		t.Errorf("Set(\"ptr\", &x) with x = interface{}(5): Has = %v, Get = %#v, want int64(5)", doc.Has("ptr"), doc.Get("ptr"))
	}

	// the same inside a slice makes the whole value unsupported
	doc.Set("list", []interface{}{&x})
	if !doc.Has("list") {
		t.Errorf("Set(\"list\", []interface{}{&x}) was ignored")
	}
}

// ---------------------------------------------------------------------------------------------
// 5. Determinism: SetAll (behind DB.Update) applies Set in the iteration order of the Go map, and
//    Set of a field replaces what Set of a sub-field has stored: the same call on the same document
//    yields different documents from one run to the next.
//    Property: "... convert Go values ... deterministically"; "Set, Get and Has agree on dotted
//    paths" (after SetAll returned, Get("a.b") is sometimes 2 and sometimes nil).
// ---------------------------------------------------------------------------------------------

func TestHuntSetAllOverlappingPathsIsNotDeterministic(t *testing.T) {
	outcomes := make(map[string]int)
	for i := 0; i < 200; i++ {
		doc := NewDocument()
		doc.SetAll(map[string]interface{}{
			"a":   map[string]interface{}{"c": 1},
			"a.b": 2,
		})
		outcomes[fmt.Sprint(doc.ToMap())]++
	}
	if len(outcomes) != 1 {
		t.Errorf("the same SetAll on an empty document gave %d different documents: %v", len(outcomes), outcomes)
	}
}
