// place in: .
package clover_test

import (
	"os"
	"sort"
	"testing"

	"github.com/stretchr/testify/assert"
	"github.com/stretchr/testify/require"

	c "github.com/ostafen/clover/v2"
	d "github.com/ostafen/clover/v2/document"
	q "github.com/ostafen/clover/v2/query"
	"github.com/ostafen/clover/v2/store"
	badgerstore "github.com/ostafen/clover/v2/store/badger"
	"github.com/ostafen/clover/v2/store/bbolt"
)

// huntC06Keys lists every key of the store (the "raw key/value listing through the
// store interface" of the property).
func huntC06Keys(t *testing.T, st store.Store) []string {
	tx, err := st.Begin(false)
	require.NoError(t, err)
	defer tx.Rollback()

	cursor, err := tx.Cursor(true)
	require.NoError(t, err)
	defer cursor.Close()

	keys := make([]string, 0)
	require.NoError(t, cursor.Seek([]byte{0}))
	for ; cursor.Valid(); cursor.Next() {
		item, err := cursor.Item()
		require.NoError(t, err)
		keys = append(keys, string(item.Key))
	}
	return keys
}

func huntC06Stores(t *testing.T, test func(t *testing.T, st store.Store, db *c.DB)) {
	open := map[string]func(string) (store.Store, error){
		"bbolt":  bbolt.Open,
		"badger": badgerstore.Open,
	}
	for _, name := range []string{"bbolt", "badger"} {
		t.Run(name, func(t *testing.T) {
			dir, err := os.MkdirTemp("", "hunt-c06")
			require.NoError(t, err)
			defer os.RemoveAll(dir)

			st, err := open[name](dir)
			require.NoError(t, err)
			db, err := c.OpenWithStore(st)
			require.NoError(t, err)
			defer db.Close()

			test(t, st, db)
		})
	}
}

// Property C06, first sentence: "every index holds exactly one entry per document of its
// collection, under that document's current field value, and nothing else", and second
// sentence: "Dropping ... a collection leaves nothing behind".
//
// A MatchFunc predicate gets a copy of the document (repair b91acc7: "what it does to its
// argument must not reach the document the operation goes on to ... delete"), but the copy is
// shallow: the arrays held by the fields are shared with the document the plan hands on. A
// predicate which sorts the tags of its argument before looking at them makes Delete remove
// the index entry of the SORTED array; the entry of the stored array stays behind.
func TestHuntC06_MatchFuncSortingAnArrayLeavesIndexEntryBehind(t *testing.T) {
	huntC06Stores(t, func(t *testing.T, st store.Store, db *c.DB) {
		require.NoError(t, db.CreateCollection("coll"))
		require.NoError(t, db.CreateIndex("coll", "tags"))

		doc := d.NewDocument()
		doc.Set("tags", []interface{}{"b", "a"})
		id, err := db.InsertOne("coll", doc)
		require.NoError(t, err)

		hasTagA := func(doc *d.Document) bool {
			tags, _ := doc.Get("tags").([]interface{})
			sort.Slice(tags, func(i, j int) bool { return tags[i].(string) < tags[j].(string) })
			return len(tags) > 0 && tags[0] == "a"
		}
		require.NoError(t, db.Delete(q.NewQuery("coll").MatchFunc(hasTagA)))

		n, err := db.Count(q.NewQuery("coll"))
		require.NoError(t, err)
		require.Equal(t, 0, n) // the document is gone ...

		// ... so only the record of the collection may be left in the store
		assert.Equal(t, []string{"coll:coll"}, huntC06Keys(t, st), "keys left after deleting the only document")

		// the same through the API: the entry survives the drop of the collection and is inherited by
		// a document of the re-created collection
		require.NoError(t, db.DropCollection("coll"))
		assert.Equal(t, []string{}, huntC06Keys(t, st), "keys left after dropping the only collection")

		require.NoError(t, db.CreateCollection("coll"))
		require.NoError(t, db.CreateIndex("coll", "tags"))
		again := d.NewDocument()
		again.Set("_id", id)
		again.Set("tags", []interface{}{"z"})
		require.NoError(t, db.Insert("coll", again))

		sorted, err := db.FindAll(q.NewQuery("coll").Sort(q.SortOption{Field: "tags", Direction: 1}))
		require.NoError(t, err)
		assert.Len(t, sorted, 1, "documents returned through the index on tags (the collection holds one document)")
	})
}
