// place in: .
package clover_test

import (
	"os"
	"sort"
	"testing"

	"github.com/stretchr/testify/require"

	c "github.com/ostafen/clover/v2"
	d "github.com/ostafen/clover/v2/document"
	q "github.com/ostafen/clover/v2/query"
)

// huntFirstTagIs selects the documents whose smallest tag is the given one. Like many
// predicates written by users it orders the list before looking at it, and it does so on the
// document it is given (which the library says is a copy: "the predicate gets a copy: what it
// does to its argument must not reach the document the operation goes on to return, update or
// delete").
func huntFirstTagIs(tag string) func(doc *d.Document) bool {
	return func(doc *d.Document) bool {
		tags, _ := doc.Get("tags").([]interface{})
		sort.Slice(tags, func(i, j int) bool { return tags[i].(string) < tags[j].(string) })
		return len(tags) > 0 && tags[0] == tag
	}
}

// Property C03: "Update, UpdateFunc and Delete applied to a query change exactly the documents
// that FindAll on that query would have returned [...]: each of them is updated (the update
// function runs on it exactly once, ON ITS PRE-CALL VALUE)".
//
// The query selects with a MatchFunc predicate. The update function must receive the document
// as it is stored before the call (tags = [b a]), and as it only adds the field "seen", the
// stored tags must still be [b a] afterwards.
func TestHuntUpdateFuncRunsOnWhatThePredicateLeftInANestedList(t *testing.T) {
	dir, err := os.MkdirTemp("", "hunt3-C03")
	require.NoError(t, err)
	defer os.RemoveAll(dir)

	db, err := c.Open(dir)
	require.NoError(t, err)
	defer db.Close()

	require.NoError(t, db.CreateCollection("c"))

	doc := d.NewDocument()
	doc.Set("tags", []interface{}{"b", "a"})
	id, err := db.InsertOne("c", doc)
	require.NoError(t, err)

	stored, err := db.FindById("c", id)
	require.NoError(t, err)
	preCall := stored.Get("tags")
	require.Equal(t, []interface{}{"b", "a"}, preCall)

	var received interface{}
	calls := 0
	err = db.UpdateFunc(q.NewQuery("c").MatchFunc(huntFirstTagIs("a")), func(doc *d.Document) *d.Document {
		calls++
		received = append([]interface{}{}, doc.Get("tags").([]interface{})...)
		updated := doc.Copy()
		updated.Set("seen", true)
		return updated
	})
	require.NoError(t, err)
	require.Equal(t, 1, calls)

	// the update function runs on the pre-call value of the document
	require.Equal(t, preCall, received, "value of tags handed to the update function")

	// and the document is changed by the update function only, which leaves tags alone
	after, err := db.FindById("c", id)
	require.NoError(t, err)
	require.Equal(t, true, after.Get("seen"))
	require.Equal(t, preCall, after.Get("tags"), "value of tags stored after an update which does not set it")
}

// Property C03: "Update, UpdateFunc and Delete [...] each of them is updated (the update
// function runs on it EXACTLY ONCE, on its pre-call value) or removed".
//
// Same predicate, with an index on the field it looks at. Delete removes the selected document
// (a user supplied _id is used, as the library allows), a document with that _id is inserted
// again, and an UpdateFunc over the whole collection, ordered by the indexed field, must call
// the update function once for the only document of the collection.
func TestHuntUpdateFuncRunsTwiceAfterDeleteSelectedByPredicateOnIndexedList(t *testing.T) {
	dir, err := os.MkdirTemp("", "hunt3-C03")
	require.NoError(t, err)
	defer os.RemoveAll(dir)

	db, err := c.Open(dir)
	require.NoError(t, err)
	defer db.Close()

	require.NoError(t, db.CreateCollection("c"))
	require.NoError(t, db.CreateIndex("c", "tags"))

	const id = "3884a766-04b9-4eaa-9893-c56f77000cbb"

	doc := d.NewDocument()
	doc.Set("_id", id)
	doc.Set("tags", []interface{}{"b", "a"})
	require.NoError(t, db.Insert("c", doc))

	require.NoError(t, db.Delete(q.NewQuery("c").MatchFunc(huntFirstTagIs("a"))))

	n, err := db.Count(q.NewQuery("c"))
	require.NoError(t, err)
	require.Equal(t, 0, n)

	doc = d.NewDocument()
	doc.Set("_id", id)
	doc.Set("tags", []interface{}{"z"})
	require.NoError(t, db.Insert("c", doc))

	all := q.NewQuery("c").Sort(q.SortOption{Field: "tags", Direction: 1})

	found, err := db.FindAll(all)
	require.NoError(t, err)

	calls := 0
	err = db.UpdateFunc(all, func(doc *d.Document) *d.Document {
		calls++
		return doc
	})
	require.NoError(t, err)
	require.Equal(t, 1, calls, "calls of the update function for a collection of one document (FindAll returned %d)", len(found))
}
