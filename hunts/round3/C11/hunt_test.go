// place in: .
package clover_test

import (
	"os"
	"strings"
	"testing"

	"github.com/stretchr/testify/require"

	c "github.com/ostafen/clover/v2"
	d "github.com/ostafen/clover/v2/document"
	q "github.com/ostafen/clover/v2/query"
)

// C11: "A document read back from the database - by id or by query [...] - is deeply equal to the
// normalised document that was written: [...] the same values", "at any nesting depth".
//
// A MatchFunc predicate is handed a copy of the document (fix b91acc7), but the copy is shallow below
// the first level of maps: arrays, and objects nested in arrays, are shared with the document the
// query goes on to return. A predicate which normalises the elements of an array before testing them
// (the very use case of the fix: lower-casing before comparing) changes the documents FindAll returns,
// which are then no longer the documents that were written (and that FindById returns).
func TestHuntC11PredicateSeesSharedArrays(t *testing.T) {
	dir, err := os.MkdirTemp("", "hunt3-C11")
	require.NoError(t, err)
	defer os.RemoveAll(dir)

	db, err := c.Open(dir)
	require.NoError(t, err)
	defer db.Close()

	require.NoError(t, db.CreateCollection("coll"))

	doc := d.NewDocument()
	doc.Set("tags", []interface{}{"Go", "DB"})
	doc.Set("items", []interface{}{map[string]interface{}{"name": "Widget"}})
	id, err := db.InsertOne("coll", doc)
	require.NoError(t, err)

	written := map[string]interface{}{
		"_id":   id,
		"tags":  []interface{}{"Go", "DB"},
		"items": []interface{}{map[string]interface{}{"name": "Widget"}},
	}

	// selects the documents having the tag "go" and an item called "widget", whatever the case
	hasTag := func(doc *d.Document) bool {
		tags, _ := doc.Get("tags").([]interface{})
		for i := range tags {
			tags[i] = strings.ToLower(tags[i].(string))
		}
		items, _ := doc.Get("items").([]interface{})
		for _, item := range items {
			m := item.(map[string]interface{})
			m["name"] = strings.ToLower(m["name"].(string))
		}
		return len(tags) > 0 && tags[0] == "go" && len(items) > 0
	}

	docs, err := db.FindAll(q.NewQuery("coll").MatchFunc(hasTag))
	require.NoError(t, err)
	require.Len(t, docs, 1)

	byId, err := db.FindById("coll", id)
	require.NoError(t, err)
	require.Equal(t, written, byId.ToMap(), "read by id")

	// the property: the document read by query is the document that was written
	require.Equal(t, written, docs[0].ToMap(), "read by query")
}

// Same root cause as TestHuntC11PredicateSeesSharedArrays, lasting consequence: Update builds the new
// document from a (again shallow) copy of the document the predicate has seen, so that what the
// predicate did to an array is written to the store. C11: the document read back by id after
// DB.Update is the document that was written, i.e. the stored document with the update map applied
// ({"seen": true}); its tags must still be "Go", "DB".
func TestHuntC11PredicateChangesStoredArraysOnUpdate(t *testing.T) {
	dir, err := os.MkdirTemp("", "hunt3-C11")
	require.NoError(t, err)
	defer os.RemoveAll(dir)

	db, err := c.Open(dir)
	require.NoError(t, err)
	defer db.Close()

	require.NoError(t, db.CreateCollection("coll"))

	doc := d.NewDocument()
	doc.Set("tags", []interface{}{"Go", "DB"})
	id, err := db.InsertOne("coll", doc)
	require.NoError(t, err)

	hasTag := func(doc *d.Document) bool {
		tags, _ := doc.Get("tags").([]interface{})
		for i := range tags {
			tags[i] = strings.ToLower(tags[i].(string))
		}
		return len(tags) > 0 && tags[0] == "go"
	}

	require.NoError(t, db.Update(q.NewQuery("coll").MatchFunc(hasTag), map[string]interface{}{"seen": true}))

	byId, err := db.FindById("coll", id)
	require.NoError(t, err)
	require.Equal(t, map[string]interface{}{
		"_id":  id,
		"tags": []interface{}{"Go", "DB"},
		"seen": true,
	}, byId.ToMap())
}
