// place in: .
package clover_test

import (
	"sort"
	"strings"
	"testing"

	"github.com/stretchr/testify/require"

	c "github.com/ostafen/clover/v2"
	d "github.com/ostafen/clover/v2/document"
	q "github.com/ostafen/clover/v2/query"
	"github.com/ostafen/clover/v2/store"
	badgerstore "github.com/ostafen/clover/v2/store/badger"
	"github.com/ostafen/clover/v2/store/bbolt"
)

// huntRawKeys lists every key of the store of a (closed) database directory.
func huntRawKeys(t *testing.T, open func(string) (store.Store, error), dir string) []string {
	st, err := open(dir)
	require.NoError(t, err)
	defer st.Close()

	tx, err := st.Begin(false)
	require.NoError(t, err)
	defer tx.Rollback()

	cursor, err := tx.Cursor(true)
	require.NoError(t, err)
	defer cursor.Close()

	keys := make([]string, 0)
	require.NoError(t, cursor.Seek([]byte{0}))
	for ; cursor.Valid(); cursor.Next() {
		item, err := cursor.Item()
		require.NoError(t, err)
		keys = append(keys, string(item.Key))
	}
	return keys
}

// Property C05: "Every operation that has returned success is still visible, complete and
// unchanged after the database is closed and reopened [...] and indexes, counts and catalog
// are intact without any rebuild."
//
// History: an index on "tags", one document, then Delete with a MatchFunc predicate which
// sorts the tags of its argument in place before looking at them. Delete returns nil, the
// document is gone, but the index entry of the document is still in the store after
// close/reopen (raw key audit); when a document with the same _id is inserted again, the
// index holds two entries for it and an index-backed query returns it twice.
func huntDeleteWithSortingPredicate(t *testing.T, openDB func(string) (*c.DB, error), openStore func(string) (store.Store, error)) {
	dir := t.TempDir()

	db, err := openDB(dir)
	require.NoError(t, err)

	require.NoError(t, db.CreateCollection("c"))
	require.NoError(t, db.CreateIndex("c", "tags"))

	const id = "6ba7b810-9dad-41d1-80b4-00c04fd430c8"

	doc := d.NewDocument()
	doc.Set("_id", id)
	doc.Set("tags", []string{"b", "a"})
	require.NoError(t, db.Insert("c", doc))

	hasTagA := func(doc *d.Document) bool {
		tags, _ := doc.Get("tags").([]interface{})
		sort.Slice(tags, func(i, j int) bool { return tags[i].(string) < tags[j].(string) })
		return len(tags) > 0 && tags[0] == "a"
	}
	require.NoError(t, db.Delete(q.NewQuery("c").MatchFunc(hasTagA)))

	n, err := db.Count(q.NewQuery("c"))
	require.NoError(t, err)
	require.Equal(t, 0, n)
	require.NoError(t, db.Close())

	// raw key audit after reopening: an empty collection with an index has its catalog record only
	keys := huntRawKeys(t, openStore, dir)
	for _, key := range keys {
		if strings.HasPrefix(key, "c:c;i:tags;") {
			t.Errorf("the deleted document still has an index entry: %q", key)
		}
	}

	// the same through the public API: the document is written again (e.g. restored from a backup)
	db, err = openDB(dir)
	require.NoError(t, err)
	defer db.Close()

	doc = d.NewDocument()
	doc.Set("_id", id)
	doc.Set("tags", []string{"z"})
	require.NoError(t, db.Insert("c", doc))

	n, err = db.Count(q.NewQuery("c"))
	require.NoError(t, err)
	require.Equal(t, 1, n)

	docs, err := db.FindAll(q.NewQuery("c").Sort(q.SortOption{Field: "tags"}))
	require.NoError(t, err)
	require.Len(t, docs, 1, "the index on tags holds two entries for the only document of the collection")
}

func TestHuntDeleteWithInPlacePredicateLeavesIndexEntry(t *testing.T) {
	t.Run("bbolt", func(t *testing.T) {
		huntDeleteWithSortingPredicate(t, c.Open, bbolt.Open)
	})

	t.Run("badger", func(t *testing.T) {
		huntDeleteWithSortingPredicate(t, func(dir string) (*c.DB, error) {
			st, err := badgerstore.Open(dir)
			if err != nil {
				return nil, err
			}
			return c.OpenWithStore(st)
		}, badgerstore.Open)
	})
}
