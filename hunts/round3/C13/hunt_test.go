// place in: .
package clover_test

import (
	"os"
	"testing"

	c "github.com/ostafen/clover/v2"
	d "github.com/ostafen/clover/v2/document"
	q "github.com/ostafen/clover/v2/query"
	badgerstore "github.com/ostafen/clover/v2/store/badger"
	"github.com/ostafen/clover/v2/store/bbolt"
)

// huntC13EachBackend runs test once on a fresh bbolt database and once on a fresh badger database.
func huntC13EachBackend(t *testing.T, test func(t *testing.T, db *c.DB)) {
	t.Run("bbolt", func(t *testing.T) {
		dir, err := os.MkdirTemp("", "hunt3-C13-")
		if err != nil {
			t.Fatal(err)
		}
		defer os.RemoveAll(dir)
		st, err := bbolt.Open(dir)
		if err != nil {
			t.Fatal(err)
		}
		db, _ := c.OpenWithStore(st)
		defer db.Close()
		test(t, db)
	})
	t.Run("badger", func(t *testing.T) {
		dir, err := os.MkdirTemp("", "hunt3-C13-")
		if err != nil {
			t.Fatal(err)
		}
		defer os.RemoveAll(dir)
		st, err := badgerstore.Open(dir)
		if err != nil {
			t.Fatal(err)
		}
		db, _ := c.OpenWithStore(st)
		defer db.Close()
		test(t, db)
	})
}

// Property C13, first sentence: "any document, index or query operation on a missing
// collection fails with ErrCollectionNotExist".
//
// ReplaceById is a document operation. On a database without the collection "ghost" it
// does not look the collection up when the id of the replacement differs from the id
// supplied: the caller is told that the ids do not match, not that the collection is missing
// (CreateIndex, by contrast, looks the collection up before it validates the field name).
func TestHuntC13ReplaceByIdOnMissingCollection(t *testing.T) {
	huntC13EachBackend(t, func(t *testing.T, db *c.DB) {
		const idA = "3b241101-e2bb-4255-8caf-4136c566a962"
		const idB = "3b241101-e2bb-4255-8caf-4136c566a963"

		doc := d.NewDocument()
		doc.Set("_id", idB)
		doc.Set("x", 1)

		err := db.ReplaceById("ghost", idA, doc)
		if err != c.ErrCollectionNotExist {
			t.Fatalf("ReplaceById on a missing collection: expected ErrCollectionNotExist, got: %v", err)
		}
	})
}

// Property C13, first sentence: "any document, index or query operation on a missing
// collection fails with ErrCollectionNotExist".
//
// Every query operation normalises the criteria before it looks the collection up: a query
// on the missing collection "ghost" whose operand cannot be normalised (a channel) fails
// with "invalid dtype" instead of ErrCollectionNotExist. The same holds for FindFirst,
// Exists, ForEach, IterateDocs, Count, Update, UpdateFunc, Delete and CreateCollectionByQuery.
func TestHuntC13QueryOnMissingCollectionWithBadOperand(t *testing.T) {
	huntC13EachBackend(t, func(t *testing.T, db *c.DB) {
		query := q.NewQuery("ghost").Where(q.Field("x").Eq(make(chan int)))

		if _, err := db.FindAll(query); err != c.ErrCollectionNotExist {
			t.Errorf("FindAll on a missing collection: expected ErrCollectionNotExist, got: %v", err)
		}
		if _, err := db.Count(query); err != c.ErrCollectionNotExist {
			t.Errorf("Count on a missing collection: expected ErrCollectionNotExist, got: %v", err)
		}
		if err := db.Delete(query); err != c.ErrCollectionNotExist {
			t.Errorf("Delete on a missing collection: expected ErrCollectionNotExist, got: %v", err)
		}
	})
}
