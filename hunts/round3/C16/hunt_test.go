// place in: query
package query_test

import (
	"testing"

	d "github.com/ostafen/clover/v2/document"
	q "github.com/ostafen/clover/v2/query"
)

// Property C16, sentence "In matches iff the field compares equal to one of the listed
// values" (together with "Exists means the field is present even when nil", which makes an
// absent field and a nil field two different things for criteria).
//
// A document WITHOUT the field x has no field that could compare equal to anything: the
// library's own equality criterion says so (Field("x").Eq(nil) does not match it, and neither
// does Eq of a reference to another absent field). In(v1..vn) must therefore select exactly
// the documents selected by Eq(v1) Or .. Or Eq(vn). Instead In treats the absent field as a
// nil value: In(nil), In(1, nil), In("$x") and In(Field("zz")) all match the document that
// lacks x, so that "x is one of {nil}" and "x does not exist" hold for the same document.
func TestHuntInMatchesAbsentField(t *testing.T) {
	doc := d.NewDocument()
	doc.Set("y", 1) // no field x, no field zz

	x := q.Field("x")

	// what the library itself says about the absent field
	if x.Exists().Satisfy(doc) {
		t.Fatal("x should not exist")
	}
	if x.Eq(nil).Satisfy(doc) {
		t.Fatal("Eq(nil) matches a document without the field")
	}

	cases := []struct {
		name   string
		in     q.Criteria
		orOfEq q.Criteria
	}{
		{"In(nil)", x.In(nil), x.Eq(nil)},
		{"In(1, nil)", x.In(1, nil), x.Eq(1).Or(x.Eq(nil))},
		{`In("$x")`, x.In("$x"), x.Eq("$x")},
		{`In(Field("zz"))`, x.In(q.Field("zz")), x.Eq(q.Field("zz"))},
	}

	for _, c := range cases {
		in, eq := c.in.Satisfy(doc), c.orOfEq.Satisfy(doc)
		if in != eq {
			t.Errorf("%s on a document without x: In = %v, the disjunction of Eq over the same values = %v", c.name, in, eq)
		}
		// "x is one of the listed values" and "x does not exist" cannot both hold
		if c.in.And(x.NotExists()).Satisfy(doc) {
			t.Errorf("%s AND NotExists(x) is satisfied by a document without x", c.name)
		}
	}
}
