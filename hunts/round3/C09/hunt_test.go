// place in: .
package clover_test

import (
	"testing"

	c "github.com/ostafen/clover/v2"
	d "github.com/ostafen/clover/v2/document"
	q "github.com/ostafen/clover/v2/query"
)

// C09, first sentence: "For any query q and database state: Count(q) equals the length of
// FindAll(q)" (the state is reached by a history of writes, the query has no criteria and a sort).
//
// The predicate of a MatchFunc criteria is applied to Document.Copy() of the document the plan
// hands on (fix b91acc7), but that copy is shallow for slices: a predicate which touches an
// element of an array field still modifies the document Update goes on to use. Update then
// removes the index entry of the MODIFIED value (there is none) instead of the stored one, and
// the document ends up with two entries in the index on the field. A criteria-less query sorted
// on that field is served by walking the index, so FindAll returns the only document of the
// collection twice, while Count answers 1 from the stored counter.
func TestHuntC09CountAfterUpdateThroughMatchFuncOnArrayField(t *testing.T) {
	db, err := c.Open(t.TempDir())
	if err != nil {
		t.Fatal(err)
	}
	defer db.Close()

	if err := db.CreateCollection("c"); err != nil {
		t.Fatal(err)
	}
	if err := db.CreateIndex("c", "tags"); err != nil {
		t.Fatal(err)
	}

	doc := d.NewDocument()
	doc.Set("tags", []interface{}{"b", "a"})
	if err := db.Insert("c", doc); err != nil {
		t.Fatal(err)
	}

	// a predicate that canonicalises the first tag of its argument before looking at it
	pred := func(doc *d.Document) bool {
		tags := doc.Get("tags").([]interface{})
		tags[0] = "z"
		return true
	}
	if err := db.Update(q.NewQuery("c").MatchFunc(pred), map[string]interface{}{"seen": true}); err != nil {
		t.Fatal(err)
	}

	all, err := db.FindAll(q.NewQuery("c"))
	if err != nil || len(all) != 1 {
		t.Fatalf("the collection holds one document, FindAll without sort: %d (%v)", len(all), err)
	}

	sorted := q.NewQuery("c").Sort(q.SortOption{Field: "tags", Direction: 1})
	docs, err := db.FindAll(sorted)
	if err != nil {
		t.Fatal(err)
	}
	n, err := db.Count(sorted)
	if err != nil {
		t.Fatal(err)
	}
	if n != len(docs) {
		ids := make([]string, 0)
		for _, doc := range docs {
			ids = append(ids, doc.ObjectId())
		}
		t.Fatalf("Count(q) = %d but FindAll(q) returns %d documents (ids %v)", n, len(docs), ids)
	}
}
