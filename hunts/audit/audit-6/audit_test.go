// place in: .
package clover_test

import (
	"os"
	"path/filepath"
	"testing"
	"time"

	"github.com/stretchr/testify/require"

	c "github.com/ostafen/clover/v2"
	d "github.com/ostafen/clover/v2/document"
	q "github.com/ostafen/clover/v2/query"
)

// Sibling of ed6f011 ("a NaN sorts where its index key sorts"): a time before 1970 (and the zero
// time.Time, whose UnixNano overflows) does not sort where its index key sorts. The key of a time is
// uint64(UnixNano()): a negative number of nanoseconds wraps around and is keyed after every later
// time, while the comparison (Before/After) puts it first. A range query served through the index
// loses these documents, and a sort served through the index returns them last.
func TestAuditTimesBefore1970IndexedVsUnindexed(t *testing.T) {
	runCloverTest(t, func(t *testing.T, db *c.DB) {
		times := []time.Time{
			{}, // the zero value of a struct field of type time.Time
			time.Date(1969, 7, 20, 0, 0, 0, 0, time.UTC),
			time.Date(1971, 1, 1, 0, 0, 0, 0, time.UTC),
			time.Date(2000, 1, 1, 0, 0, 0, 0, time.UTC),
		}

		for _, coll := range []string{"plain", "indexed"} {
			require.NoError(t, db.CreateCollection(coll))
			for i, tm := range times {
				doc := d.NewDocument()
				doc.Set("n", i)
				doc.Set("t", tm)
				require.NoError(t, db.Insert(coll, doc))
			}
		}
		require.NoError(t, db.CreateIndex("indexed", "t"))

		epoch := time.Date(1970, 1, 1, 0, 0, 0, 0, time.UTC)

		plain, err := db.Count(q.NewQuery("plain").Where(q.Field("t").Lt(epoch)))
		require.NoError(t, err)
		require.Equal(t, 2, plain)

		indexed, err := db.Count(q.NewQuery("indexed").Where(q.Field("t").Lt(epoch)))
		require.NoError(t, err)
		require.Equal(t, plain, indexed, "t < 1970-01-01 with an index on t")

		order := func(coll string) []interface{} {
			docs, err := db.FindAll(q.NewQuery(coll).Sort(q.SortOption{Field: "t", Direction: 1}))
			require.NoError(t, err)
			ns := make([]interface{}, 0)
			for _, doc := range docs {
				ns = append(ns, doc.Get("n"))
			}
			return ns
		}
		require.Equal(t, order("plain"), order("indexed"), "Sort(t) with an index on t")
	})
}

// be246cd: the reason given for the restriction is the fixed length of the id at the end of the
// index keys. The 36 character form in upper case has that length, was stored, indexed and found
// correctly before, and is now refused by Insert, ImportCollection and by every update of a
// document which already has such an id.
func TestAuditUpperCaseUUIDIsRefused(t *testing.T) {
	runCloverTest(t, func(t *testing.T, db *c.DB) {
		require.NoError(t, db.CreateCollection("coll"))
		require.NoError(t, db.CreateIndex("coll", "x"))

		id := "6BA7B810-9DAD-11D1-80B4-00C04FD430C8"
		doc := d.NewDocument()
		doc.Set("_id", id)
		doc.Set("x", 1)
		require.NoError(t, db.Insert("coll", doc), "a 36 character UUID in upper case")

		docs, err := db.FindAll(q.NewQuery("coll").Where(q.Field("x").Eq(1)))
		require.NoError(t, err)
		require.Len(t, docs, 1)
		require.Equal(t, id, docs[0].ObjectId())
	})
}

// Sibling of 7188759 in the operation rebuilt by 703764e: ImportCollection decodes every number of
// the file into a float64, which rounds the integers beyond 2^53 that ExportCollection writes
// exactly. After an export/import round trip the criterion which selects the document in the
// original collection (un-indexed, exact comparison) no longer selects it in the copy.
func TestAuditImportRoundsIntegersBeyond2To53(t *testing.T) {
	runCloverTest(t, func(t *testing.T, db *c.DB) {
		dir, err := os.MkdirTemp("", "audit-6-import")
		require.NoError(t, err)
		defer os.RemoveAll(dir)

		const big = int64(9007199254740993) // 2^53 + 1

		require.NoError(t, db.CreateCollection("orig"))
		doc := d.NewDocument()
		doc.Set("x", big)
		require.NoError(t, db.Insert("orig", doc))

		path := filepath.Join(dir, "orig.json")
		require.NoError(t, db.ExportCollection("orig", path))
		require.NoError(t, db.ImportCollection("copy", path))

		n, err := db.Count(q.NewQuery("orig").Where(q.Field("x").Eq(big)))
		require.NoError(t, err)
		require.Equal(t, 1, n)

		n, err = db.Count(q.NewQuery("copy").Where(q.Field("x").Eq(big)))
		require.NoError(t, err)
		require.Equal(t, 1, n, "x == 9007199254740993 after an export/import round trip")
	})
}
