// place in: document
package document_test

import (
	"reflect"
	"testing"

	"github.com/ostafen/clover/v2/document"
)

type AuditItem struct {
	X int    `clover:"ex"`
	S string `clover:"es" json:"s"`
}

// fef12c3: "Renamed fields of structs held ... in a map ... stayed under their clover names and
// were silently dropped by json.Unmarshal". They still are when the map of structs is the
// target of Unmarshal itself rather than a field of it: renameMapKeys gives up unless the
// target is a struct.
func TestAuditUnmarshalIntoMapOfStructs(t *testing.T) {
	in := map[string]AuditItem{"a": {X: 5, S: "five"}, "b": {X: 6, S: "six"}}

	doc := document.NewDocumentOf(in)
	if doc == nil {
		t.Fatal("no document")
	}
	if got := doc.Get("a.ex"); got != int64(5) {
		t.Fatalf("unexpected document: %v", doc.ToMap())
	}

	out := map[string]AuditItem{}
	if err := doc.Unmarshal(&out); err != nil {
		t.Fatal(err)
	}
	if !reflect.DeepEqual(in, out) {
		t.Errorf("round trip through a document: stored %+v (document %v), Unmarshal gave %+v", in, doc.ToMap(), out)
	}

	// the same value as a field of a struct comes back (this is what the commit repaired)
	type holder struct {
		M map[string]AuditItem `clover:"m"`
	}
	var h holder
	if err := document.NewDocumentOf(holder{M: in}).Unmarshal(&h); err != nil {
		t.Fatal(err)
	}
	if !reflect.DeepEqual(in, h.M) {
		t.Fatalf("as a field: %+v", h.M)
	}
}

type AuditBase struct {
	X int `clover:"ex"`
	Z string
}

type AuditNamedEmbedding struct {
	AuditBase `json:"base"`
	Y         int `clover:"why"`
}

type AuditPlainEmbedding struct {
	AuditBase
	Y int `clover:"why"`
}

// fef12c3: the walk follows the target's type through "embedded structs", but it takes every
// embedded struct for a flattened one. encoding/json does not promote the fields of an embedded
// struct which has a name in its json tag: it looks for them in an object under that name.
// The fields (renamed or not) are put at the level of the embedding struct, where
// json.Unmarshal drops them silently.
func TestAuditUnmarshalEmbeddedStructWithJSONName(t *testing.T) {
	plain := AuditPlainEmbedding{AuditBase: AuditBase{X: 5, Z: "z"}, Y: 1}
	var plainOut AuditPlainEmbedding
	if err := document.NewDocumentOf(plain).Unmarshal(&plainOut); err != nil {
		t.Fatal(err)
	}
	if !reflect.DeepEqual(plain, plainOut) {
		t.Fatalf("plain embedding: %+v", plainOut)
	}

	in := AuditNamedEmbedding{AuditBase: AuditBase{X: 5, Z: "z"}, Y: 1}
	doc := document.NewDocumentOf(in)
	if doc == nil {
		t.Fatal("no document")
	}

	var out AuditNamedEmbedding
	if err := doc.Unmarshal(&out); err != nil {
		t.Fatal(err)
	}
	if !reflect.DeepEqual(in, out) {
		t.Errorf("round trip through a document: stored %+v (document %v), Unmarshal gave %+v", in, doc.ToMap(), out)
	}
}

// fef12c3 (see also a9045bf, "a pointer to an interface variable is followed like every other
// pointer"): NewDocumentOf(&v) follows a pointer to an interface variable holding a *struct, and
// so does json.Unmarshal on the way back (it decodes into the struct the variable points to),
// but the renaming walk stops at the interface type: the renamed fields are dropped.
func TestAuditUnmarshalThroughPointerToInterface(t *testing.T) {
	var in interface{} = &AuditItem{X: 5, S: "five"}
	doc := document.NewDocumentOf(&in)
	if doc == nil {
		t.Fatal("no document")
	}

	direct := &AuditItem{}
	if err := doc.Unmarshal(direct); err != nil {
		t.Fatal(err)
	}
	if *direct != (AuditItem{X: 5, S: "five"}) {
		t.Fatalf("direct: %+v", direct)
	}

	var out interface{} = &AuditItem{}
	if err := doc.Unmarshal(&out); err != nil {
		t.Fatal(err)
	}
	if got := *(out.(*AuditItem)); got != (AuditItem{X: 5, S: "five"}) {
		t.Errorf("Unmarshal(&out) with out = &AuditItem{}: got %+v, document %v", got, doc.ToMap())
	}
}
