// place in: store/bbolt
package bbolt_test

import (
	"fmt"
	"os"
	"testing"
	"time"

	"github.com/ostafen/clover/v2/store/bbolt"
)

// 494713e: prev() repeats Cursor.Prev "while it yields no key although the bucket has keys
// before the current position". Cursor.Prev also yields no key, and for ever, once it has walked
// off the beginning of the bucket: when the transaction has put a key before the one the reverse
// cursor stands on (here: the cursor is on the first key and a smaller one is inserted), the
// condition of the loop stays true and Next never returns. Before the commit the scan simply
// ended there (as it does on badger, whose iterators do not see the later writes).
func TestAuditReverseCursorNextAfterSmallerKeyInserted(t *testing.T) {
	dir, err := os.MkdirTemp("", "audit-bbolt")
	if err != nil {
		t.Fatal(err)
	}

	s, err := bbolt.Open(dir)
	if err != nil {
		t.Fatal(err)
	}

	tx, err := s.Begin(true)
	if err != nil {
		t.Fatal(err)
	}
	for i := 1; i <= 5; i++ {
		if err := tx.Set([]byte(fmt.Sprintf("k%d", i)), []byte("v")); err != nil {
			t.Fatal(err)
		}
	}
	if err := tx.Commit(); err != nil {
		t.Fatal(err)
	}

	tx, err = s.Begin(true)
	if err != nil {
		t.Fatal(err)
	}

	cursor, err := tx.Cursor(false)
	if err != nil {
		t.Fatal(err)
	}
	if err := cursor.Seek([]byte("k2")); err != nil {
		t.Fatal(err)
	}
	cursor.Next()

	item, err := cursor.Item()
	if !cursor.Valid() || err != nil || string(item.Key) != "k1" {
		t.Fatalf("expected the cursor on k1: %v %q %v", cursor.Valid(), item.Key, err)
	}

	if err := tx.Set([]byte("k0"), []byte("v")); err != nil {
		t.Fatal(err)
	}

	done := make(chan struct{})
	go func() {
		defer close(done)
		cursor.Next()
	}()

	select {
	case <-done:
		// either outcome is fine: the end of the scan, or the new key
		if cursor.Valid() {
			item, _ := cursor.Item()
			if string(item.Key) != "k0" {
				t.Errorf("unexpected position %q", item.Key)
			}
		}
		cursor.Close()
		tx.Rollback()
		s.Close()
		os.RemoveAll(dir)
	case <-time.After(3 * time.Second):
		// the goroutine keeps using the transaction: nothing can be closed
		os.RemoveAll(dir)
		t.Fatalf("Next() of a reverse cursor standing on the first key does not return after a smaller key has been put in its transaction")
	}
}
