// place in: .
package clover_test

import (
	"fmt"
	"testing"
	"time"

	c "github.com/ostafen/clover/v2"
	d "github.com/ostafen/clover/v2/document"
	q "github.com/ostafen/clover/v2/query"
	"github.com/stretchr/testify/require"
)

// 756a4dd: a null element of an import file "decodes into a slice holding a nil pointer, which
// ImportCollection dereferenced: the call panicked (nil pointer dereference) instead of failing
// with an error". Insert (and InsertOne), which ImportCollection shares insertDocs with, still
// dereferences a nil element of its list of documents, where Save(collection, nil) reports
// an error.
func TestAuditInsertNilDocument(t *testing.T) {
	runCloverTest(t, func(t *testing.T, db *c.DB) {
		require.NoError(t, db.CreateCollection("c"))
		require.Error(t, db.Save("c", nil))

		var err error
		var panicked interface{}
		func() {
			defer func() { panicked = recover() }()
			err = db.Insert("c", nil)
		}()
		if panicked != nil {
			t.Errorf("Insert(\"c\", nil) panicked: %v", panicked)
			return
		}
		require.Error(t, err, fmt.Sprint("Insert of a nil document"))
	})
}

type auditEvent struct {
	When *time.Time `clover:"when"`
}

// Found while checking d16ce94 (times, pointed to or not, in documents and criteria) against an
// index; not caused by that commit. The key of a time in an index is uint64(UnixNano()), which
// wraps around for a time before 1970: such a time sorts after every later time in the index,
// while Compare orders it before them. The same query gives different answers with and without
// an index on the field, and a sort served by the index is out of order.
func TestAuditIndexedTimeBefore1970(t *testing.T) {
	runCloverTest(t, func(t *testing.T, db *c.DB) {
		t1960 := time.Date(1960, 1, 1, 0, 0, 0, 0, time.UTC)
		t2020 := time.Date(2020, 1, 1, 0, 0, 0, 0, time.UTC)

		for _, coll := range []string{"plain", "indexed"} {
			require.NoError(t, db.CreateCollection(coll))
			if coll == "indexed" {
				require.NoError(t, db.CreateIndex(coll, "when"))
			}
			require.NoError(t, db.Insert(coll, d.NewDocumentOf(auditEvent{When: &t1960})))
			require.NoError(t, db.Insert(coll, d.NewDocumentOf(auditEvent{When: &t2020})))
		}

		for _, criteria := range []struct {
			name string
			c    q.Criteria
		}{
			{"when > 1960", q.Field("when").Gt(&t1960)},
			{"when < 2020", q.Field("when").Lt(t2020)},
			{"when >= 1960 AND when <= 2020", q.Field("when").GtEq(t1960).And(q.Field("when").LtEq(t2020))},
		} {
			plain, err := db.Count(q.NewQuery("plain").Where(criteria.c))
			require.NoError(t, err)
			indexed, err := db.Count(q.NewQuery("indexed").Where(criteria.c))
			require.NoError(t, err)
			if plain != indexed {
				t.Errorf("%s: %d document(s) without an index, %d with an index on the field", criteria.name, plain, indexed)
			}
		}

		for _, coll := range []string{"plain", "indexed"} {
			docs, err := db.FindAll(q.NewQuery(coll).Sort(q.SortOption{Field: "when", Direction: 1}))
			require.NoError(t, err)
			require.Len(t, docs, 2)
			if first := docs[0].Get("when").(time.Time); !first.Equal(t1960) {
				t.Errorf("%s: ascending sort on when starts with %v", coll, first)
			}
		}
	})
}
