// place in: .
package clover_test

import (
	"fmt"
	"os"
	"testing"

	"github.com/stretchr/testify/require"

	c "github.com/ostafen/clover/v2"
	d "github.com/ostafen/clover/v2/document"
	q "github.com/ostafen/clover/v2/query"
	badgerstore "github.com/ostafen/clover/v2/store/badger"
	"github.com/ostafen/clover/v2/store/bbolt"
)

// auditRun runs the test on a fresh database of each backend.
func auditRun(t *testing.T, test func(t *testing.T, db *c.DB)) {
	openers := []struct {
		name string
		open func(dir string) (*c.DB, error)
	}{
		{"bbolt", func(dir string) (*c.DB, error) {
			s, err := bbolt.Open(dir)
			if err != nil {
				return nil, err
			}
			return c.OpenWithStore(s)
		}},
		{"badger", func(dir string) (*c.DB, error) {
			s, err := badgerstore.Open(dir)
			if err != nil {
				return nil, err
			}
			return c.OpenWithStore(s)
		}},
	}

	for _, o := range openers {
		t.Run(o.name, func(t *testing.T) {
			dir, err := os.MkdirTemp("", "clover-audit4")
			require.NoError(t, err)
			defer os.RemoveAll(dir)

			db, err := o.open(dir)
			require.NoError(t, err)
			defer db.Close()

			test(t, db)
		})
	}
}

// auditCall runs f and turns a panic into an error description.
func auditCall(f func() error) (err error, panicked interface{}) {
	defer func() {
		if r := recover(); r != nil {
			panicked = r
		}
	}()
	return f(), nil
}

type auditUnconvertible struct {
	Title string
	M     map[int]string // a map whose keys are not strings cannot be converted
}

// 5dffbb8: Save now reports a value that NewDocumentOf cannot convert, but the documented way
// of inserting a struct (InsertOne/Insert of NewDocumentOf(value)) still dereferences the nil
// document: the same input still panics with a nil pointer dereference, through the sibling
// operations.
func TestAuditInsertOfUnconvertibleValue(t *testing.T) {
	auditRun(t, func(t *testing.T, db *c.DB) {
		require.NoError(t, db.CreateCollection("coll"))

		value := auditUnconvertible{Title: "t", M: map[int]string{1: "a"}}

		// what the fix obtained for Save
		require.Error(t, db.Save("coll", value))

		err, panicked := auditCall(func() error {
			_, err := db.InsertOne("coll", d.NewDocumentOf(value))
			return err
		})
		require.Nil(t, panicked, "InsertOne(NewDocumentOf(value)) panicked instead of returning an error")
		require.Error(t, err)

		err, panicked = auditCall(func() error {
			return db.Insert("coll", d.NewDocument(), d.NewDocumentOf(42))
		})
		require.Nil(t, panicked, "Insert(.., NewDocumentOf(42)) panicked instead of returning an error")
		require.Error(t, err)
	})
}

// 5dffbb8: Save still panics on a *Document it cannot store: the zero Document (new(Document),
// or a Document declared as a variable) has no field map, and Save goes on to Insert, which
// sets the _id ("assignment to entry in nil map") instead of reporting the value.
func TestAuditSaveZeroDocument(t *testing.T) {
	auditRun(t, func(t *testing.T, db *c.DB) {
		require.NoError(t, db.CreateCollection("coll"))

		var doc d.Document
		_, panicked := auditCall(func() error {
			return db.Save("coll", &doc)
		})
		require.Nil(t, panicked, "Save(&Document{}) panicked")
	})
}

// 5dffbb8: a Document passed to Save by value is neither stored nor reported: it is converted
// field by field like a custom struct, it has no exported fields, so an EMPTY document is
// inserted and nil is returned: the content is silently lost.
func TestAuditSaveDocumentByValue(t *testing.T) {
	auditRun(t, func(t *testing.T, db *c.DB) {
		require.NoError(t, db.CreateCollection("coll"))

		doc := d.NewDocument()
		doc.Set("title", "hello")

		err := db.Save("coll", *doc)
		if err != nil {
			return // reporting the value is fine
		}

		docs, err := db.FindAll(q.NewQuery("coll"))
		require.NoError(t, err)
		require.Len(t, docs, 1)
		require.Equal(t, "hello", docs[0].Get("title"),
			fmt.Sprintf("Save returned nil but stored %v", docs[0].ToMap()))
	})
}
