// place in: .
package clover_test

import (
	"os"
	"path/filepath"
	"testing"

	c "github.com/ostafen/clover/v2"
	d "github.com/ostafen/clover/v2/document"
	q "github.com/ostafen/clover/v2/query"
	"github.com/ostafen/clover/v2/store"
	badgerstore "github.com/ostafen/clover/v2/store/badger"
	"github.com/ostafen/clover/v2/store/bbolt"
)

func auditForEachBackend(t *testing.T, test func(t *testing.T, db *c.DB, dir string)) {
	backends := map[string]func(string) (store.Store, error){
		"bbolt":  bbolt.Open,
		"badger": badgerstore.Open,
	}

	for name, open := range backends {
		open := open
		t.Run(name, func(t *testing.T) {
			dir, err := os.MkdirTemp("", "clover-audit-7")
			if err != nil {
				t.Fatal(err)
			}
			defer os.RemoveAll(dir)

			st, err := open(filepath.Join(dir, "db"))
			if err != nil {
				t.Fatal(err)
			}

			db, err := c.OpenWithStore(st)
			if err != nil {
				t.Fatal(err)
			}
			defer db.Close()

			test(t, db, dir)
		})
	}
}

// Audit of 23e9cd2 "fix: ImportCollection refuses a file that is not valid UTF-8".
//
// The commit describes the defect as: a file which holds field names a\xff and a\xfe and the
// string x\xffy "was imported without an error as a document with ONE field a� (one of the
// two values was lost) and an altered string". ImportCollection now refuses such a file, but the
// same replacement by U+FFFD is done, just as silently, by encoding/json on the way out: a
// document holding these very names and this very string (the store keeps them byte for byte,
// FindAll returns them intact) is exported without an error to a valid UTF-8 file where the two
// names have been merged and the string altered, which ImportCollection then accepts. The
// outcome is the one of the commit message: one field lost, a string altered, no error anywhere.
func TestAuditExportImportOfStringsThatAreNotValidUTF8(t *testing.T) {
	auditForEachBackend(t, func(t *testing.T, db *c.DB, dir string) {
		if err := db.CreateCollection("src"); err != nil {
			t.Fatal(err)
		}

		doc := d.NewDocument()
		doc.Set("a\xff", 1)
		doc.Set("a\xfe", 2)
		doc.Set("s", "x\xffy")
		if err := db.Insert("src", doc); err != nil {
			t.Fatal(err)
		}

		stored, err := db.FindFirst(q.NewQuery("src"))
		if err != nil || stored == nil {
			t.Fatal(err, stored)
		}

		// the database itself keeps the bytes
		if stored.Get("s") != "x\xffy" || !stored.Has("a\xff") || !stored.Has("a\xfe") {
			t.Fatalf("the stored document is already altered: %#v", stored.AsMap())
		}

		path := filepath.Join(dir, "export.json")
		if err := db.ExportCollection("src", path); err != nil {
			return // refusing to write a file which cannot hold the documents is fine
		}

		if err := db.ImportCollection("dst", path); err != nil {
			return // so is refusing the file
		}

		imported, err := db.FindFirst(q.NewQuery("dst"))
		if err != nil || imported == nil {
			t.Fatal(err, imported)
		}

		content, _ := os.ReadFile(path)
		if len(imported.Fields(false)) != len(stored.Fields(false)) {
			t.Errorf("export and import succeeded, but a field has been lost: exported %#v, file %s, imported %#v", stored.AsMap(), content, imported.AsMap())
		}

		if imported.Get("s") != stored.Get("s") {
			t.Errorf("export and import succeeded, but a string has been altered: exported %q, imported %q", stored.Get("s"), imported.Get("s"))
		}
	})
}
