// place in: document
package document

import (
	"encoding/json"
	"testing"
)

// Audit of 27ddf4a "fix: the exported fields of an embedded struct of an unexported type are flattened".
//
// The repair (and its counterpart in the rename-back walk of Unmarshal) only recognises an
// embedded field whose type IS an unexported struct type (fieldType.Type.Kind() == reflect.Struct).
// An embedded POINTER to an unexported struct type promotes its exported fields in exactly the
// same way (in Go, in encoding/json, and in clover itself when the struct type is exported), but
// such a field is still skipped as "unexported".

type auditBase struct {
	ID string
}

// the shape of the commit message: fixed
type auditUserByValue struct {
	auditBase
	Name string
}

// the same shape through a pointer: not fixed
type auditUserByPointer struct {
	*auditBase
	Name string
}

// the same shape through a pointer, the struct type being exported: always worked
type AuditBase struct {
	ID string
}

type auditUserByExportedPointer struct {
	*AuditBase
	Name string
}

func TestAuditEmbeddedPointerToUnexportedStructIsFlattened(t *testing.T) {
	byValue := NewDocumentOf(&auditUserByValue{auditBase: auditBase{ID: "x"}, Name: "n"})
	if byValue == nil || byValue.Get("ID") != "x" {
		t.Fatalf("embedded by value (the case of the commit): ID not found: %v", byValue)
	}

	byExportedPointer := NewDocumentOf(&auditUserByExportedPointer{AuditBase: &AuditBase{ID: "x"}, Name: "n"})
	if byExportedPointer == nil || byExportedPointer.Get("ID") != "x" {
		t.Fatalf("embedded pointer to an exported struct type: ID not found: %v", byExportedPointer)
	}

	user := &auditUserByPointer{auditBase: &auditBase{ID: "x"}, Name: "n"}
	if user.ID != "x" { // the field is promoted
		t.Fatal("unreachable")
	}

	asJSON, err := json.Marshal(user)
	if err != nil {
		t.Fatal(err)
	}

	doc := NewDocumentOf(user)
	if doc == nil {
		t.Fatal("no document")
	}

	if !doc.Has("ID") || doc.Get("ID") != "x" {
		t.Fatalf("the promoted field ID of the embedded *auditBase is lost: document = %v, while encoding/json writes %s", doc.AsMap(), asJSON)
	}
}

type auditTagged struct {
	ID string `clover:"id" json:"identifier"`
}

type auditTaggedByValue struct {
	auditTagged
	Name string
}

type auditTaggedByPointer struct {
	*auditTagged
	Name string
}

// "the rename-back walk of Unmarshal follows it too": not through a pointer.
func TestAuditUnmarshalRenamesThroughEmbeddedPointerToUnexportedStruct(t *testing.T) {
	doc := NewDocumentOf(map[string]interface{}{"id": "x", "Name": "n"})

	byValue := &auditTaggedByValue{}
	if err := doc.Unmarshal(byValue); err != nil {
		t.Fatal(err)
	}
	if byValue.ID != "x" || byValue.Name != "n" {
		t.Fatalf("embedded by value (the case of the commit): %+v", byValue)
	}

	// encoding/json cannot allocate an embedded pointer to an unexported struct type, but it
	// fills the struct it points to when the caller has allocated it
	byPointer := &auditTaggedByPointer{auditTagged: &auditTagged{}}
	if err := json.Unmarshal([]byte(`{"identifier":"x","Name":"n"}`), byPointer); err != nil || byPointer.ID != "x" {
		t.Fatalf("encoding/json itself does not fill it: %v %+v", err, byPointer.auditTagged)
	}

	byPointer = &auditTaggedByPointer{auditTagged: &auditTagged{}}
	if err := doc.Unmarshal(byPointer); err != nil {
		t.Fatal(err)
	}

	if byPointer.ID != "x" {
		t.Fatalf("field \"id\" of the document has not been renamed to \"identifier\" for the embedded *auditTagged: ID = %q (Name = %q)", byPointer.ID, byPointer.Name)
	}
}
