// place in: .
package clover_test

import (
	"os"
	"testing"

	"github.com/stretchr/testify/assert"
	"github.com/stretchr/testify/require"

	c "github.com/ostafen/clover/v2"
	d "github.com/ostafen/clover/v2/document"
	q "github.com/ostafen/clover/v2/query"
	"github.com/ostafen/clover/v2/store"
	badgerstore "github.com/ostafen/clover/v2/store/badger"
	"github.com/ostafen/clover/v2/store/bbolt"
)

// ---------------------------------------------------------------------------------------------
// commit e585b11 "Eq, In and Contains normalise their operand before comparing"
// ---------------------------------------------------------------------------------------------

type auditName string

// auditOnBothStores runs test on a fresh bbolt database and on a fresh badger database.
func auditOnBothStores(t *testing.T, test func(t *testing.T, db *c.DB)) {
	for name, open := range map[string]func(dir string) (store.Store, error){"bbolt": bbolt.Open, "badger": badgerstore.Open} {
		t.Run(name, func(t *testing.T) {
			dir, err := os.MkdirTemp("", "clover-audit")
			require.NoError(t, err)
			defer os.RemoveAll(dir)

			s, err := open(dir)
			require.NoError(t, err)
			db, err := c.OpenWithStore(s)
			require.NoError(t, err)
			defer db.Close()

			test(t, db)
		})
	}
}

// eq/in/contains (and compare) resolve a "$name" reference BEFORE normalising the operand, while
// every DB operation normalises the criteria first (normalizeCriteria) and resolves afterwards:
// for an operand whose Go type only becomes a string once normalised (a named string type, a
// *string), Criteria.Satisfy takes it as a literal and FindAll/Count/Update/Delete as a reference
// to another field. The outcome still depends on the Go type the same value was written in.
func TestAuditSatisfyAndFindAllAgreeOnNamedStringOperand(t *testing.T) {
	auditOnBothStores(t, func(t *testing.T, db *c.DB) {
		require.NoError(t, db.CreateCollection("c"))

		doc := d.NewDocument()
		doc.Set("x", "same")
		doc.Set("y", "same")
		require.NoError(t, db.Insert("c", doc))

		s := "$y"
		for _, test := range []struct {
			name     string
			criteria q.Criteria
		}{
			{"plain string (control)", q.Field("x").Eq("$y")},
			{"Eq(named string)", q.Field("x").Eq(auditName("$y"))},
			{"Eq(*string)", q.Field("x").Eq(&s)},
			{"In(named string)", q.Field("x").In(auditName("$y"))},
			{"GtEq+LtEq(named string)", q.Field("x").GtEq(auditName("$y")).And(q.Field("x").LtEq(auditName("$y")))},
		} {
			n, err := db.Count(q.NewQuery("c").Where(test.criteria))
			require.NoError(t, err)

			stored, err := db.FindById("c", doc.ObjectId())
			require.NoError(t, err)
			assert.Equal(t, n == 1, test.criteria.Satisfy(stored), "%s: Count says %d, Satisfy says %v", test.name, n, test.criteria.Satisfy(stored))
		}
	})
}
