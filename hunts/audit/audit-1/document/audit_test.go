// place in: document
package document_test

import (
	"encoding/json"
	"testing"

	"github.com/stretchr/testify/require"

	d "github.com/ostafen/clover/v2/document"
)

// ---------------------------------------------------------------------------------------------
// commit 9ba5093 "embedded fields are flattened exactly where Unmarshal looks for them, and do
// not hide the fields of the struct"
// ---------------------------------------------------------------------------------------------

type AuditBase struct {
	X  int
	ID string
}

// encoding/json (through which Unmarshal goes) treats an anonymous struct field with a name in
// its json tag as a field of that name: it is NOT flattened.
type AuditJSONTagged struct {
	AuditBase `json:"base"`
	Y         int
}

type AuditJSONTaggedPtr struct {
	*AuditBase `json:"base"`
	Y          int
}

// An embedded struct whose json tag names it is flattened on the way in (isFlattened only looks at
// the type), while Unmarshal looks for it under the name of the tag: its fields are silently lost.
func TestAuditEmbeddedStructWithJSONNameRoundTrip(t *testing.T) {
	in := AuditJSONTagged{AuditBase: AuditBase{X: 1, ID: "b"}, Y: 2}

	// where encoding/json itself looks for the fields of the embedded struct
	b, err := json.Marshal(in)
	require.NoError(t, err)
	require.JSONEq(t, `{"base":{"X":1,"ID":"b"},"Y":2}`, string(b))

	doc := d.NewDocumentOf(in)
	require.NotNil(t, doc)

	var out AuditJSONTagged
	require.NoError(t, doc.Unmarshal(&out))
	require.Equal(t, in, out, "document: %v", doc.ToMap())
}

func TestAuditEmbeddedStructPointerWithJSONNameRoundTrip(t *testing.T) {
	in := AuditJSONTaggedPtr{AuditBase: &AuditBase{X: 1, ID: "b"}, Y: 2}

	doc := d.NewDocumentOf(in)
	require.NotNil(t, doc)

	var out AuditJSONTaggedPtr
	require.NoError(t, doc.Unmarshal(&out))
	require.Equal(t, in, out, "document: %v", doc.ToMap())
}

// The same loss at any depth (a list of such structs inside a document).
func TestAuditEmbeddedStructWithJSONNameInsideList(t *testing.T) {
	type holder struct {
		L []AuditJSONTagged `clover:"l"`
	}
	in := holder{L: []AuditJSONTagged{{AuditBase: AuditBase{X: 1, ID: "b"}, Y: 2}}}

	doc := d.NewDocumentOf(in)
	require.NotNil(t, doc)

	var out holder
	require.NoError(t, doc.Unmarshal(&out))
	require.Equal(t, in, out, "document: %v", doc.ToMap())
}

type AuditShallow struct{ ID string }
type AuditDeepest struct{ ID string }
type AuditDeep struct{ AuditDeepest }

// ID is AuditShallow.ID (depth 1) for Go and for encoding/json, whether the pointer is nil or
// not: it hides AuditDeepest.ID (depth 2).
type AuditNilEmbedded struct {
	*AuditShallow
	AuditDeep
}

// When the embedded pointer is nil its fields take no name: the field of the same name found at
// a GREATER depth of embedding is stored under it, and Unmarshal delivers that value to the field
// of the (so far absent) shallower struct, which it allocates.
func TestAuditNilEmbeddedPointerStillHidesDeeperFields(t *testing.T) {
	in := AuditNilEmbedded{AuditDeep: AuditDeep{AuditDeepest{ID: "deep"}}}

	// encoding/json: ID denotes the field of the nil struct, nothing is written
	b, err := json.Marshal(in)
	require.NoError(t, err)
	require.JSONEq(t, `{}`, string(b))

	doc := d.NewDocumentOf(in)
	require.NotNil(t, doc)

	var out AuditNilEmbedded
	require.NoError(t, doc.Unmarshal(&out))
	require.Nil(t, out.AuditShallow,
		"the value of the hidden field (%q) has moved to the field which hides it; document: %v", "deep", doc.ToMap())
}

type AuditInner struct{ Name string }

// The usual way of writing a struct for both encoding/json and clover: only json tags. For Go and
// for clover (which names the fields after their Go name) Name hides AuditInner.Name; for
// encoding/json they are two fields, "name" and "Name".
type AuditOuter struct {
	AuditInner
	Name string `json:"name"`
}

// The field of the struct hides the promoted one on the way in (as the commit wants), but on the
// way back its value is ALSO given to the promoted field it hides: renameFields resolves the
// conflicts on the json names, normalizeFields on the clover names.
func TestAuditHiddenPromotedFieldGetsTheValueOfTheFieldHidingIt(t *testing.T) {
	in := AuditOuter{AuditInner: AuditInner{Name: "inner"}, Name: "outer"}

	doc := d.NewDocumentOf(in)
	require.NotNil(t, doc)
	require.Equal(t, "outer", doc.Get("Name")) // the field of the struct itself wins

	var out AuditOuter
	require.NoError(t, doc.Unmarshal(&out))
	require.Equal(t, "outer", out.Name)
	require.NotEqual(t, "outer", out.AuditInner.Name,
		"{Name: outer, AuditInner{Name: inner}} became {Name: outer, AuditInner{Name: outer}}; document: %v", doc.ToMap())
}

type AuditCloverOuter struct {
	A int `clover:"x"`
	AuditCloverInner
}

type AuditCloverInner struct {
	B int `clover:"x"`
}

// The same with two fields given the same clover name.
func TestAuditHiddenPromotedFieldGetsTheValueOfTheFieldHidingItCloverNames(t *testing.T) {
	in := AuditCloverOuter{A: 1, AuditCloverInner: AuditCloverInner{B: 2}}

	doc := d.NewDocumentOf(in)
	require.NotNil(t, doc)
	require.EqualValues(t, 1, doc.Get("x"))

	var out AuditCloverOuter
	require.NoError(t, doc.Unmarshal(&out))
	require.Equal(t, 1, out.A)
	require.NotEqual(t, 1, out.B, "the hidden field B (2) came back with the value of A; document: %v", doc.ToMap())
}
