// place in: document
package document

import (
	"reflect"
	"testing"
)

// ---- 6ec766c: "The zero Document is now an empty document" ----

// Unmarshal still tells the zero Document from an empty one: its nil map of fields is
// marshalled as a JSON null whenever the target is not a struct or a map.
func TestAuditZeroDocumentUnmarshalsAsEmptyDocument(t *testing.T) {
	var fromZero, fromEmpty interface{}

	if err := (&Document{}).Unmarshal(&fromZero); err != nil {
		t.Fatal(err)
	}
	if err := NewDocument().Unmarshal(&fromEmpty); err != nil {
		t.Fatal(err)
	}

	if !reflect.DeepEqual(fromZero, fromEmpty) {
		t.Fatalf("Unmarshal of the zero Document yields %#v, Unmarshal of an empty document yields %#v", fromZero, fromEmpty)
	}
}

// ---- 8ea3a6c: "Go assigns the names by the types alone" ----

type AuditShallow struct{ ID int }
type AuditDeep struct{ ID int }
type AuditMid struct {
	AuditDeep
	AuditShallow string // promoted from depth 1: encoding/json knows it as "AuditShallow"
}
type AuditOuter struct {
	*AuditShallow
	AuditMid
}

// A nil embedded pointer is still stored, as a null, under the name of its type: that entry takes
// the name from the field AuditMid.AuditShallow, whose value is stored (and read back by Unmarshal)
// only when the pointer is not nil. The names still depend on the value.
func TestAuditNilEmbeddedPointerDoesNotTakeTheNameOfAField(t *testing.T) {
	for _, shallow := range []*AuditShallow{{ID: 7}, nil} {
		in := AuditOuter{AuditShallow: shallow, AuditMid: AuditMid{AuditDeep: AuditDeep{ID: 5}, AuditShallow: "x"}}

		doc := NewDocumentOf(in)

		var out AuditOuter
		if err := doc.Unmarshal(&out); err != nil {
			t.Fatal(err)
		}

		if out.AuditMid.AuditShallow != "x" {
			t.Errorf("embedded pointer nil=%v: document %v, AuditMid.AuditShallow read back as %q instead of \"x\"",
				shallow == nil, doc.ToMap(), out.AuditMid.AuditShallow)
		}
	}
}

// ---- 321e35b: structs behind an interface target ----

type AuditItem struct {
	Name string `clover:"n"` // no json tag: encoding/json looks for "Name"
}

type AuditHolder struct {
	Item interface{}
}

// The pointer to a struct is followed only when the interface variable is the target itself: when
// it is a field of the target (encoding/json decodes into the struct it points to in the same
// way) the clover names are left in place and the field comes back as its zero value, no error.
func TestAuditUnmarshalRenamesBehindAnInterfaceField(t *testing.T) {
	doc := NewDocumentOf(AuditHolder{Item: AuditItem{Name: "a"}})

	// the case repaired by the commit, for reference
	var target interface{} = &AuditItem{}
	if err := NewDocumentOf(AuditItem{Name: "a"}).Unmarshal(&target); err != nil {
		t.Fatal(err)
	}
	if item, _ := target.(*AuditItem); item == nil || item.Name != "a" {
		t.Fatalf("interface target: %#v", target)
	}

	out := AuditHolder{Item: &AuditItem{}}
	if err := doc.Unmarshal(&out); err != nil {
		t.Fatal(err)
	}

	item, isItem := out.Item.(*AuditItem)
	if !isItem {
		t.Fatalf("encoding/json did not decode into the struct: %#v", out.Item)
	}
	if item.Name != "a" {
		t.Fatalf("document %v: Item.Name read back as %q instead of \"a\"", doc.ToMap(), item.Name)
	}
}

// An interface variable is followed whatever it holds, while encoding/json decodes into what it
// holds only if that is a non-nil pointer: otherwise the content is discarded and the variable
// receives the document as a map, whose keys have now been renamed after the discarded type.
func TestAuditUnmarshalIntoInterfaceHoldingAStructValue(t *testing.T) {
	doc := NewDocumentOf(AuditItem{Name: "a"}) // {"n": "a"}

	var empty interface{}
	if err := doc.Unmarshal(&empty); err != nil {
		t.Fatal(err)
	}

	for _, held := range []interface{}{AuditItem{}, (*AuditItem)(nil)} {
		target := held
		if err := doc.Unmarshal(&target); err != nil {
			t.Fatal(err)
		}

		if !reflect.DeepEqual(target, empty) {
			t.Errorf("interface variable holding %#v: Unmarshal yields %#v, with an empty variable it yields %#v", held, target, empty)
		}
	}
}
