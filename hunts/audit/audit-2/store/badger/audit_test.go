// place in: store/badger
package badger_test

import (
	"fmt"
	"os"
	"testing"

	"github.com/ostafen/clover/v2/store"
	"github.com/ostafen/clover/v2/store/badger"
	"github.com/ostafen/clover/v2/store/bbolt"
)

// commit 4d3a1d3: a reverse badger cursor sought to an empty target "marks itself exhausted",
// and Next on the exhausted cursor does nothing, as on bbolt. The guard only covers that one
// target: a reverse seek to any other target before the first key (keys a,b,c, reverse
// Seek("0")) also leaves the cursor without a position, and on that cursor Next panics with a
// nil pointer dereference inside badger's Iterator.Next, while the bbolt cursor stays invalid.
// The same holds for a cursor which has run past the last key in either direction.
func TestAuditNextOnCursorWithoutPosition(t *testing.T) {
	type backend struct {
		name string
		open func(dir string) (store.Store, error)
	}

	for _, b := range []backend{{"bbolt", bbolt.Open}, {"badger", badger.Open}} {
		b := b
		t.Run(b.name, func(t *testing.T) {
			dir, err := os.MkdirTemp("", "clover-audit")
			if err != nil {
				t.Fatal(err)
			}
			defer os.RemoveAll(dir)

			s, err := b.open(dir)
			if err != nil {
				t.Fatal(err)
			}
			defer s.Close()

			tx, err := s.Begin(true)
			if err != nil {
				t.Fatal(err)
			}
			for _, key := range []string{"a", "b", "c"} {
				if err := tx.Set([]byte(key), []byte("v")); err != nil {
					t.Fatal(err)
				}
			}
			if err := tx.Commit(); err != nil {
				t.Fatal(err)
			}

			tx, err = s.Begin(false)
			if err != nil {
				t.Fatal(err)
			}
			defer tx.Rollback()

			next := func(cursor store.Cursor) (outcome string) {
				defer func() {
					if r := recover(); r != nil {
						outcome = fmt.Sprintf("Next panics: %v", r)
					}
				}()
				cursor.Next()
				return fmt.Sprintf("valid=%v", cursor.Valid())
			}

			for _, target := range []string{"", "0"} {
				cursor, err := tx.Cursor(false)
				if err != nil {
					t.Fatal(err)
				}

				if err := cursor.Seek([]byte(target)); err != nil {
					t.Fatal(err)
				}

				if cursor.Valid() {
					t.Errorf("reverse Seek(%q): the cursor has a position", target)
				}

				if got := next(cursor); got != "valid=false" {
					t.Errorf("reverse Seek(%q), then Next: %s", target, got)
				}
				cursor.Close()
			}
		})
	}
}
