// place in: internal
package internal

import (
	"testing"
	"time"
)

// commit a9045bf: the dereferencing loop of getElemValueAndType "now goes through interface
// values too". It has no bound: an interface variable which holds a pointer to itself
// (var x interface{}; x = &x) makes it spin forever, ptr -> interface -> ptr -> ..., so that
// Normalize, doc.Set, NewDocumentOf, and the normalisation of a criteria operand never return.
// Before the commit the loop stopped at the interface and the value was refused with the
// "invalid dtype" error (which is what the loop does for any other value it cannot convert).
func TestAuditPointerToInterfaceCycle(t *testing.T) {
	var x interface{}
	x = &x

	type result struct {
		value interface{}
		err   error
	}

	done := make(chan result, 1)
	go func() {
		value, err := Normalize(x)
		done <- result{value, err}
	}()

	select {
	case res := <-done:
		t.Logf("Normalize returned (%v, %v)", res.value, res.err)
	case <-time.After(3 * time.Second):
		t.Fatal("Normalize(x), with x = &x, has not returned after 3 seconds")
	}
}
