// place in: .
package clover_test

import (
	"fmt"
	"os"
	"reflect"
	"testing"
	"time"

	c "github.com/ostafen/clover/v2"
	d "github.com/ostafen/clover/v2/document"
	q "github.com/ostafen/clover/v2/query"
	badgerstore "github.com/ostafen/clover/v2/store/badger"
	"github.com/ostafen/clover/v2/store/bbolt"
)

type auditBackend struct {
	name string
	open func(dir string) (*c.DB, error)
}

func auditBackends() []auditBackend {
	return []auditBackend{
		{"bbolt", func(dir string) (*c.DB, error) {
			s, err := bbolt.Open(dir)
			if err != nil {
				return nil, err
			}
			return c.OpenWithStore(s)
		}},
		{"badger", func(dir string) (*c.DB, error) {
			s, err := badgerstore.Open(dir)
			if err != nil {
				return nil, err
			}
			return c.OpenWithStore(s)
		}},
	}
}

// auditRun runs the test on a fresh database of each backend.
func auditRun(t *testing.T, test func(t *testing.T, db *c.DB)) {
	for _, b := range auditBackends() {
		b := b
		t.Run(b.name, func(t *testing.T) {
			dir, err := os.MkdirTemp("", "clover-audit")
			if err != nil {
				t.Fatal(err)
			}
			defer os.RemoveAll(dir)

			db, err := b.open(dir)
			if err != nil {
				t.Fatal(err)
			}
			defer db.Close()
			test(t, db)
		})
	}
}

func auditNames(docs []*d.Document) []string {
	res := make([]string, 0, len(docs))
	for _, doc := range docs {
		res = append(res, fmt.Sprint(doc.Get("name")))
	}
	return res
}

// commit 4cda7bf: "year 1700 compared greater than year 2200. Filters, sort order and index range
// checks inherit this comparator". Compare has been repaired, but the key of a time inside an index
// is still uint64(UnixNano()): every instant before 1970 (the zero time.Time of an unset struct
// field included) wraps around and is filed after all the later ones. The same query gives
// another answer once the field is indexed: the sort order differs, and the range scan of
// Lt / LtEq stops before it reaches the wrapped entries, so that documents are lost.
func TestAuditTimeBefore1970IndexedVsUnindexed(t *testing.T) {
	auditRun(t, func(t *testing.T, db *c.DB) {
		if err := db.CreateCollection("c"); err != nil {
			t.Fatal(err)
		}

		times := []struct {
			name string
			t    time.Time
		}{
			{"zero", time.Time{}},
			{"1700", time.Date(1700, 1, 1, 0, 0, 0, 0, time.UTC)},
			{"1969", time.Date(1969, 12, 31, 23, 59, 59, 0, time.UTC)},
			{"2000", time.Date(2000, 1, 1, 0, 0, 0, 0, time.UTC)},
			{"2200", time.Date(2200, 1, 1, 0, 0, 0, 0, time.UTC)},
		}

		for _, tm := range times {
			doc := d.NewDocument()
			doc.Set("name", tm.name)
			doc.Set("t", tm.t)
			if err := db.Insert("c", doc); err != nil {
				t.Fatal(err)
			}
		}

		queries := []struct {
			name  string
			query *q.Query
			want  []string
		}{
			{
				"Sort(t)",
				q.NewQuery("c").Sort(q.SortOption{Field: "t", Direction: 1}),
				[]string{"zero", "1700", "1969", "2000", "2200"},
			},
			{
				"Sort(-t)",
				q.NewQuery("c").Sort(q.SortOption{Field: "t", Direction: -1}),
				[]string{"2200", "2000", "1969", "1700", "zero"},
			},
			{
				"Where(t < 2001).Sort(name)",
				q.NewQuery("c").Where(q.Field("t").Lt(time.Date(2001, 1, 1, 0, 0, 0, 0, time.UTC))).Sort(q.SortOption{Field: "name", Direction: 1}),
				[]string{"1700", "1969", "2000", "zero"},
			},
			{
				"Where(t <= 1700).Sort(name)",
				q.NewQuery("c").Where(q.Field("t").LtEq(time.Date(1700, 1, 1, 0, 0, 0, 0, time.UTC))).Sort(q.SortOption{Field: "name", Direction: 1}),
				[]string{"1700", "zero"},
			},
			{
				"Where(t > 1700 && t < 2100).Sort(name)",
				q.NewQuery("c").Where(q.Field("t").Gt(time.Date(1700, 1, 1, 0, 0, 0, 0, time.UTC)).And(q.Field("t").Lt(time.Date(2100, 1, 1, 0, 0, 0, 0, time.UTC)))).Sort(q.SortOption{Field: "name", Direction: 1}),
				[]string{"1969", "2000"},
			},
		}

		// without an index: the expected answers (this part passes)
		for _, query := range queries {
			docs, err := db.FindAll(query.query)
			if err != nil {
				t.Fatal(err)
			}
			if got := auditNames(docs); !reflect.DeepEqual(got, query.want) {
				t.Fatalf("un-indexed %s: got %v, want %v", query.name, got, query.want)
			}
		}

		if err := db.CreateIndex("c", "t"); err != nil {
			t.Fatal(err)
		}

		for _, query := range queries {
			docs, err := db.FindAll(query.query)
			if err != nil {
				t.Fatal(err)
			}
			if got := auditNames(docs); !reflect.DeepEqual(got, query.want) {
				t.Errorf("%s: got %v with an index on t, %v without", query.name, got, query.want)
			}
		}
	})
}

// commit 75740d3: UpdateById reports an updater that returns no document instead of panicking.
// ReplaceById is UpdateById with an updater that returns the supplied document: when that
// document is nil it still panics with a nil pointer dereference (it calls doc.ObjectId() before
// anything else), while Save(collection, (*Document)(nil)) reports an error.
func TestAuditReplaceByIdNilDocument(t *testing.T) {
	auditRun(t, func(t *testing.T, db *c.DB) {
		if err := db.CreateCollection("c"); err != nil {
			t.Fatal(err)
		}

		doc := d.NewDocument()
		doc.Set("a", 1)
		id, err := db.InsertOne("c", doc)
		if err != nil {
			t.Fatal(err)
		}

		// the sibling calls report an error
		if err := db.Save("c", (*d.Document)(nil)); err == nil {
			t.Fatal("Save of a nil document: no error")
		}
		if err := db.UpdateById("c", id, func(*d.Document) *d.Document { return nil }); err == nil {
			t.Fatal("UpdateById with an updater returning nil: no error")
		}

		func() {
			defer func() {
				if r := recover(); r != nil {
					t.Errorf("ReplaceById(c, id, nil) panics: %v", r)
				}
			}()

			if err := db.ReplaceById("c", id, nil); err == nil {
				t.Errorf("ReplaceById(c, id, nil): no error")
			}
		}()

		// the document is unchanged
		stored, err := db.FindById("c", id)
		if err != nil || stored == nil || stored.Get("a") != int64(1) {
			t.Errorf("stored document: %v, %v", stored, err)
		}
	})
}
