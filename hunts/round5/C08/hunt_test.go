// place in: .
package clover_test

import (
	"fmt"
	"os"
	"testing"

	"github.com/stretchr/testify/require"

	c "github.com/ostafen/clover/v2"
	d "github.com/ostafen/clover/v2/document"
	q "github.com/ostafen/clover/v2/query"
)

// huntRun runs test on a fresh database of each backend (badger, bbolt).
func huntRun(t *testing.T, test func(t *testing.T, db *c.DB)) {
	for i, createDB := range getDBFactories() {
		name := []string{"badger", "bbolt"}[i]
		t.Run(name, func(t *testing.T) {
			dir, err := os.MkdirTemp("", "hunt5-c08")
			require.NoError(t, err)
			defer os.RemoveAll(dir)

			db, err := createDB(dir)
			require.NoError(t, err)
			defer db.Close()

			test(t, db)
		})
	}
}

func huntKeys(docs []*d.Document, field string) []string {
	keys := make([]string, 0, len(docs))
	for _, doc := range docs {
		keys = append(keys, fmt.Sprintf("%#v", doc.Get(field)))
	}
	return keys
}

// C08: "results are ordered by clover's total order on the listed fields ..., whatever mix of
// types the fields hold", quantified "with or without an index on the sort or filter field".
// A []byte is one of the types of that order (internal.Compare ranks it with the arrays, before
// the generic ones, bytewise among themselves), and the sort in memory orders it so. But the key
// of an index cannot be computed for it: the same collection cannot get an index on the sort
// field, and a collection which has one refuses the documents.
func TestHuntByteSliceSortKeyWithIndex(t *testing.T) {
	values := []interface{}{true, []interface{}{int64(1)}, []byte{2}, "x", []byte{1}, int64(1)}
	expected := []string{
		"<nil>", "1", `"x"`, "[]byte{0x1}", "[]byte{0x2}", "[]interface {}{1}", "true",
	}
	sortByA := q.NewQuery("c").Sort(q.SortOption{Field: "a", Direction: 1})

	newDocs := func() []*d.Document {
		docs := []*d.Document{d.NewDocument()} // the first one has no field "a"
		for _, v := range values {
			doc := d.NewDocument()
			doc.Set("a", v)
			docs = append(docs, doc)
		}
		return docs
	}

	t.Run("index created after the documents", func(t *testing.T) {
		huntRun(t, func(t *testing.T, db *c.DB) {
			require.NoError(t, db.CreateCollection("c"))
			require.NoError(t, db.Insert("c", newDocs()...))

			docs, err := db.FindAll(sortByA) // control: no index, sorted in memory
			require.NoError(t, err)
			require.Equal(t, expected, huntKeys(docs, "a"))

			require.NoError(t, db.CreateIndex("c", "a"), "an index on the sort field of this collection")

			docs, err = db.FindAll(sortByA)
			require.NoError(t, err)
			require.Equal(t, expected, huntKeys(docs, "a"))
		})
	})

	t.Run("index created before the documents", func(t *testing.T) {
		huntRun(t, func(t *testing.T, db *c.DB) {
			require.NoError(t, db.CreateCollection("c"))
			require.NoError(t, db.CreateIndex("c", "a"))
			require.NoError(t, db.Insert("c", newDocs()...), "documents whose sort key is a []byte, index on the sort field")

			docs, err := db.FindAll(sortByA)
			require.NoError(t, err)
			require.Equal(t, expected, huntKeys(docs, "a"))
		})
	})
}

// Same root cause as TestHuntByteSliceSortKeyWithIndex, reached from the criteria: no document
// holds a []byte here. Where(a > []byte{}) selects, in clover's order, the generic arrays, the
// booleans and the times; Sort(a).Skip(1).Limit(2) is the window [1, 3) of them. Without an index
// on the sort and filter field this is what FindAll returns; with one it returns an error
// (C08: "Skip(n) and Limit(m) then return precisely the window [n, n+m) of that ordered
// sequence", "with criteria present or absent and with or without an index on the sort or
// filter field").
func TestHuntByteSliceOperandWithIndex(t *testing.T) {
	huntRun(t, func(t *testing.T, db *c.DB) {
		require.NoError(t, db.CreateCollection("c"))
		for _, v := range []interface{}{true, []interface{}{int64(2)}, "x", false, []interface{}{int64(1)}, int64(1)} {
			doc := d.NewDocument()
			doc.Set("a", v)
			require.NoError(t, db.Insert("c", doc))
		}

		query := q.NewQuery("c").Where(q.Field("a").Gt([]byte{})).Sort(q.SortOption{Field: "a", Direction: 1}).Skip(1).Limit(2)
		expected := []string{"[]interface {}{2}", "false"} // of [1], [2], false, true

		docs, err := db.FindAll(query) // control: no index
		require.NoError(t, err)
		require.Equal(t, expected, huntKeys(docs, "a"))

		require.NoError(t, db.CreateIndex("c", "a"))

		docs, err = db.FindAll(query)
		require.NoError(t, err, "same query, index on the sort and filter field")
		require.Equal(t, expected, huntKeys(docs, "a"))
	})
}

// C08: "Skip(n) and Limit(m) then return precisely the window [n, n+m) of that ordered sequence":
// Limit(0) is the empty window, and FindAll returns no document for it. FindFirst and Exists
// (documented as "returns true if and only if the query result set is not empty") replace the
// limit of the query by 1, and answer as if the query had no limit.
func TestHuntLimitZeroFindFirstExists(t *testing.T) {
	huntRun(t, func(t *testing.T, db *c.DB) {
		require.NoError(t, db.CreateCollection("c"))
		for i := 0; i < 3; i++ {
			doc := d.NewDocument()
			doc.Set("a", i)
			require.NoError(t, db.Insert("c", doc))
		}

		query := q.NewQuery("c").Sort(q.SortOption{Field: "a", Direction: 1}).Skip(1).Limit(0)

		docs, err := db.FindAll(query)
		require.NoError(t, err)
		require.Empty(t, docs) // control: the window [1, 1) is empty

		doc, err := db.FindFirst(query)
		require.NoError(t, err)
		require.Nil(t, doc, "FindFirst: first document of an empty window")

		exists, err := db.Exists(query)
		require.NoError(t, err)
		require.False(t, exists, "Exists: the result set of the query is empty")
	})
}
