// place in: .
package clover_test

import (
	"os"
	"sort"
	"testing"

	c "github.com/ostafen/clover/v2"
	d "github.com/ostafen/clover/v2/document"
	q "github.com/ostafen/clover/v2/query"
	"github.com/ostafen/clover/v2/store"
	badgerstore "github.com/ostafen/clover/v2/store/badger"
	"github.com/ostafen/clover/v2/store/bbolt"
)

// Property C17, first sentence: "An index range scan yields exactly the ids of documents whose
// indexed value lies within the requested bounds - honouring inclusive and exclusive ends, open
// ends ...".
//
// A byte slice is one of the values the library stores and orders (internal.Normalize keeps a
// []byte as it is; internal.Compare ranks it with the arrays, before every generic array, and so
// after every nil, number, string and object and before every bool and time). The range
// (v > []byte("a")), which the planner derives from Field("v").Gt([]byte("a")), therefore
// contains the documents whose v is a generic array, a bool or a time: a collection without an
// index returns them. The scan of an index on v yields none of them: the bound cannot be encoded
// (orderedcode has no encoding for a []byte) and the scan fails.
func TestHuntC17ByteSliceBoundFailsTheScan(t *testing.T) {
	backends := map[string]func(string) (store.Store, error){
		"bbolt":  bbolt.Open,
		"badger": badgerstore.Open,
	}

	for name, open := range backends {
		t.Run(name, func(t *testing.T) {
			dir, err := os.MkdirTemp("", "hunt-c17")
			if err != nil {
				t.Fatal(err)
			}
			defer os.RemoveAll(dir)

			st, err := open(dir)
			if err != nil {
				t.Fatal(err)
			}
			db, err := c.OpenWithStore(st)
			if err != nil {
				t.Fatal(err)
			}
			defer db.Close()

			values := map[string]interface{}{
				"00000000-0000-4000-8000-000000000001": int64(7),                // below the bound (number)
				"00000000-0000-4000-8000-000000000002": "zzz",                   // below the bound (string)
				"00000000-0000-4000-8000-000000000003": []interface{}{int64(1)}, // above the bound (generic array)
				"00000000-0000-4000-8000-000000000004": true,                    // above the bound (bool)
				"00000000-0000-4000-8000-000000000005": nil,                     // below the bound (nil)
			}
			expected := []string{
				"00000000-0000-4000-8000-000000000003",
				"00000000-0000-4000-8000-000000000004",
			}

			for _, coll := range []string{"plain", "indexed"} {
				if err := db.CreateCollection(coll); err != nil {
					t.Fatal(err)
				}
			}
			if err := db.CreateIndex("indexed", "v"); err != nil {
				t.Fatal(err)
			}

			for _, coll := range []string{"plain", "indexed"} {
				for id, v := range values {
					doc := d.NewDocument()
					doc.Set("_id", id)
					doc.Set("v", v)
					if err := db.Insert(coll, doc); err != nil {
						t.Fatal(err)
					}
				}
			}

			find := func(coll string, descending bool) ([]string, error) {
				query := q.NewQuery(coll).Where(q.Field("v").Gt([]byte("a")))
				if descending {
					query = query.Sort(q.SortOption{Field: "v", Direction: -1})
				}
				docs, err := db.FindAll(query)
				ids := make([]string, 0)
				for _, doc := range docs {
					ids = append(ids, doc.ObjectId())
				}
				sort.Strings(ids)
				return ids, err
			}

			// the reference: the same documents and the same criterion, no index
			ids, err := find("plain", false)
			if err != nil || len(ids) != 2 || ids[0] != expected[0] || ids[1] != expected[1] {
				t.Fatalf("without an index: got %v (error: %v), expected %v", ids, err, expected)
			}

			for _, descending := range []bool{false, true} {
				ids, err := find("indexed", descending)
				if err != nil {
					t.Errorf("descending=%v: the scan of the range (v > []byte(\"a\")) failed: %v; expected the ids %v", descending, err, expected)
					continue
				}
				if len(ids) != 2 || ids[0] != expected[0] || ids[1] != expected[1] {
					t.Errorf("descending=%v: the scan of the range (v > []byte(\"a\")) yielded %v, expected %v", descending, ids, expected)
				}
			}
		})
	}
}
