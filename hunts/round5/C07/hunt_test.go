// place in: .
package clover_test

import (
	"fmt"
	"os"
	"sync"
	"testing"

	c "github.com/ostafen/clover/v2"
	d "github.com/ostafen/clover/v2/document"
	q "github.com/ostafen/clover/v2/query"
	"github.com/ostafen/clover/v2/store"
	badgerstore "github.com/ostafen/clover/v2/store/badger"
)

// huntSchedStore delegates every call to the wrapped store. It only fixes the schedule of the two
// goroutines of the test: the first time a cursor is requested, the calling goroutine is held until
// the other goroutine has gone through db.Close().
type huntSchedStore struct {
	store.Store
	once     sync.Once
	atCursor func()
}

func (s *huntSchedStore) Begin(update bool) (store.Tx, error) {
	tx, err := s.Store.Begin(update)
	if err != nil {
		return nil, err
	}
	return &huntSchedTx{Tx: tx, s: s}, nil
}

type huntSchedTx struct {
	store.Tx
	s *huntSchedStore
}

func (tx *huntSchedTx) Cursor(forward bool) (store.Cursor, error) {
	if tx.s.atCursor != nil {
		tx.s.once.Do(tx.s.atCursor)
	}
	return tx.Tx.Cursor(forward)
}

// Property C07, first sentence: "every operation takes effect atomically at some instant between
// its call and its return, so that all observed results are explainable by one sequential order".
// Two goroutines use one handle on the badger store: one runs FindAll, the other one Close. In a
// sequential order FindAll comes either before Close (it returns the document) or after it (it
// returns an error, as it does on a closed handle). In the schedule below, where Close runs between
// two store calls of FindAll, FindAll does neither: it panics ("DB Closed", raised by badger's
// NewIterator), which takes down the whole process of the caller.
func TestHuntCloseBetweenStoreCallsOfQueryPanicsOnBadger(t *testing.T) {
	dir, err := os.MkdirTemp("", "hunt5-C07")
	if err != nil {
		t.Fatal(err)
	}
	defer os.RemoveAll(dir)

	st, err := badgerstore.Open(dir)
	if err != nil {
		t.Fatal(err)
	}
	sched := &huntSchedStore{Store: st}
	db, err := c.OpenWithStore(sched)
	if err != nil {
		t.Fatal(err)
	}
	defer db.Close()

	if err := db.CreateCollection("x"); err != nil {
		t.Fatal(err)
	}
	doc := d.NewDocument()
	doc.Set("n", 1)
	if err := db.Insert("x", doc); err != nil {
		t.Fatal(err)
	}

	// second goroutine: db.Close(), scheduled between Begin/Get and Cursor of the query
	sched.atCursor = func() {
		closed := make(chan error)
		go func() { closed <- db.Close() }()
		if err := <-closed; err != nil {
			t.Errorf("Close: %v", err)
		}
	}

	outcome := func() (s string) {
		defer func() {
			if r := recover(); r != nil {
				s = fmt.Sprintf("panic: %v", r)
			}
		}()
		docs, err := db.FindAll(q.NewQuery("x"))
		if err != nil {
			return "error" // FindAll ordered after Close
		}
		if len(docs) == 1 {
			return "one document" // FindAll ordered before Close
		}
		return fmt.Sprintf("%d documents", len(docs))
	}()

	if outcome != "error" && outcome != "one document" {
		t.Fatalf("FindAll concurrent with Close: neither the result nor an error, got %s", outcome)
	}
}
