// place in: .
package clover_test

import (
	"sort"
	"testing"

	c "github.com/ostafen/clover/v2"
	d "github.com/ostafen/clover/v2/document"
	q "github.com/ostafen/clover/v2/query"
)

// Property C02, first sentence: "For the same collection contents, FindAll, Count, Update and
// Delete with any criteria [...] select the same documents [...] whether the collection has no
// index, an index on a filtered field [...]".
//
// A byte slice is a value of the supported domain: internal.Normalize stores it "as a []byte"
// and internal.Compare orders it (bytewise, before the generic arrays of the same rank). Without
// an index a comparison with a []byte operand is evaluated normally; as soon as the compared
// field is indexed the very same query fails, because the bound of the index range cannot be
// turned into a key (internal.OrderedCode has no encoding for []byte).
func TestHuntBytesOperandOnIndexedField(t *testing.T) {
	db, err := c.Open(t.TempDir())
	if err != nil {
		t.Fatal(err)
	}
	defer db.Close()

	// twin collections with the same contents (same ids too): only "idx" has an index on "a"
	values := []interface{}{1, "s", []interface{}{1}, true}
	docs := make([]*d.Document, 0)
	for _, v := range values {
		doc := d.NewDocument()
		doc.Set("_id", c.NewObjectId())
		doc.Set("a", v)
		docs = append(docs, doc)
	}

	for _, coll := range []string{"plain", "idx"} {
		if err := db.CreateCollection(coll); err != nil {
			t.Fatal(err)
		}
		twins := make([]*d.Document, 0)
		for _, doc := range docs {
			twins = append(twins, doc.Copy())
		}
		if err := db.Insert(coll, twins...); err != nil {
			t.Fatal(err)
		}
	}
	if err := db.CreateIndex("idx", "a"); err != nil {
		t.Fatal(err)
	}

	ids := func(coll string, crit q.Criteria) ([]string, error) {
		found, err := db.FindAll(q.NewQuery(coll).Where(crit))
		res := make([]string, 0)
		for _, doc := range found {
			res = append(res, doc.ObjectId())
		}
		sort.Strings(res)
		return res, err
	}

	cases := []struct {
		name string
		crit q.Criteria
	}{
		{"a > []byte{1}", q.Field("a").Gt([]byte{1})},                 // the array and the bool are greater
		{"a <= []byte{1}", q.Field("a").LtEq([]byte{1})},              // the number and the string are smaller
		{"a == []byte{1}", q.Field("a").Eq([]byte{1})},                // nothing
		{"a >= []byte{}", q.Field("a").GtEq([]byte{})},                // the array and the bool
		{"a == [[]byte{}]", q.Field("a").Eq([]interface{}{[]byte{}})}, // nested in an array literal: nothing
	}
	for _, tc := range cases {
		name, crit := tc.name, tc.crit
		plain, errPlain := ids("plain", crit)
		if errPlain != nil {
			t.Fatalf("%s: unexpected failure without index: %v", name, errPlain)
		}

		indexed, errIdx := ids("idx", crit)
		if errIdx != nil {
			t.Errorf("%s: selects %d document(s) without index, fails with an index on the filtered field: %v", name, len(plain), errIdx)
			continue
		}
		if len(plain) != len(indexed) {
			t.Errorf("%s: %d document(s) without index, %d with an index", name, len(plain), len(indexed))
		}

		nPlain, _ := db.Count(q.NewQuery("plain").Where(crit))
		nIdx, errCount := db.Count(q.NewQuery("idx").Where(crit))
		if errCount != nil || nPlain != nIdx {
			t.Errorf("%s: Count is %d without index, %d (%v) with an index", name, nPlain, nIdx, errCount)
		}
	}

	// Delete selects two documents in the plain collection, none (it fails) in the indexed one
	crit := q.Field("a").Gt([]byte{1})
	if err := db.Delete(q.NewQuery("plain").Where(crit)); err != nil {
		t.Fatal(err)
	}
	errDelete := db.Delete(q.NewQuery("idx").Where(crit))
	nPlain, _ := db.Count(q.NewQuery("plain"))
	nIdx, _ := db.Count(q.NewQuery("idx"))
	if errDelete != nil || nPlain != nIdx {
		t.Errorf("Delete(a > []byte{1}): %d document(s) left without index, %d left with an index (error: %v)", nPlain, nIdx, errDelete)
	}
}
