// place in: .
package clover_test

import (
	"os"
	"path/filepath"
	"testing"

	c "github.com/ostafen/clover/v2"
	d "github.com/ostafen/clover/v2/document"
	q "github.com/ostafen/clover/v2/query"
	badgerstore "github.com/ostafen/clover/v2/store/badger"
)

func huntOpenBadger(dir string) (*c.DB, error) {
	store, err := badgerstore.Open(dir)
	if err != nil {
		return nil, err
	}
	return c.OpenWithStore(store)
}

// C05, first sentence: "Every operation that has returned success is still visible, complete and
// unchanged [...] after the process is killed at an arbitrary instant and the database is reopened."
//
// History (badger on disk): CreateCollection, Insert of three documents, all acknowledged. The
// process is then killed while badger disposes of (or creates) the write-ahead log file of a
// memtable: ristretto's z.MmapFile.Delete truncates the file to zero bytes and only afterwards
// removes it (z.OpenMmapFileUsing creates the file and only afterwards extends it), so a kill between
// the two system calls leaves a zero-length NNNNN.mem file in the directory. This happens when a
// memtable has been flushed, that is inside Close, inside Open and, in a process which keeps
// writing, whenever a memtable fills up. The test puts the directory in exactly that state (a real
// SIGKILL reaches it in 1-2% of the attempts, see findings.json) and reopens the database: the
// acknowledged documents must be visible. Instead, Open fails.
func TestHuntC05BadgerReopenAfterKillDuringWalFileDisposal(t *testing.T) {
	dir, err := os.MkdirTemp("", "hunt5-C05-badger")
	if err != nil {
		t.Fatal(err)
	}
	defer os.RemoveAll(dir)

	db, err := huntOpenBadger(dir)
	if err != nil {
		t.Fatal(err)
	}
	if err := db.CreateCollection("coll"); err != nil {
		t.Fatal(err)
	}
	docs := make([]*d.Document, 0)
	for i := 0; i < 3; i++ {
		doc := d.NewDocument()
		doc.Set("n", i)
		docs = append(docs, doc)
	}
	if err := db.Insert("coll", docs...); err != nil { // acknowledged
		t.Fatal(err)
	}
	if err := db.Close(); err != nil {
		t.Fatal(err)
	}

	// the trace of the kill: the log file of the memtable, truncated but not yet removed
	// (equivalently: created but not yet extended)
	if err := os.WriteFile(filepath.Join(dir, "00001.mem"), nil, 0666); err != nil {
		t.Fatal(err)
	}

	db, err = huntOpenBadger(dir)
	if err != nil {
		t.Fatalf("the database cannot be reopened after the crash, 3 acknowledged documents are out of reach: %.160v", err)
	}
	defer db.Close()

	n, err := db.Count(q.NewQuery("coll"))
	if err != nil || n != 3 {
		t.Fatalf("acknowledged documents not visible after the crash: count=%d err=%v", n, err)
	}
}

// C05, first sentence: "Every operation that has returned success is still visible, complete and
// unchanged after the database is closed and reopened".
//
// History (default bbolt backend): Insert {a: 1}; Update(all, {a: 2, tags: map[int]string{1: "x"}}).
// The update map holds a value which cannot be stored (a map whose keys are not strings; the same
// holds for a chan, a func, a complex number). Update returns nil, that is success, but only a part
// of it has been applied: "a" is 2 and "tags" has been dropped silently. Either the operation fails
// as a whole (and nothing changes) or, once acknowledged, all of it is there after the reopen.
func TestHuntC05UpdateAcknowledgedButAppliedInPart(t *testing.T) {
	dir, err := os.MkdirTemp("", "hunt5-C05-update")
	if err != nil {
		t.Fatal(err)
	}
	defer os.RemoveAll(dir)

	db, err := c.Open(dir)
	if err != nil {
		t.Fatal(err)
	}
	if err := db.CreateCollection("coll"); err != nil {
		t.Fatal(err)
	}
	doc := d.NewDocument()
	doc.Set("a", 1)
	id, err := db.InsertOne("coll", doc)
	if err != nil {
		t.Fatal(err)
	}

	updateErr := db.Update(q.NewQuery("coll"), map[string]interface{}{
		"a":    2,
		"tags": map[int]string{1: "x"},
	})

	if err := db.Close(); err != nil {
		t.Fatal(err)
	}
	db, err = c.Open(dir)
	if err != nil {
		t.Fatal(err)
	}
	defer db.Close()

	got, err := db.FindById("coll", id)
	if err != nil || got == nil {
		t.Fatalf("document lost: %v", err)
	}

	if updateErr != nil {
		// refused: then nothing of it may be there
		if got.Get("a") != int64(1) || got.Has("tags") {
			t.Fatalf("Update failed (%v) but left a trace: %v", updateErr, got.AsMap())
		}
		return
	}
	// acknowledged: then all of it must be there
	if got.Get("a") != int64(2) || !got.Has("tags") {
		t.Fatalf("Update returned success but after the reopen only a part of it is there: %v (field \"tags\" missing)", got.AsMap())
	}
}
