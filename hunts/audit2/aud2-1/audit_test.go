// place in: .
package clover_test

import (
	"fmt"
	"os"
	"path/filepath"
	"testing"
	"time"

	"github.com/stretchr/testify/require"

	c "github.com/ostafen/clover/v2"
	d "github.com/ostafen/clover/v2/document"
	q "github.com/ostafen/clover/v2/query"
	badgerstore "github.com/ostafen/clover/v2/store/badger"
	"github.com/ostafen/clover/v2/store/bbolt"
)

// auditRunOnBothStores runs test on a fresh bbolt database and on a fresh badger one.
func auditRunOnBothStores(t *testing.T, test func(t *testing.T, db *c.DB, dir string)) {
	open := map[string]func(string) (*c.DB, error){
		"bbolt": func(dir string) (*c.DB, error) {
			s, err := bbolt.Open(dir)
			if err != nil {
				return nil, err
			}
			return c.OpenWithStore(s)
		},
		"badger": func(dir string) (*c.DB, error) {
			s, err := badgerstore.Open(dir)
			if err != nil {
				return nil, err
			}
			return c.OpenWithStore(s)
		},
	}

	for _, name := range []string{"bbolt", "badger"} {
		t.Run(name, func(t *testing.T) {
			dir, err := os.MkdirTemp("", "clover-audit")
			require.NoError(t, err)
			defer os.RemoveAll(dir)

			db, err := open[name](filepath.Join(dir, "db"))
			if err != nil { // the stores may want an existing directory
				require.NoError(t, os.MkdirAll(filepath.Join(dir, "db"), 0o755))
				db, err = open[name](filepath.Join(dir, "db"))
			}
			require.NoError(t, err)
			defer db.Close()

			test(t, db, dir)
		})
	}
}

func auditStoreAndReadBack(t *testing.T, db *c.DB, collection string, tm time.Time) time.Time {
	doc := d.NewDocument()
	doc.Set("t", tm)
	require.NoError(t, db.Insert(collection, doc))

	stored, err := db.FindById(collection, doc.ObjectId())
	require.NoError(t, err)
	require.NotNil(t, stored)

	readBack, isTime := stored.Get("t").(time.Time)
	require.True(t, isTime)
	return readBack
}

// commit 355a2cd: the offset of a time at a negative zone offset which is not a whole number of
// minutes is repaired after time.Time's decoding, but not the choice of the location which that
// decoding makes from the offset. A time of the local zone is read back in the local zone
// (time.Local, with the name of the zone) when its offset is positive or a whole number of
// minutes; at -4:56:02 (time.Local = America/New_York, any date before 1883-11-18) it is read
// back in a nameless fixed zone instead.
func TestAuditLocalTimeAtNegativeSecondsOffsetIsReadBackInLocalZone(t *testing.T) {
	savedLocal := time.Local
	defer func() { time.Local = savedLocal }()

	// the local mean time of New York and its mirror image: no time zone database is needed
	for _, offset := range []int{+17762, -17762} {
		time.Local = time.FixedZone("LMT", offset)

		t.Run(fmt.Sprintf("local zone at %+d seconds", offset), func(t *testing.T) {
			auditRunOnBothStores(t, func(t *testing.T, db *c.DB, _ string) {
				require.NoError(t, db.CreateCollection("c"))

				tm := time.Date(1800, time.January, 2, 3, 4, 5, 0, time.Local)
				readBack := auditStoreAndReadBack(t, db, "c", tm)

				_, readBackOffset := readBack.Zone()
				require.True(t, readBack.Equal(tm))
				require.Equal(t, offset, readBackOffset)

				require.Truef(t, readBack.Location() == time.Local,
					"offset %d: a time of the local zone is read back in the location %q instead of time.Local", offset, readBack.Location().String())
				require.Equalf(t, tm.Format("2006-01-02 15:04:05 -07:00:00 MST"), readBack.Format("2006-01-02 15:04:05 -07:00:00 MST"),
					"offset %d", offset)
			})
		})
	}
}

// commit 355a2cd: with the actual time zone database, when there is one: what is read back no
// longer follows the rules of the local zone (here: one hundred years later, in June, New York is at -4:00).
func TestAuditLocalTimeBefore1883InNewYork(t *testing.T) {
	newYork, err := time.LoadLocation("America/New_York")
	if err != nil {
		t.Skip("no time zone database")
	}
	amsterdam, err := time.LoadLocation("Europe/Amsterdam") // +0:19:32 before 1937
	if err != nil {
		t.Skip("no time zone database")
	}

	savedLocal := time.Local
	defer func() { time.Local = savedLocal }()

	for _, location := range []*time.Location{amsterdam, newYork} {
		time.Local = location

		t.Run(location.String(), func(t *testing.T) {
			auditRunOnBothStores(t, func(t *testing.T, db *c.DB, _ string) {
				require.NoError(t, db.CreateCollection("c"))

				tm := time.Date(1850, time.June, 1, 12, 0, 0, 0, time.Local)
				readBack := auditStoreAndReadBack(t, db, "c", tm)
				require.True(t, readBack.Equal(tm))

				require.Equalf(t, tm.AddDate(100, 0, 0).Format(time.RFC3339), readBack.AddDate(100, 0, 0).Format(time.RFC3339),
					"%s: one hundred years after the stored time", location)
			})
		})
	}
}

// commit 355a2cd: the negative offsets between -0:01:00 and -0:01:59 are not whole numbers of
// minutes either (but for the first one), and a time at one of them is not kept at all: the
// binary encoding of time.Time, which holds -1 in the minutes of the offset for UTC, refuses it,
// and so does Insert. The same time is accepted at -0:00:30, at -0:02:30 and at +0:01:30.
func TestAuditTimeAtMinusOneMinuteAndAHalfIsStored(t *testing.T) {
	auditRunOnBothStores(t, func(t *testing.T, db *c.DB, _ string) {
		require.NoError(t, db.CreateCollection("c"))

		for _, offset := range []int{+90, -30, -150, -90} {
			tm := time.Date(1800, time.January, 2, 3, 4, 5, 0, time.FixedZone("", offset))

			doc := d.NewDocument()
			doc.Set("t", tm)
			require.NoErrorf(t, db.Insert("c", doc), "a time at the offset of %d seconds", offset)

			stored, err := db.FindById("c", doc.ObjectId())
			require.NoError(t, err)

			readBack := stored.Get("t").(time.Time)
			_, readBackOffset := readBack.Zone()
			require.True(t, readBack.Equal(tm))
			require.Equal(t, offset, readBackOffset)
		}
	})
}

// commit 355a2cd (the other way a document is written and read back): ExportCollection writes a
// time as an RFC 3339 string, whose zone offset has no seconds, with the wall clock of the actual
// offset; ImportCollection makes a time again of the expiration of a document (restoreExpiration).
// An expiration at -4:56:02 comes back 2 seconds earlier: not the same instant with another
// offset, but another instant.
func TestAuditExpirationAtSecondsOffsetSurvivesExportImport(t *testing.T) {
	auditRunOnBothStores(t, func(t *testing.T, db *c.DB, dir string) {
		require.NoError(t, db.CreateCollection("c"))

		for _, offset := range []int{-5 * 3600, 17762, -17762} {
			doc := d.NewDocument()
			doc.Set("offset", offset)
			doc.SetExpiresAt(time.Date(2200, time.January, 2, 3, 4, 5, 0, time.FixedZone("", offset)))
			require.NoError(t, db.Insert("c", doc))
		}

		exportPath := filepath.Join(dir, "export.json")
		require.NoError(t, db.ExportCollection("c", exportPath))
		require.NoError(t, db.ImportCollection("imported", exportPath))

		docs, err := db.FindAll(q.NewQuery("c"))
		require.NoError(t, err)
		require.Len(t, docs, 3)

		for _, doc := range docs {
			imported, err := db.FindById("imported", doc.ObjectId())
			require.NoError(t, err)
			require.NotNil(t, imported)
			require.NotNil(t, imported.ExpiresAt())

			require.Truef(t, doc.ExpiresAt().Equal(*imported.ExpiresAt()),
				"offset %v: the document expires at %s, the imported one at %s", doc.Get("offset"),
				doc.ExpiresAt().UTC().Format(time.RFC3339), imported.ExpiresAt().UTC().Format(time.RFC3339))
		}
	})
}
