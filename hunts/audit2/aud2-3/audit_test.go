// place in: document
package document

import (
	"encoding/json"
	"testing"
	"time"

	"github.com/stretchr/testify/require"
)

// audit of f53e200 (fix: Unmarshal follows an interface target only where encoding/json decodes
// into what it holds)

type auditItem struct {
	Name string `clover:"item_name"`
	Qty  int    `clover:"item_qty" json:"q"`
}

type auditEnvelope struct {
	Kind string
	Body interface{} // the caller puts a pointer here to choose the type which is decoded
}

type auditBatch struct {
	Items []interface{}
}

// encoding/json decodes into what an interface holds (a pointer which is not nil) wherever it meets
// one, not only at the top of the target: a field of interface type, an element of a slice of
// interfaces. The rename walk of Unmarshal follows such an interface only at the top (renameMapKeys):
// below it goes by the static types alone (renameValue), so the struct behind the interface receives
// the document under its clover names and its fields are silently left empty.
func TestAuditUnmarshalInterfaceHoldingPointerBelowTheTop(t *testing.T) {
	t.Run("baseline: encoding/json decodes into the pointer held by the field", func(t *testing.T) {
		env := auditEnvelope{Body: &auditItem{}}
		require.NoError(t, json.Unmarshal([]byte(`{"Kind":"k","Body":{"Name":"n","q":3}}`), &env))
		require.Equal(t, &auditItem{Name: "n", Qty: 3}, env.Body)
	})

	t.Run("baseline: the same struct at the top of the target is renamed", func(t *testing.T) {
		doc := NewDocumentOf(auditItem{Name: "n", Qty: 3})
		var target interface{} = &auditItem{}
		require.NoError(t, doc.Unmarshal(&target))
		require.Equal(t, &auditItem{Name: "n", Qty: 3}, target)
	})

	t.Run("field of interface type", func(t *testing.T) {
		doc := NewDocumentOf(auditEnvelope{Kind: "k", Body: &auditItem{Name: "n", Qty: 3}})
		require.Equal(t, map[string]interface{}{"item_name": "n", "item_qty": int64(3)}, doc.Get("Body"))

		env := auditEnvelope{Body: &auditItem{}}
		require.NoError(t, doc.Unmarshal(&env))
		require.Equal(t, "k", env.Kind)
		require.Equal(t, &auditItem{Name: "n", Qty: 3}, env.Body, "round trip through a field of interface type")
	})

	t.Run("element of a slice of interfaces", func(t *testing.T) {
		doc := NewDocumentOf(auditBatch{Items: []interface{}{&auditItem{Name: "n", Qty: 3}}})

		batch := auditBatch{Items: []interface{}{&auditItem{}}}
		require.NoError(t, doc.Unmarshal(&batch))
		require.Equal(t, []interface{}{&auditItem{Name: "n", Qty: 3}}, batch.Items, "round trip through an element of interface type")
	})
}

// encoding/json does not decode into what an interface holds when that is the address of the
// interface variable itself (decode.go, indirect: "prevent infinite loop if v is an interface
// pointing to its own address"): it replaces the content of the variable. The loop of renameMapKeys
// which finds the value json.Unmarshal decodes into has no such exit and never ends.
func TestAuditUnmarshalInterfaceHoldingItsOwnAddress(t *testing.T) {
	t.Run("baseline: encoding/json replaces the content", func(t *testing.T) {
		var x interface{}
		x = &x
		require.NoError(t, json.Unmarshal([]byte(`{"item_name":"n"}`), &x))
		require.Equal(t, map[string]interface{}{"item_name": "n"}, x)
	})

	doc := NewDocumentOf(auditItem{Name: "n", Qty: 3})

	var x interface{}
	x = &x

	done := make(chan error, 1)
	go func() { done <- doc.Unmarshal(&x) }()

	select {
	case err := <-done:
		require.NoError(t, err)
		require.Equal(t, map[string]interface{}{"item_name": "n", "item_qty": float64(3)}, x)
	case <-time.After(3 * time.Second):
		t.Fatal("Unmarshal(&x) with x = &x did not return within 3s: renameMapKeys follows pointer -> interface -> pointer for ever")
	}
}
