// place in: document
package document_test

import (
	"reflect"
	"testing"

	"github.com/ostafen/clover/v2/document"
)

// 6ec766c: "The zero Document is now an empty document". Unmarshal still tells them apart: the
// fields of the zero Document are a nil map, which goes through encoding/json as null instead of {}
// when the target gives no type to rename the fields for (an interface variable).
func TestAuditZeroDocumentUnmarshal(t *testing.T) {
	var fromEmpty, fromZero interface{}
	if err := document.NewDocument().Unmarshal(&fromEmpty); err != nil {
		t.Fatal(err)
	}
	if err := (&document.Document{}).Unmarshal(&fromZero); err != nil {
		t.Fatal(err)
	}
	if !reflect.DeepEqual(fromEmpty, fromZero) {
		t.Errorf("Unmarshal into an interface variable: %#v from the empty document, %#v from the zero Document", fromEmpty, fromZero)
	}

	// the same after a round trip through Set, which gives the zero Document its map
	zero := &document.Document{}
	zero.Set("a", 1)
	var fromSet interface{}
	if err := zero.Unmarshal(&fromSet); err != nil {
		t.Fatal(err)
	}
	if _, isMap := fromSet.(map[string]interface{}); !isMap {
		t.Errorf("Unmarshal after Set: %#v", fromSet)
	}

	// a value held by the target is replaced by the (empty) object of an empty document, but is
	// wiped out by the zero Document
	var held interface{} = "previous"
	if err := (&document.Document{}).Unmarshal(&held); err != nil {
		t.Fatal(err)
	}
	if _, isMap := held.(map[string]interface{}); !isMap {
		t.Errorf("Unmarshal of the zero Document into an interface variable holding a value: %#v, want an empty object as for NewDocument()", held)
	}
}
