// place in: store/bbolt
package bbolt_test

import (
	"os"
	"strings"
	"testing"

	"github.com/ostafen/clover/v2/store"
	"github.com/ostafen/clover/v2/store/bbolt"
)

// auditOpen opens a bbolt store holding the given keys, committed.
func auditOpen(t *testing.T, keys ...string) store.Store {
	t.Helper()

	dir, err := os.MkdirTemp("", "aud2-0-bbolt")
	if err != nil {
		t.Fatal(err)
	}
	t.Cleanup(func() { os.RemoveAll(dir) })

	s, err := bbolt.Open(dir)
	if err != nil {
		t.Fatal(err)
	}
	t.Cleanup(func() { s.Close() })

	tx, err := s.Begin(true)
	if err != nil {
		t.Fatal(err)
	}
	for _, key := range keys {
		if err := tx.Set([]byte(key), []byte("v")); err != nil {
			t.Fatal(err)
		}
	}
	if err := tx.Commit(); err != nil {
		t.Fatal(err)
	}
	return s
}

// auditWalk begins a writable transaction, applies pre, positions a cursor on seek, and visits the
// keys up to the end: during is applied once, while the cursor stands on the first key it visits.
func auditWalk(t *testing.T, s store.Store, forward bool, pre func(tx store.Tx), seek string, during func(tx store.Tx)) string {
	t.Helper()

	tx, err := s.Begin(true)
	if err != nil {
		t.Fatal(err)
	}
	defer tx.Rollback()

	pre(tx)

	c, err := tx.Cursor(forward)
	if err != nil {
		t.Fatal(err)
	}
	defer c.Close()

	if err := c.Seek([]byte(seek)); err != nil {
		t.Fatal(err)
	}

	visited := make([]string, 0)
	for ; c.Valid() && len(visited) < 20; c.Next() {
		item, err := c.Item()
		if err != nil {
			t.Fatal(err)
		}
		visited = append(visited, string(item.Key))
		if len(visited) == 1 {
			during(tx)
		}
	}
	return strings.Join(visited, " ")
}

func auditSet(key string) func(tx store.Tx) {
	return func(tx store.Tx) { _ = tx.Set([]byte(key), []byte("v")) }
}

func auditDelete(key string) func(tx store.Tx) {
	return func(tx store.Tx) { _ = tx.Delete([]byte(key)) }
}

// 806328a: "prev moves to the last key before from, the key the cursor is on", from a fresh position
// when "the path [the bbolt cursor] keeps (which the writes of the transaction do not update)" is of no
// use any more. The path is only refreshed once it is exhausted. When the leaf the cursor stands on
// has been written to earlier in the transaction (it is a node in memory, whose entries are shifted
// in place by every later Put and Delete), the stale index of the path makes Next() yield the key
// the cursor is already on, or step over a key which has been in the bucket all along.
func TestAuditReverseCursorAfterWritesInItsLeaf(t *testing.T) {
	t.Run("a smaller key is deleted", func(t *testing.T) {
		s := auditOpen(t, "a", "b", "c")
		// the transaction puts d, walks back from c and deletes a on its way
		got := auditWalk(t, s, false, auditSet("d"), "c", auditDelete("a"))
		if got != "c b" {
			t.Errorf("reverse walk from c, a deleted while on c: visited %q, want %q", got, "c b")
		}
	})

	t.Run("a smaller key is put", func(t *testing.T) {
		s := auditOpen(t, "a", "b", "c", "d")
		// the transaction puts e, walks back from d and puts 0 on its way: whether 0 is visited or
		// not, c, b and a, which nobody touches, have to be
		got := auditWalk(t, s, false, auditSet("e"), "d", auditSet("0"))
		if got != "d c b a 0" && got != "d c b a" {
			t.Errorf("reverse walk from d, 0 put while on d: visited %q, want %q (with or without 0)", got, "d c b a")
		}
	})
}

// The forward cursor shares the flaw which 806328a describes (the path is not updated by the writes of
// the transaction) and has not been touched: it never repositions itself.
func TestAuditForwardCursorAfterWritesInItsLeaf(t *testing.T) {
	t.Run("a smaller key is deleted", func(t *testing.T) {
		s := auditOpen(t, "a", "b", "c", "d")
		got := auditWalk(t, s, true, auditSet("e"), "b", auditDelete("a"))
		if got != "b c d e" {
			t.Errorf("forward walk from b, a deleted while on b: visited %q, want %q", got, "b c d e")
		}
	})

	t.Run("a smaller key is put", func(t *testing.T) {
		s := auditOpen(t, "a", "b", "c")
		got := auditWalk(t, s, true, auditSet("d"), "b", auditSet("0"))
		if got != "b c d" {
			t.Errorf("forward walk from b, 0 put while on b: visited %q, want %q", got, "b c d")
		}
	})
}
