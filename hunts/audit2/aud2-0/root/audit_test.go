// place in: .
package clover_test

import (
	"os"
	"strings"
	"testing"

	"github.com/ostafen/clover/v2/store"
	badgerstore "github.com/ostafen/clover/v2/store/badger"
	"github.com/ostafen/clover/v2/store/bbolt"
)

// auditWalkStore commits the initial keys, then, in one writable transaction, positions a cursor
// of the given direction on seek, applies during while the cursor stands there, and visits the rest.
func auditWalkStore(t *testing.T, open func(dir string) (store.Store, error), forward bool, initial []string, seek string, during func(tx store.Tx)) string {
	t.Helper()

	dir, err := os.MkdirTemp("", "aud2-0-store")
	if err != nil {
		t.Fatal(err)
	}
	defer os.RemoveAll(dir)

	s, err := open(dir)
	if err != nil {
		t.Fatal(err)
	}
	defer s.Close()

	tx, err := s.Begin(true)
	if err != nil {
		t.Fatal(err)
	}
	for _, key := range initial {
		if err := tx.Set([]byte(key), []byte("v")); err != nil {
			t.Fatal(err)
		}
	}
	if err := tx.Commit(); err != nil {
		t.Fatal(err)
	}

	tx, err = s.Begin(true)
	if err != nil {
		t.Fatal(err)
	}
	defer tx.Rollback()

	c, err := tx.Cursor(forward)
	if err != nil {
		t.Fatal(err)
	}
	defer c.Close()

	if err := c.Seek([]byte(seek)); err != nil {
		t.Fatal(err)
	}

	visited := make([]string, 0)
	for ; c.Valid() && len(visited) < 20; c.Next() {
		item, err := c.Item()
		if err != nil {
			t.Fatal(err)
		}
		visited = append(visited, string(item.Key))
		if len(visited) == 1 {
			during(tx)
		}
	}
	return strings.Join(visited, " ")
}

// 806328a, on the very history of its message: a reverse cursor stands on the first key and a smaller
// key is put in the same transaction. Next() returns now, but on bbolt it goes to the new key, which
// no other cursor shows: not the badger one (its iterators do not see what the transaction writes
// after they are made), not the forward bbolt cursor in the mirror history (on the last key, a
// greater key put: the walk ends), not the reverse bbolt cursor itself when it stands anywhere but
// on the first key (on c of {a, c}, b put: b is not visited).
func TestAuditReverseCursorOnFirstKeyBackends(t *testing.T) {
	put := func(key string) func(tx store.Tx) {
		return func(tx store.Tx) { _ = tx.Set([]byte(key), []byte("v")) }
	}

	onBadger := auditWalkStore(t, badgerstore.Open, false, []string{"b", "c"}, "b", put("a"))
	onBbolt := auditWalkStore(t, bbolt.Open, false, []string{"b", "c"}, "b", put("a"))
	if onBadger != onBbolt {
		t.Errorf("reverse walk from b (the first key), a put while on b: badger visits %q, bbolt visits %q", onBadger, onBbolt)
	}

	// the mirror history and the history one key further, on bbolt: a key put in the transaction
	// while the cursor walks is not visited
	if got := auditWalkStore(t, bbolt.Open, true, []string{"a", "b"}, "b", put("c")); got != "b" {
		t.Errorf("forward walk from b (the last key), c put while on b: bbolt visits %q", got)
	}
	if got := auditWalkStore(t, bbolt.Open, false, []string{"a", "c"}, "c", put("b")); got != "c a" {
		t.Errorf("reverse walk from c, b put while on c: bbolt visits %q", got)
	}
}
