#!/bin/sh
# check.sh <property-id|all> <quick|thorough>   decide a property on /repo's current tree
# check.sh --rules R1,R2 [repo]                 run single rules, print every obligation
# check.sh --replay <path>                      re-evaluate the obligation recorded in a replay file
# check.sh --selftest [rule]                    run the checker's own mutation self-test
cd "$(dirname "$0")" || exit 2
export GOFLAGS=-mod=mod GOPROXY=off GOSUMDB=off GOTOOLCHAIN=local GOWORK=off
REPO="${CLOVER_REPO:-/repo}"
if [ ! -x bin/cloverlint ] || [ -n "$(find checker -name '*.go' -newer bin/cloverlint 2>/dev/null | head -1)" ]; then
  ./setup.sh >/dev/null || { echo "CHECKER-FAILURE: cannot build cloverlint" >&2; exit 2; }
fi
case "$1" in
  --rules)
    [ -n "$3" ] && REPO="$3"
    exec bin/cloverlint -rules "$2" -repo "$REPO" -verif "$(pwd)" ;;
  --replay)
    rule=$(python3 -c 'import json,sys; print(json.load(open(sys.argv[1]))["rule"])' "$2") || exit 2
    key=$(python3 -c 'import json,sys; print(json.load(open(sys.argv[1]))["key"])' "$2")
    out=$(bin/cloverlint -rules "$rule" -repo "$REPO" -verif "$(pwd)"); rc=$?
    echo "$out" | grep -F -- "$key" || echo "obligation $key no longer violated"
    exit $rc ;;
  --selftest)
    exec ./selftest.sh "$2" ;;
  "")
    echo "usage: check.sh <id|all> <quick|thorough>" >&2; exit 2 ;;
esac
ID="$1"; TIER="${2:-${VERIF_TIER:-quick}}"
if [ "$TIER" = thorough ] && [ -x ./thorough.sh ]; then
  exec ./thorough.sh "$ID" "$REPO"
fi
exec bin/cloverlint -property "$ID" -tier "$TIER" -repo "$REPO" -verif "$(pwd)"
